(* Model/ChartCfg: chart configuration records (internal/chartconfig/
   chartconfig.go), the line-oriented parser chartconfig.Parse (load.go) as
   the state machine it is, and a renderer of records in the documented
   syntax (with layout choices: blanks, comments, filler lines, empty
   records, multi-line bucket lists).

   Numbers: `depth` is parsed by a decimal parser equal to
   strconv.ParseInt(s, 10, 64) on every input; `error` (float64) is kept as
   its IEEE-754 bit pattern (N) and strconv.ParseFloat / FormatFloat are the
   Section oracles parse_float / render_float.  Executable definitions only. *)
From Coq Require Import List NArith ZArith Bool.
From Tele Require Import Lib.Bytes Lib.Text.
Import ListNotations.
Open Scope N_scope.
From Coq Require Import String. Open Scope string_scope. Open Scope N_scope. Open Scope list_scope.

(* literals, evaluated to byte lists at definition time (so that the extracted
   model contains no Coq strings) *)
Definition lit_title : bytes := Eval vm_compute in s2b "title".
Definition lit_description : bytes := Eval vm_compute in s2b "description".
Definition lit_issue : bytes := Eval vm_compute in s2b "issue".
Definition lit_type : bytes := Eval vm_compute in s2b "type".
Definition lit_program : bytes := Eval vm_compute in s2b "program".
Definition lit_module : bytes := Eval vm_compute in s2b "module".
Definition lit_counter : bytes := Eval vm_compute in s2b "counter".
Definition lit_depth : bytes := Eval vm_compute in s2b "depth".
Definition lit_error : bytes := Eval vm_compute in s2b "error".
Definition lit_version : bytes := Eval vm_compute in s2b "version".
Definition lit_slice : bytes := Eval vm_compute in s2b "slice".
Definition lit_int : bytes := Eval vm_compute in s2b "int".
Definition lit_float64 : bytes := Eval vm_compute in s2b "float64".
Definition lit_string : bytes := Eval vm_compute in s2b "string".
Definition lit_sep : bytes := Eval vm_compute in s2b "---".
Definition lit_counter_colon : bytes := Eval vm_compute in s2b "counter:".

(* ---- keys = lower-cased field names of ChartConfig, in struct order *)
Inductive key := KTitle | KDescription | KIssue | KType | KProgram | KModule
               | KCounter | KDepth | KError | KVersion.

Definition key_name (k : key) : bytes :=
  match k with
  | KTitle => lit_title | KDescription => lit_description | KIssue => lit_issue
  | KType => lit_type | KProgram => lit_program | KModule => lit_module
  | KCounter => lit_counter | KDepth => lit_depth | KError => lit_error
  | KVersion => lit_version
  end.
Definition all_keys : list key :=
  [KTitle; KDescription; KIssue; KType; KProgram; KModule; KCounter; KDepth; KError; KVersion].
Definition key_index (k : key) : nat :=
  match k with
  | KTitle => 0 | KDescription => 1 | KIssue => 2 | KType => 3 | KProgram => 4 | KModule => 5
  | KCounter => 6 | KDepth => 7 | KError => 8 | KVersion => 9
  end%nat.
Definition key_eqb (a b : key) : bool := Nat.eqb (key_index a) (key_index b).
(* reflect.Slice kinds: only Issue *)
Definition is_slice (k : key) : bool := match k with KIssue => true | _ => false end.
(* Go kind of the field, for the correspondence of the key table *)
Definition key_kind (k : key) : bytes :=
  match k with
  | KIssue => lit_slice | KDepth => lit_int | KError => lit_float64 | _ => lit_string
  end.

Record chart := mkChart {
  c_title : bytes; c_description : bytes; c_issue : list bytes; c_type : bytes;
  c_program : bytes; c_module : bytes; c_counter : bytes; c_depth : Z;
  c_error : N;   (* float64 bit pattern *)
  c_version : bytes }.

Definition empty_chart : chart := mkChart [] [] [] [] [] [] [] 0%Z 0 [].

(* ---- strconv.ParseInt(s, 10, 64) *)
Definition digits_val (s : bytes) : N := fold_left (fun a c => a * 10 + (c - 48)) s 0.
Definition parse_int64 (s : bytes) : option Z :=
  let '(neg, d) := match s with
                   | 43 :: d => (false, d)
                   | 45 :: d => (true, d)
                   | _ => (false, s)
                   end in
  match d with
  | [] => None
  | _ => if forallb is_digit d then
           let v := Z.of_N (digits_val d) in
           let z := if neg then (- v)%Z else v in
           if ((- 9223372036854775808 <=? z) && (z <=? 9223372036854775807))%Z then Some z else None
         else None
  end.
Definition render_int (z : Z) : bytes :=
  if (z <? 0)%Z then 45 :: dec_of_N (Z.to_N (- z)) else dec_of_N (Z.to_N z).

(* ---- errors of Parse, as classes *)
Inductive perr :=
| EEndOfRecord      (* "reached end of record while processing multiline counter field" *)
| EUnexpectedClose  (* "unexpected '}'" *)
| EUnexpectedOpen   (* "unexpected '{'" *)
| EOpenNotCounter   (* "'{' is only allowed to appear within a counter field" *)
| EOpenTwice        (* "'{' is only allowed to appear once within a counter field" *)
| ECloseAfterComma  (* "unexpected '}' after ','" *)
| EBadLine          (* "lines must be '---', consist only of whitespace/comments, or start with ..." *)
| ERepeated         (* "field %s may not be repeated" *)
| EBadInt           (* "invalid int value" *)
| EBadFloat         (* "invalid float value" *)
| EEndOfFile.       (* "reached end of file while processing multiline counter field" *)

Definition perr_code (e : perr) : N :=
  match e with
  | EEndOfRecord => 1 | EUnexpectedClose => 2 | EUnexpectedOpen => 3 | EOpenNotCounter => 4
  | EOpenTwice => 5 | ECloseAfterComma => 6 | EBadLine => 7 | ERepeated => 8 | EBadInt => 9
  | EBadFloat => 10 | EEndOfFile => 11
  end.

Inductive presult :=
| PErr (line : option N) (e : perr)   (* line: the 0-based index the message carries *)
| POk (rs : list chart).

Record pstate := mkSt {
  st_done : list chart;    (* records *)
  st_cur : chart;          (* inProgress *)
  st_set : list key;       (* keys of the map `set` *)
  st_acc : bytes }.        (* accumulatedCounterText *)

Definition init_state : pstate := mkSt [] empty_chart [] [].

Definition flush (st : pstate) : pstate :=
  mkSt (match st_set st with [] => st_done st | _ => st_done st ++ [st_cur st] end) empty_chart [] [].

Definition key_set (k : key) (set : list key) : bool := existsb (key_eqb k) set.

Definition sep_line : bytes := lit_sep.
Definition counter_prefix : bytes := lit_counter_colon.

Section Parse.
  Variable parse_float : bytes -> option N.   (* strconv.ParseFloat(s, 64): bits, None = error *)

  Definition set_field (k : key) (v : bytes) (c : chart) : chart + perr :=
    match k with
    | KTitle => inl (mkChart v (c_description c) (c_issue c) (c_type c) (c_program c) (c_module c) (c_counter c) (c_depth c) (c_error c) (c_version c))
    | KDescription => inl (mkChart (c_title c) v (c_issue c) (c_type c) (c_program c) (c_module c) (c_counter c) (c_depth c) (c_error c) (c_version c))
    | KIssue => inl (mkChart (c_title c) (c_description c) (c_issue c ++ [v]) (c_type c) (c_program c) (c_module c) (c_counter c) (c_depth c) (c_error c) (c_version c))
    | KType => inl (mkChart (c_title c) (c_description c) (c_issue c) v (c_program c) (c_module c) (c_counter c) (c_depth c) (c_error c) (c_version c))
    | KProgram => inl (mkChart (c_title c) (c_description c) (c_issue c) (c_type c) v (c_module c) (c_counter c) (c_depth c) (c_error c) (c_version c))
    | KModule => inl (mkChart (c_title c) (c_description c) (c_issue c) (c_type c) (c_program c) v (c_counter c) (c_depth c) (c_error c) (c_version c))
    | KCounter => inl (mkChart (c_title c) (c_description c) (c_issue c) (c_type c) (c_program c) (c_module c) v (c_depth c) (c_error c) (c_version c))
    | KDepth => match parse_int64 v with
                | Some z => inl (mkChart (c_title c) (c_description c) (c_issue c) (c_type c) (c_program c) (c_module c) (c_counter c) z (c_error c) (c_version c))
                | None => inr EBadInt
                end
    | KError => match parse_float v with
                | Some f => inl (mkChart (c_title c) (c_description c) (c_issue c) (c_type c) (c_program c) (c_module c) (c_counter c) (c_depth c) f (c_version c))
                | None => inr EBadFloat
                end
    | KVersion => inl (mkChart (c_title c) (c_description c) (c_issue c) (c_type c) (c_program c) (c_module c) (c_counter c) (c_depth c) (c_error c) v)
    end.

  (* `for k := range fields { if HasPrefix(text, k+":") ...}`: at most one key
     can match (Proofs/ChartCfgFacts.match_key_unique), so the map order is
     immaterial *)
  Fixpoint match_key_in (ks : list key) (text : bytes) : option key * bytes :=
    match ks with
    | [] => (None, text)
    | k :: ks' =>
        let p := key_name k ++ [58] in
        if has_prefix text p then (Some k, skipn (List.length p) text) else match_key_in ks' text
    end.
  Definition match_key := match_key_in all_keys.

  (* first block of the loop body: the start of a counter field with '{' *)
  Definition phase1 (acc text : bytes) : (bytes * bytes) + perr :=
    if is_empty acc then
      match index_byte text 123 with
      | Some oi =>
          if has_byte 125 (firstn oi text) then inr EUnexpectedClose
          else if has_byte 123 (skipn (S oi) text) then inr EUnexpectedOpen
          else if negb (has_prefix text counter_prefix) then inr EOpenNotCounter
          else inl (trim_right_space text, [])
      | None => if has_byte 125 text then inr EUnexpectedClose else inl (acc, text)
      end
    else inl (acc, text).

  (* second block: accumulation; Some text = a complete line to process *)
  Definition phase2 (acc text : bytes) : (option bytes * bytes) + perr :=
    if is_empty acc then inl (Some text, acc)
    else if has_byte 123 text then inr EOpenTwice
    else
      let acc2 := acc ++ ftrim_space text in
      match index_byte acc2 125 with
      | Some ci =>
          if has_byte 125 (skipn (S ci) acc2) then inr EUnexpectedClose
          else if (Nat.ltb 0 ci) && fhas_suffix (firstn ci acc2) [44] then inr ECloseAfterComma
          else inl (Some acc2, [])
      | None => inl (None, acc2)
      end.

  (* third block: key, value, store *)
  Definition apply_field (st : pstate) (text : bytes) : pstate + perr :=
    let '(ok, rest) := match_key text in
    let v := ftrim_space rest in
    if is_empty v then inl st
    else match ok with
         | None => inr EBadLine
         | Some k =>
             if key_set k (st_set st) && negb (is_slice k) then inr ERepeated
             else match set_field k v (st_cur st) with
                  | inl c => inl (mkSt (st_done st) c (k :: st_set st) (st_acc st))
                  | inr e => inr e
                  end
         end.

  Definition step (st : pstate) (line : bytes) : pstate + perr :=
    if beq line sep_line then
      if is_empty (st_acc st) then inl (flush st) else inr EEndOfRecord
    else
      let text := cut_before line 35 in
      match phase1 (st_acc st) text with
      | inr e => inr e
      | inl (acc1, text1) =>
          match phase2 acc1 text1 with
          | inr e => inr e
          | inl (None, acc2) => inl (mkSt (st_done st) (st_cur st) (st_set st) acc2)
          | inl (Some t, acc2) => apply_field (mkSt (st_done st) (st_cur st) (st_set st) acc2) t
          end
      end.

  Definition finish (st : pstate) : presult :=
    if is_empty (st_acc st) then POk (st_done (flush st)) else PErr None EEndOfFile.

  (* structural recursion over the lines: total by construction *)
  Fixpoint parse_lines (st : pstate) (n : N) (lines : list bytes) : presult :=
    match lines with
    | [] => finish st
    | l :: ls => match step st l with
                 | inr e => PErr (Some n) e
                 | inl st' => parse_lines st' (n + 1) ls
                 end
    end.

  Definition parse (data : bytes) : presult := parse_lines init_state 0 (split_byte data 10).
End Parse.

(* ---- rendering *)

Record fstyle := mkFs {
  fs_ws1 : bytes;    (* blanks between "key:" and the value *)
  fs_ws2 : bytes;    (* blanks after the value *)
  fs_cmt : bytes }.  (* "" or "#..." *)
Definition canon_fs : fstyle := mkFs [32] [] [].

Record rstyle := mkRs {
  rs_sep : bool;            (* an extra "---" (empty record) before this record *)
  rs_pre : list bytes;      (* filler lines (blank / comment) before the fields *)
  rs_f : key -> fstyle;
  rs_multi : bool;          (* bucket list of `counter` one bucket per line *)
  rs_indent : bytes;        (* indentation of the bucket lines *)
  rs_post : list bytes }.   (* filler lines after the fields *)
Definition canon_rs (multi : bool) : rstyle := mkRs false [] (fun _ => canon_fs) multi [32; 32] [].

Definition field_line (k : key) (v : bytes) (fs : fstyle) : bytes :=
  key_name k ++ [58] ++ fs_ws1 fs ++ v ++ fs_ws2 fs ++ fs_cmt fs.

Definition opt_line (k : key) (v : bytes) (sty : rstyle) : list bytes :=
  if is_empty v then [] else [field_line k v (rs_f sty k)].

Fixpoint body_lines (indent : bytes) (items : list bytes) : list bytes :=
  match items with
  | [] => []
  | [it] => [indent ++ it]
  | it :: rest => (indent ++ it ++ [44]) :: body_lines indent rest
  end.

(* decomposition of a counter expression pre{body}post *)
Definition split_braces (c : bytes) : option (bytes * bytes * bytes) :=
  match index_byte c 123 with
  | Some oi =>
      let rest := skipn (S oi) c in
      match index_byte rest 125 with
      | Some ci => Some (firstn oi c, firstn ci rest, skipn (S ci) rest)
      | None => None
      end
  | None => None
  end.

Definition counter_lines (c : bytes) (sty : rstyle) : list bytes :=
  if is_empty c then [] else
  let fs := rs_f sty KCounter in
  match (if rs_multi sty then split_braces c else None) with
  | Some (pre, body, post) =>
      (key_name KCounter ++ [58] ++ fs_ws1 fs ++ pre ++ [123] ++ fs_ws2 fs ++ fs_cmt fs)
      :: body_lines (rs_indent sty) (split_byte body 44) ++ [125 :: post]
  | None => [field_line KCounter c fs]
  end.

Section Render.
  Variable render_float : N -> bytes.   (* strconv.FormatFloat(f, 'g', -1, 64) of the bit pattern *)

  Definition record_lines (r : chart) (sty : rstyle) : list bytes :=
    (if rs_sep sty then [sep_line] else []) ++ rs_pre sty
    ++ counter_lines (c_counter r) sty
    ++ opt_line KTitle (c_title r) sty
    ++ opt_line KDescription (c_description r) sty
    ++ map (fun v => field_line KIssue v (rs_f sty KIssue)) (c_issue r)
    ++ opt_line KType (c_type r) sty
    ++ opt_line KProgram (c_program r) sty
    ++ opt_line KModule (c_module r) sty
    ++ opt_line KVersion (c_version r) sty
    ++ (if (c_depth r =? 0)%Z then [] else [field_line KDepth (render_int (c_depth r)) (rs_f sty KDepth)])
    ++ (if c_error r =? 0 then [] else [field_line KError (render_float (c_error r)) (rs_f sty KError)])
    ++ rs_post sty.

  Fixpoint render_lines (items : list (chart * rstyle)) : list bytes :=
    match items with
    | [] => []
    | [(r, s)] => record_lines r s
    | (r, s) :: rest => record_lines r s ++ sep_line :: render_lines rest
    end.

  Definition render (items : list (chart * rstyle)) : bytes := unlines (render_lines items).

  (* the canonical rendering: "key: value" lines in the documented order,
     records separated by "---", bucket lists on one line (multi = false) or
     one bucket per line (multi = true) *)
  Definition render_canonical (multi : bool) (rs : list chart) : bytes :=
    render (map (fun r => (r, canon_rs multi)) rs).
End Render.

(* ---- validity of records and layouts (executable) *)

Definition valid_value (v : bytes) : bool :=
  negb (is_empty v) && negb (has_byte 10 v) && negb (has_byte 35 v) && trimmed v.
(* value of a non-counter field *)
Definition plain_value (v : bytes) : bool :=
  valid_value v && negb (has_byte 123 v) && negb (has_byte 125 v).
Definition opt_plain (v : bytes) : bool := is_empty v || plain_value v.

(* counter: no braces, or exactly one '{' followed by exactly one '}' not
   directly preceded by ',' *)
Definition braces_ok (c : bytes) : bool :=
  match index_byte c 123 with
  | None => negb (has_byte 125 c)
  | Some _ =>
      match split_braces c with
      | Some (pre, body, post) =>
          negb (has_byte 125 pre) && negb (has_byte 123 body) && negb (has_byte 123 post)
          && negb (has_byte 125 post) && negb (fhas_suffix body [44])
      | None => false
      end
  end.
Definition valid_counter (c : bytes) : bool := is_empty c || (valid_value c && braces_ok c).

Definition in_int64 (z : Z) : bool := ((- 9223372036854775808 <=? z) && (z <=? 9223372036854775807))%Z.

Definition nonempty_record (r : chart) : bool :=
  negb (is_empty (c_title r)) || negb (is_empty (c_description r)) || negb (match c_issue r with [] => true | _ => false end)
  || negb (is_empty (c_type r)) || negb (is_empty (c_program r)) || negb (is_empty (c_module r))
  || negb (is_empty (c_counter r)) || negb (c_depth r =? 0)%Z || negb (c_error r =? 0)
  || negb (is_empty (c_version r)).

Section Valid.
  Variable parse_float : bytes -> option N.
  Variable render_float : N -> bytes.

  (* the float value survives FormatFloat/ParseFloat and its text is a plain value *)
  Definition float_ok (f : N) : bool :=
    (f =? 0) || (plain_value (render_float f) &&
                 match parse_float (render_float f) with Some g => g =? f | None => false end).

  Definition valid_record (r : chart) : bool :=
    opt_plain (c_title r) && opt_plain (c_description r) && forallb plain_value (c_issue r)
    && opt_plain (c_type r) && opt_plain (c_program r) && opt_plain (c_module r)
    && valid_counter (c_counter r) && in_int64 (c_depth r) && float_ok (c_error r)
    && opt_plain (c_version r) && nonempty_record r.
End Valid.

(* filler line: blanks then optionally a comment; no newline *)
Fixpoint filler_ok (l : bytes) : bool :=
  match l with
  | [] => true
  | c :: l' => if c =? 35 then negb (has_byte 10 l')
               else if blank c then filler_ok l' else false
  end.
Definition cmt_ok (c : bytes) : bool :=
  match c with [] => true | x :: t => (x =? 35) && negb (has_byte 10 t) end.
Definition fstyle_ok (fs : fstyle) : bool :=
  all_blank (fs_ws1 fs) && all_blank (fs_ws2 fs) && cmt_ok (fs_cmt fs).

(* multi-line layout of pre{b1,...,bn}post: buckets are written one per line
   and the parser trims each line, so the buckets must be trimmed, and no
   bucket line may read "---" *)
Definition multi_ok (c : bytes) (sty : rstyle) : bool :=
  if rs_multi sty then
    match split_braces c with
    | Some (_, body, _) =>
        forallb trimmed (split_byte body 44)
        && forallb (fun l => negb (beq l sep_line)) (body_lines (rs_indent sty) (split_byte body 44))
    | None => true
    end
  else true.

Definition style_ok (r : chart) (sty : rstyle) : bool :=
  forallb filler_ok (rs_pre sty) && forallb filler_ok (rs_post sty)
  && forallb (fun k => fstyle_ok (rs_f sty k)) all_keys
  && all_blank (rs_indent sty) && multi_ok (c_counter r) sty.

(* executable oracle on an observed parser result *)
Fixpoint list_eqb {A} (eq : A -> A -> bool) (a b : list A) : bool :=
  match a, b with
  | [], [] => true
  | x :: a', y :: b' => eq x y && list_eqb eq a' b'
  | _, _ => false
  end.
Definition chart_eqb (a b : chart) : bool :=
  beq (c_title a) (c_title b) && beq (c_description a) (c_description b)
  && list_eqb beq (c_issue a) (c_issue b) && beq (c_type a) (c_type b)
  && beq (c_program a) (c_program b) && beq (c_module a) (c_module b)
  && beq (c_counter a) (c_counter b) && (c_depth a =? c_depth b)%Z
  && (c_error a =? c_error b) && beq (c_version a) (c_version b).
Definition roundtrip_ok (rs : list chart) (res : presult) : bool :=
  match res with POk got => list_eqb chart_eqb rs got | PErr _ _ => false end.
