(* Model/CounterMulti: N counters of ONE file object (internal/counter:
   Counter.Add incl. file.register and the registrar's invalidate+refresh of
   fix f518e0b; rotate1; newCounter1's cleanup; file.invalidateCounters, which
   visits EVERY registered counter: all invalidates, then all refreshes), one
   atomic operation of the real code per step.

   The per-counter work of a multi thread IS Model/CounterConc: a multi thread
   carries, for every counter j, the CounterConc threads it is in j's eyes
   (`m_main`: its own program - an adder on its counter, a changer for a
   rotation; `m_nest`: a `changer SameFile`, the extension of the file by this
   thread's own lookup of ANOTHER counter; `m_redo`: the registrar's
   invalidate+refresh), and a step that works on counter c is
   `step_thread (mkN 0 0) (proj c ms) u` written back with `inj`.  What the
   multi level adds is the control in between: the registration list, the walk
   over the list snapshot, the nested walk of an inline extension.

   Two flags mark leaving the modelled envelope: `ms_bad` (a second extension
   by the same thread; an extension by an Add on a counter that is not on the
   list yet) and `ms_chk` (a run-time self check of the multi-level control:
   the embedded threads are where the control expects them).

   Executable definitions only. *)
From Coq Require Import List ZArith NArith Bool Arith.
From Tele Require Import Gen.Consts Model.CounterConc.
Import ListNotations.
Open Scope Z_scope.

Definition np0 : nops := mkN 0 0.

(* ---- shared state ---- *)
Record ctr := mkC {
  c_word : Z; c_ptr : option nat; c_cells : list Z; c_faults : Z; c_sat : bool; c_new : option nat
}.
Definition ctr0 : ctr := mkC 0 None [] 0 false None.

Record mshared := mkMS {
  ms_ctrs : list ctr;
  ms_cur : option nat; ms_maps : list nat; ms_closed : list nat;
  ms_full : bool; ms_tight : bool;
  ms_nf : nat;                 (* number of files *)
  ms_list : list nat;          (* the registration list, head first *)
  ms_claimed : list bool;      (* c.next != nil, per counter *)
  ms_bad : bool; ms_chk : bool
}.

Definition getc (ms : mshared) (k : nat) : ctr := nth k (ms_ctrs ms) ctr0.

(* counter k's view: a CounterConc shared state *)
Definition proj (k : nat) (ms : mshared) : shared :=
  let c := getc ms k in
  mkS (c_word c) (c_ptr c) (ms_cur ms) (ms_maps ms) (ms_closed ms) (c_cells c) (c_faults c) (c_sat c)
      (ms_full ms) (c_new c) (ms_tight ms).

Definition inj (k : nat) (ms : mshared) (s : shared) : mshared :=
  mkMS (upd (ms_ctrs ms) k (mkC (s_word s) (s_ptr s) (s_cells s) (s_faults s) (s_sat s) (s_new s)))
       (s_cur s) (s_maps s) (s_closed s) (s_full s) (s_tight s)
       (ms_nf ms) (ms_list ms) (ms_claimed ms) (ms_bad ms) (ms_chk ms).

Definition set_bad (ms : mshared) (b : bool) : mshared :=
  mkMS (ms_ctrs ms) (ms_cur ms) (ms_maps ms) (ms_closed ms) (ms_full ms) (ms_tight ms) (ms_nf ms)
       (ms_list ms) (ms_claimed ms) (ms_bad ms || b) (ms_chk ms).
Definition set_chk (ms : mshared) (b : bool) : mshared :=
  mkMS (ms_ctrs ms) (ms_cur ms) (ms_maps ms) (ms_closed ms) (ms_full ms) (ms_tight ms) (ms_nf ms)
       (ms_list ms) (ms_claimed ms) (ms_bad ms) (ms_chk ms || b).
Definition set_list (ms : mshared) (l : list nat) : mshared :=
  mkMS (ms_ctrs ms) (ms_cur ms) (ms_maps ms) (ms_closed ms) (ms_full ms) (ms_tight ms) (ms_nf ms)
       l (ms_claimed ms) (ms_bad ms) (ms_chk ms).
Definition set_claimed (ms : mshared) (k : nat) : mshared :=
  mkMS (ms_ctrs ms) (ms_cur ms) (ms_maps ms) (ms_closed ms) (ms_full ms) (ms_tight ms) (ms_nf ms)
       (ms_list ms) (upd (ms_claimed ms) k true) (ms_bad ms) (ms_chk ms).
Definition add_closed (ms : mshared) (g : nat) : mshared :=
  mkMS (ms_ctrs ms) (ms_cur ms) (ms_maps ms) (g :: ms_closed ms) (ms_full ms) (ms_tight ms) (ms_nf ms)
       (ms_list ms) (ms_claimed ms) (ms_bad ms) (ms_chk ms).
(* rotate1 / first open: a mapping of a new file; every counter gets a zero cell *)
Definition store_new (ms : mshared) (full : bool) : mshared :=
  mkMS (map (fun c => mkC (c_word c) (c_ptr c) (c_cells c ++ [0]) (c_faults c) (c_sat c) (c_new c)) (ms_ctrs ms))
       (Some (length (ms_maps ms))) (ms_maps ms ++ [ms_nf ms]) (ms_closed ms) full full (S (ms_nf ms))
       (ms_list ms) (ms_claimed ms) (ms_bad ms) (ms_chk ms).

Definition claimed (ms : mshared) (k : nat) : bool := nth k (ms_claimed ms) false.
Fixpoint memn (x : nat) (l : list nat) : bool :=
  match l with [] => false | y :: l' => Nat.eqb x y || memn x l' end.
Definition onat_eqb (a b : option nat) : bool :=
  match a, b with None, None => true | Some x, Some y => Nat.eqb x y | _, _ => false end.

(* ---- threads ---- *)
Inductive role := RMain | RNest | RRedo.
Inductive wphase := PInv | PRef.
Inductive mpc :=
  | MIdle
  | MRTest | MRHead | MRNext | MRLink | MRDbgNext | MRDbgFail | MRDbgOk   (* file.register, as Model/Register *)
  | MRun                        (* the embedded thread (m_role, m_c) performs its next operation *)
  | MStore | MReload            (* rotate1: lock + critical section; the deferred f.current.Load() *)
  | MHead | MNext | MClose      (* invalidateCounters: f.counters.Load(); c.next.Load(); the close after it *)
  | MDone.

Record walk := mkW {
  w_rest : list nat;            (* counters still to visit in this loop *)
  w_snap : list nat;            (* the list as loaded from the head *)
  w_ph : wphase;
  w_own : option (role * nat)   (* nested walk: the embedded thread whose lookup extended the file (it holds that counter's lock) *)
}.

Record mthread := mkM {
  m_pc : mpc;
  m_isadd : bool; m_k : nat; m_tgt : target;
  m_main : list thread; m_nest : list thread; m_redo : thread;
  m_wrote : bool; m_head : option nat;
  m_role : role; m_c : nat;
  m_walks : list walk;
  m_grown : bool;
  m_prev : option nat
}.

Definition dflt : thread := mkT Done Changer 0 0 0 None None NoFile Done.
Definition nest0 : thread := mkT CStore Changer 0 0 0 None (Some 0%nat) SameFile Done.
Definition redo0 : thread := mkT CIdle Changer 0 0 0 None None NoFile Done.

Definition adderM (nc k : nat) (n : Z) : mthread :=
  mkM MIdle true k NoFile (upd (repeat dflt nc) k (adder n)) (repeat nest0 nc) redo0 false None RMain k [] false None.
Definition changerM (nc : nat) (tg : target) : mthread :=
  mkM MIdle false 0 tg (repeat (changer tg) nc) (repeat nest0 nc) dflt false None RMain 0 [] false None.

Definition gett (t : mthread) (r : role) (c : nat) : thread :=
  match r with
  | RMain => nth c (m_main t) dflt
  | RNest => nth c (m_nest t) dflt
  | RRedo => m_redo t
  end.

Definition with_mpc (t : mthread) (p : mpc) : mthread :=
  mkM p (m_isadd t) (m_k t) (m_tgt t) (m_main t) (m_nest t) (m_redo t) (m_wrote t) (m_head t) (m_role t) (m_c t) (m_walks t) (m_grown t) (m_prev t).
Definition with_focus (t : mthread) (p : mpc) (r : role) (c : nat) : mthread :=
  mkM p (m_isadd t) (m_k t) (m_tgt t) (m_main t) (m_nest t) (m_redo t) (m_wrote t) (m_head t) r c (m_walks t) (m_grown t) (m_prev t).
Definition with_walks (t : mthread) (p : mpc) (ws : list walk) : mthread :=
  mkM p (m_isadd t) (m_k t) (m_tgt t) (m_main t) (m_nest t) (m_redo t) (m_wrote t) (m_head t) (m_role t) (m_c t) ws (m_grown t) (m_prev t).
Definition with_main (t : mthread) (l : list thread) : mthread :=
  mkM (m_pc t) (m_isadd t) (m_k t) (m_tgt t) l (m_nest t) (m_redo t) (m_wrote t) (m_head t) (m_role t) (m_c t) (m_walks t) (m_grown t) (m_prev t).
Definition with_nest (t : mthread) (l : list thread) : mthread :=
  mkM (m_pc t) (m_isadd t) (m_k t) (m_tgt t) (m_main t) l (m_redo t) (m_wrote t) (m_head t) (m_role t) (m_c t) (m_walks t) (m_grown t) (m_prev t).
Definition with_redo (t : mthread) (u : thread) : mthread :=
  mkM (m_pc t) (m_isadd t) (m_k t) (m_tgt t) (m_main t) (m_nest t) u (m_wrote t) (m_head t) (m_role t) (m_c t) (m_walks t) (m_grown t) (m_prev t).
Definition with_reg (t : mthread) (p : mpc) (wr : bool) (h : option nat) : mthread :=
  mkM p (m_isadd t) (m_k t) (m_tgt t) (m_main t) (m_nest t) (m_redo t) wr h (m_role t) (m_c t) (m_walks t) (m_grown t) (m_prev t).
Definition with_grown (t : mthread) : mthread :=
  mkM (m_pc t) (m_isadd t) (m_k t) (m_tgt t) (m_main t) (m_nest t) (m_redo t) (m_wrote t) (m_head t) (m_role t) (m_c t) (m_walks t) true (m_prev t).
Definition with_prev (t : mthread) (g : option nat) : mthread :=
  mkM (m_pc t) (m_isadd t) (m_k t) (m_tgt t) (m_main t) (m_nest t) (m_redo t) (m_wrote t) (m_head t) (m_role t) (m_c t) (m_walks t) (m_grown t) g.

Definition sett (t : mthread) (r : role) (c : nat) (u : thread) : mthread :=
  match r with
  | RMain => with_main t (upd (m_main t) c u)
  | RNest => with_nest t (upd (m_nest t) c u)
  | RRedo => with_redo t u
  end.

Fixpoint mapi_from {A B} (f : nat -> A -> B) (i : nat) (l : list A) : list B :=
  match l with [] => [] | x :: l' => f i x :: mapi_from f (S i) l' end.
Definition mapi {A B} (f : nat -> A -> B) (l : list A) : list B := mapi_from f 0 l.
Fixpoint alli_from {A} (f : nat -> A -> bool) (i : nat) (l : list A) : bool :=
  match l with [] => true | x :: l' => f i x && alli_from f (S i) l' end.
Definition alli {A} (f : nat -> A -> bool) (l : list A) : bool := alli_from f 0 l.

Definition pc_is (p q : pc) : bool :=
  match p, q with
  | AIdle, AIdle | CIdle, CIdle | CStore, CStore | IvLoad, IvLoad | RfLoad, RfLoad | CClose, CClose
  | GIvLoad, GIvLoad | GRfLoad, GRfLoad | GClose, GClose | LLook2, LLook2 | Done, Done | Crash, Crash => true
  | _, _ => false
  end.

(* the thread of counter j steps on j's own view (thread part only) *)
Definition thr_step (ms : mshared) (j : nat) (u : thread) : thread := snd (step_thread np0 (proj j ms) u).

(* a changer at IvLoad drops its invalidate+refresh of a counter that is not on
   the list it loaded (the registrar of that counter redoes them, f518e0b) *)
Definition skip_thread (u : thread) : thread := to_close u.

(* ---- walk control ---- *)
Definition is_own (w : walk) (c : nat) : bool :=
  match w_own w with Some (_, c') => Nat.eqb c c' | None => false end.
Definition visit_role (w : walk) (c : nat) : role :=
  match w_own w with
  | Some (r, c') => if Nat.eqb c c' then r else RNest
  | None => RMain
  end.

(* after the walk: the close, if there is a mapping to close *)
Definition after_walk (t : mthread) (w : walk) (ws : list walk) : mthread :=
  match w_own w with
  | Some _ => with_walks t MClose (w :: ws)
  | None => match m_prev t with
            | Some _ => with_walks t MClose (w :: ws)
            | None => with_walks t MDone ws
            end
  end.

(* go on with the next counter of the walk on top of the stack *)
Definition advance (t : mthread) : mthread :=
  match m_walks t with
  | [] => with_mpc t MDone
  | w :: ws =>
      match w_rest w with
      | c :: rest => with_focus (with_walks t MRun (mkW rest (w_snap w) (w_ph w) (w_own w) :: ws)) MRun (visit_role w c) c
      | [] =>
          match w_ph w with
          | PInv =>
              match w_snap w with
              | c :: rest => with_focus (with_walks t MRun (mkW rest (w_snap w) PRef (w_own w) :: ws)) MRun (visit_role w c) c
              | [] => after_walk t w ws
              end
          | PRef => after_walk t w ws
          end
      end
  end.

(* has the visit of the embedded thread u (after its step) ended? *)
Definition visit_ended (w : walk) (c : nat) (u : thread) : bool :=
  if is_own w c then
    match w_ph w with PInv => pc_is (t_pc u) GRfLoad | PRef => pc_is (t_pc u) GClose end
  else
    match w_ph w with PInv => pc_is (t_pc u) RfLoad | PRef => pc_is (t_pc u) CClose || pc_is (t_pc u) Done end.

Definition tgt_same (g : target) : bool := match g with SameFile => true | _ => false end.
Definition tgt_eqb (a b : target) : bool :=
  match a, b with
  | NewFile, NewFile | SameFile, SameFile | NoFile, NoFile | FullFile, FullFile => true
  | _, _ => false
  end.
Definition is_some {A} (o : option A) : bool := match o with Some _ => true | None => false end.

(* one step of multi thread t *)
Definition mstep_core (ms : mshared) (t : mthread) : mshared * mthread :=
  let k := m_k t in
  match m_pc t with
  | MIdle =>
      if m_isadd t then
        (* Add called: parked before register's c.next.Load() *)
        let u := gett t RMain k in
        (set_chk ms (negb (pc_is (t_pc u) AIdle)), with_mpc (sett t RMain k (thr_step ms k u)) MRTest)
      else
        (set_chk ms (negb (forallb (fun u => pc_is (t_pc u) CIdle) (m_main t))),
         with_mpc (with_main t (mapi (fun j u => thr_step ms j u) (m_main t))) MStore)
  | MRTest =>
      if claimed ms k then (ms, with_focus t MRun RMain k) else (ms, with_mpc t MRHead)
  | MRHead => (ms, with_reg t MRNext (m_wrote t) (hd_error (ms_list ms)))
  | MRNext =>
      if m_wrote t then (ms, with_mpc t MRLink)
      else if claimed ms k then (ms, with_mpc t MRDbgNext)
      else
        (* c.next claimed: this thread will link c and then redo invalidate+refresh *)
        (set_chk (set_claimed ms k) (negb (pc_is (t_pc (m_redo t)) CIdle && m_isadd t)),
         with_reg (with_redo t (with_pc (m_redo t) IvLoad)) MRLink true (m_head t))
  | MRLink =>
      if onat_eqb (hd_error (ms_list ms)) (m_head t)
      then (set_list ms (k :: ms_list ms), with_mpc t MRDbgOk)
      else (ms, with_mpc t MRDbgFail)
  | MRDbgNext => (ms, with_mpc t MRTest)
  | MRDbgFail => (ms, with_mpc t MRHead)
  | MRDbgOk => (ms, with_focus t MRun RRedo k)
  | MStore =>
      let full := match m_tgt t with FullFile => true | _ => false end in
      let ok := forallb (fun u => pc_is (t_pc u) CStore && tgt_eqb (t_tgt u) (m_tgt t)) (m_main t)
                && match m_tgt t with NewFile | FullFile => true | _ => false end
                && forallb (fun c => Nat.eqb (length (c_cells c)) (ms_nf ms)) (ms_ctrs ms)
                && Nat.eqb (length (m_main t)) (length (ms_ctrs ms)) in
      (set_chk (store_new ms full) (negb ok),
       with_prev (with_mpc (with_main t (mapi (fun j u => thr_step ms j u) (m_main t))) MReload) (ms_cur ms))
  | MReload => (ms, with_walks t MHead (mkW [] [] PInv None :: m_walks t))
  | MHead =>
      match m_walks t with
      | [] => (set_chk ms true, with_mpc t MDone)
      | w :: ws =>
          let snap := ms_list ms in
          let skipf (own : bool) (j : nat) (u : thread) : thread :=
            if memn j snap || own && is_own w j then u else skip_thread u in
          let chkf (own : bool) (j : nat) (u : thread) : bool :=
            memn j snap || own && is_own w j || pc_is (t_pc u) IvLoad in
          let t1 :=
            match w_own w with
            | None => with_main t (mapi (skipf false) (m_main t))
            | Some _ => with_nest t (mapi (skipf true) (m_nest t))
            end in
          let ok :=
            match w_own w with
            | None => alli (chkf false) (m_main t)
            | Some _ => alli (chkf true) (m_nest t)
            end in
          let unl := match w_own w with Some (_, c) => negb (memn c snap) | None => false end in
          (* the own counter is not on the list (an Add on a counter another goroutine
             is still registering extended the file): nobody invalidates it; outside
             the envelope of the theorems, followed here for the lock-step only *)
          let t2 := match w_own w with
                    | Some (r, c) => if unl then sett t1 r c (with_pc (gett t1 r c) GClose) else t1
                    | None => t1
                    end in
          (set_bad (set_chk ms (negb ok)) unl,
           advance (with_walks t2 MHead (mkW snap snap PInv (w_own w) :: ws)))
      end
  | MNext => (ms, advance t)
  | MClose =>
      match m_walks t with
      | [] => (set_chk ms true, with_mpc t MDone)
      | w :: ws =>
          match w_own w with
          | None =>
              match m_prev t with
              | Some g =>
                  let ok := forallb (fun u => pc_is (t_pc u) CClose && onat_eqb (t_prev u) (Some g)) (m_main t) in
                  (set_chk (add_closed ms g) (negb ok),
                   with_walks (with_main t (mapi (fun j u => thr_step ms j u) (m_main t))) MDone ws)
              | None => (set_chk ms true, with_mpc t MDone)
              end
          | Some (r, c) =>
              (* the close of the mapping this thread's lookup replaced: GClose of the
                 embedded thread, CClose of the SameFile changers the other counters see *)
              let u := gett t r c in
              let '(s', u') := step_thread np0 (proj c ms) u in
              let ok := pc_is (t_pc u) GClose && is_some (t_prev2 u)
                        && alli (fun j v => Nat.eqb j c || pc_is (t_pc v) CClose && onat_eqb (t_prev v) (t_prev2 u)) (m_nest t) in
              let t1 := with_nest t (mapi (fun j v => if Nat.eqb j c then v else thr_step ms j v) (m_nest t)) in
              (set_chk (inj c ms s') (negb ok), with_focus (with_walks (sett t1 r c u') MRun ws) MRun r c)
          end
      end
  | MRun =>
      let r := m_role t in let c := m_c t in
      let u := gett t r c in
      let '(s', u') := step_thread np0 (proj c ms) u in
      let grows := pc_is (t_pc u) LLook2 && pc_is (t_pc u') GIvLoad in
      if grows && m_grown t then
        (* a second extension by the same thread: outside the model *)
        (set_bad ms true, with_mpc t MDone)
      else if grows then
        let ok := ms_tight ms && alli (fun j v => Nat.eqb j c || pc_is (t_pc v) CStore && tgt_same (t_tgt v)) (m_nest t) in
        let t1 := with_nest t (mapi (fun j v => if Nat.eqb j c then v else thr_step ms j v) (m_nest t)) in
        (set_chk (inj c ms s') (negb ok),
         with_walks (with_grown (sett t1 r c u')) MHead (mkW [] [] PInv (Some (r, c)) :: m_walks t))
      else
        let bad_pc := pc_is (t_pc u) CStore || pc_is (t_pc u) CClose || pc_is (t_pc u) GClose in
        let ms1 := set_chk (inj c ms s') bad_pc in
        let t1 := sett t r c u' in
        match m_walks t with
        | w :: _ => if visit_ended w c u' then (ms1, with_mpc t1 MNext) else (ms1, t1)
        | [] =>
            if pc_is (t_pc u') Done then
              match r with
              | RRedo => (ms1, with_focus t1 MRun RMain k)
              | _ => (ms1, with_mpc t1 MDone)
              end
            else (ms1, t1)
        end
  | MDone => (ms, t)
  end.

(* structural self checks: the embedded thread lists have one entry per counter,
   the focus is a counter of this file (the redo thread only on the thread's own
   counter), and a thread that has returned has no embedded thread in flight *)
Definition quietb (u : thread) : bool :=
  match t_pc u with Done | CIdle | CPre | CStore => true | _ => false end.
Definition lens_ok (ms : mshared) (t : mthread) : bool :=
  Nat.eqb (length (m_main t)) (length (ms_ctrs ms)) && Nat.eqb (length (m_nest t)) (length (ms_ctrs ms)).
Definition rc_ok (ms : mshared) (t : mthread) (r : role) (c : nat) : bool :=
  Nat.ltb c (length (ms_ctrs ms)) && claimed ms c && match r with RRedo => m_isadd t && Nat.eqb c (m_k t) | _ => true end.
Definition focus_ok (ms : mshared) (t : mthread) : bool :=
  match m_pc t with
  | MRun => rc_ok ms t (m_role t) (m_c t)
  | MClose =>
      match m_walks t with
      | w :: _ => match w_own w with Some (r, c) => rc_ok ms t r c | None => true end
      | [] => true
      end
  | _ => true
  end.
Definition done_ok (t : mthread) : bool :=
  match m_pc t with
  | MDone => forallb quietb (m_main t) && forallb quietb (m_nest t) && quietb (m_redo t)
  | _ => true
  end.

Definition mstep_thread (ms : mshared) (t : mthread) : mshared * mthread :=
  let r := mstep_core ms t in
  (set_chk (fst r) (negb (lens_ok ms t && focus_ok ms t && done_ok (snd r))), snd r).

Definition mstate := (mshared * list mthread)%type.

Definition mstep (st : mstate) (i : nat) : mstate :=
  let '(ms, ts) := st in
  match nth_error ts i with
  | Some t => let '(ms', t') := mstep_thread ms t in (ms', upd ts i t')
  | None => st
  end.

Definition mrun (sched : list nat) (st : mstate) : mstate := fold_left mstep sched st.

(* counter k's view of the threads: three CounterConc threads per multi thread *)
Definition tproj (k : nat) (t : mthread) : list thread :=
  [nth k (m_main t) dflt; nth k (m_nest t) dflt; if m_isadd t && Nat.eqb k (m_k t) then m_redo t else dflt].
Definition tsproj (k : nat) (ts : list mthread) : list thread := flat_map (tproj k) ts.
Definition sproj (k : nat) (st : mstate) : state := (proj k (fst st), tsproj k (snd st)).

Definition m_done (t : mthread) : bool := match m_pc t with MDone => true | _ => false end.
Definition m_all_done (ts : list mthread) : bool := forallb m_done ts.

(* ---- observation compared with the instrumented implementation ---- *)
(* per counter: word, pointer code, persisted value; current mapping code; number of closed mappings *)
Definition mobs_ctr (c : ctr) : Z * Z * Z := (c_word c, code (c_ptr c), fold_right Z.add 0 (c_cells c)).
Definition mobs (ms : mshared) : list (Z * Z * Z) * Z * Z :=
  (map mobs_ctr (ms_ctrs ms), code (ms_cur ms), Z.of_nat (length (ms_closed ms))).
Definition mflags (ms : mshared) : bool * bool := (ms_bad ms, ms_chk ms).

(* initial state of the lock-step: per counter (word, listed?); file not open *)
Definition minit (words : list Z) (listed : list nat) : mshared :=
  mkMS (map (fun w => mkC w None [] 0 false None) words) None [] [] false false 0
       listed (mapi (fun j _ => memn j listed) words) false false.

(* The registration window (a fixed scenario, run by the harness on the real
   code and by Props/C03 inside Coq): file open; goroutine 0 claims a fresh
   counter and stops before the link; goroutine 1's Add finds it claimed and
   gets a pointer into mapping 0; a rotation (goroutine 2) stores mapping 1,
   its walk misses the counter, it closes mapping 0; goroutine 3's Add(4)
   goes through the closed mapping; then goroutine 0 links and redoes. *)
Definition regwin_init : mstate :=
  (mkMS [mkC 0 None [0] 0 false None] (Some 0%nat) [0%nat] [] false false 1 [] [false] false false,
   [adderM 1 0 1; adderM 1 0 2; changerM 1 NewFile; adderM 1 0 4]).
Definition regwin_sched : list nat := ([0;0;0;0] ++ repeat 1 20 ++ repeat 2 30 ++ repeat 3 20 ++ repeat 0 40)%nat.
Definition regwin_faults : Z :=
  fold_right Z.add 0 (map c_faults (ms_ctrs (fst (mrun regwin_sched regwin_init)))).
