(* Model/WorkerStore: the worker's three buckets as state, and SEQUENCES of
   operations on them (C13, round 2): uploads stored / withdrawn / re-stored
   under the same name, /merge/ of a day (again and again: the worker
   re-merges each of the previous 7 days daily), /chart/ of a range.
   storage.ObjectHandle.NewWriter + Write + Close REPLACES the object: what
   the object held before (longer or shorter) is gone ([b_put]).
   FSBucket.Objects lists the names with the prefix in the order of
   fs.WalkDir; that order is a parameter [ord] (any permutation).
   Generic in the decoded value R ([proj] gives the fields charts read). *)
From Coq Require Import List NArith ZArith Bool.
From Tele Require Import Lib.Bytes Lib.Calendar Lib.Sort Gen.Consts Model.Worker.
Import ListNotations.

Definition bucket (V : Type) := list (bytes * V).      (* object name -> content, one entry per name *)

Fixpoint b_put {V} (name : bytes) (v : V) (b : bucket V) : bucket V :=
  match b with
  | [] => [(name, v)]
  | (n, v0) :: b' => if beq name n then (n, v) :: b' else (n, v0) :: b_put name v b'
  end.

Definition b_del {V} (name : bytes) (b : bucket V) : bucket V :=
  filter (fun nv => negb (beq name (fst nv))) b.

Fixpoint b_get {V} (b : bucket V) (name : bytes) : option V :=
  match b with
  | [] => None
  | (n, v) :: b' => if beq name n then Some v else b_get b' name
  end.

(* What fs.WalkDir meets in the upload bucket, in walk order: a stored object,
   or a directory that cannot be listed (EACCES on a stray .snapshot/.Trash, a
   name os.DirFS refuses, a directory removed meanwhile).  For the latter
   WalkDir calls the callback with the error; FSBucket.Objects' callback
   answers nil for a directory, so the walk GOES ON. *)
Inductive uentry := UFile (name data : bytes) | UBadDir (name : bytes).

Fixpoint walk (es : list uentry) (prefix : bytes) : bucket bytes :=
  match es with
  | [] => []
  | UFile n d :: r => if has_prefix n prefix then (n, d) :: walk r prefix else walk r prefix
  | UBadDir _ :: r => walk r prefix
  end.

(* where the unlistable directories fall among the objects: any interleaving
   (pos: true = the next entry met is the next stray directory) *)
Fixpoint weave (pos : list bool) (fs bs : list uentry) : list uentry :=
  match pos with
  | [] => fs ++ bs
  | true :: p => match bs with b :: bs' => b :: weave p fs bs' | [] => weave p fs [] end
  | false :: p => match fs with f :: fs' => f :: weave p fs' bs | [] => weave p [] bs end
  end.

Record wstate := mkWS {
  ws_upload : bucket bytes;        (* stored reports: <date>/<X>.json -> body *)
  ws_stray : list bytes;           (* unlistable directories lying in the upload bucket *)
  ws_merged : bucket bytes;        (* <date>.json -> one line per report *)
  ws_chart : bucket chartdata      (* <date>.json / <start>_<end>.json -> chart object *)
}.

Inductive wop :=
| OpPut (name data : bytes)        (* the upload server stores (or re-stores) a report *)
| OpDel (name : bytes)             (* a stored report is withdrawn *)
| OpStray (name : bytes)           (* an unlistable directory appears in the upload bucket *)
| OpRelocate (which : N)           (* a bucket directory is moved away and replaced by a symbolic link to it *)
| OpMerge (date : bytes)           (* /merge/?date= *)
| OpChart (start end_ : Z)         (* /chart/?start=&end= *)
| OpChartFault (start end_ fd : Z) (k : nat).   (* the same, the reader of day fd's merged object failing after k records *)

Inductive wresp :=
| RespNone
| RespMerge (count : nat) (ok : bool)
| RespChart (r : chart_result).

Section Store.
  Variable R : Type.
  Variable enc : R -> bytes.
  Variable dec : bytes -> option R.
  Variable proj : R -> report.
  Variable ord : bucket bytes -> bucket bytes.       (* listing order of Objects(prefix) *)
  Variable pos : list bool.                          (* where the stray directories fall in the walk *)
  Variable it : iter.
  Variables lts ltg : bytes -> bytes -> bool.
  Variable cfg : config.

  (* s.Upload.Objects(ctx, date): the stored objects whose name starts with date *)
  Definition day_entries (st : wstate) : list uentry :=
    weave pos (map (fun nv => UFile (fst nv) (snd nv)) (ord (ws_upload st))) (map UBadDir (ws_stray st)).

  Definition day_objects (st : wstate) (date : bytes) : list bytes :=
    map snd (walk (day_entries st) date).

  Definition do_merge (st : wstate) (date : bytes) : wstate * wresp :=
    let '(file, count, ok) := merge R enc dec (day_objects st date) in
    (mkWS (ws_upload st) (ws_stray st) (b_put (date ++ json_ext) file (ws_merged st)) (ws_chart st), RespMerge count ok).

  Definition read_state_day (st : wstate) (day : Z) : read_result :=
    match b_get (ws_merged st) (fmt_date day ++ json_ext) with
    | None => RNotFound
    | Some file => match read_merged R dec file with None => RErr | Some rs => ROk (map proj rs) end
    end.

  Definition do_chart (st : wstate) (start end_ : Z) : wstate * wresp :=
    let r := handle_chart it lts ltg cfg (read_state_day st) start end_ in
    match r with
    | ChartOk name cd => (mkWS (ws_upload st) (ws_stray st) (ws_merged st) (b_put name cd (ws_chart st)), RespChart r)
    | _ => (st, RespChart r)
    end.

  Definition do_chart_fault (st : wstate) (start end_ fd : Z) (k : nat) : wstate * wresp :=
    let r := handle_chart_fault it lts ltg (Some (fd, k)) cfg (read_state_day st) start end_ in
    match r with
    | ChartOk name cd => (mkWS (ws_upload st) (ws_stray st) (ws_merged st) (b_put name cd (ws_chart st)), RespChart r)
    | _ => (st, RespChart r)
    end.

  Definition step (st : wstate) (o : wop) : wstate * wresp :=
    match o with
    | OpPut name data => (mkWS (b_put name data (ws_upload st)) (ws_stray st) (ws_merged st) (ws_chart st), RespNone)
    | OpDel name => (mkWS (b_del name (ws_upload st)) (ws_stray st) (ws_merged st) (ws_chart st), RespNone)
    | OpStray name => (mkWS (ws_upload st) (name :: ws_stray st) (ws_merged st) (ws_chart st), RespNone)
    | OpRelocate _ => (st, RespNone)    (* object names resolve through the link: writing, reading AND listing *)
    | OpMerge date => do_merge st date
    | OpChart s e => do_chart st s e
    | OpChartFault s e fd k => do_chart_fault st s e fd k
    end.

  Fixpoint run_ops (st : wstate) (ops : list wop) : wstate * list wresp :=
    match ops with
    | [] => (st, [])
    | o :: ops' =>
        let '(st1, r) := step st o in
        let '(st2, rs) := run_ops st1 ops' in (st2, r :: rs)
    end.
End Store.

Definition ws_empty : wstate := mkWS [] [] [] [].

(* handleCopy: for every day of the range, every object of the source bucket
   whose name starts with the day is written to the destination (concurrently
   in the code; each name is written with its source content) *)
Definition range_days (start end_ : Z) : list Z :=
  map (fun i => (start + Z.of_nat i)%Z) (seq 0 (Z.to_nat (end_ - start + 1))).

Definition copy_day (ord : bucket bytes -> bucket bytes) (src dst : bucket bytes) (day : Z) : bucket bytes :=
  fold_left (fun d nv => b_put (fst nv) (snd nv) d)
            (ord (filter (fun nv : bytes * bytes => has_prefix (fst nv) (fmt_date day)) src)) dst.

Definition copy_range (ord : bucket bytes -> bucket bytes) (src dst : bucket bytes) (start end_ : Z) : bucket bytes :=
  fold_left (copy_day ord src) (range_days start end_) dst.
