(* Model/Config: internal/config/config.go (NewConfig, Expand, Has*, Rate) over
   internal/telemetry/types.go's UploadConfig.

   Rates, SampleRate and X are float64 values >= 0 in the Go code.  They are
   represented by their IEEE-754 bit patterns (math.Float64bits) as N: for
   non-negative floats (no NaN) the bit patterns are ordered exactly like the
   values, so Go's `X <= rate` is N.leb on the patterns; the Go zero value 0.0
   (missing map key) is pattern 0.  Executable definitions only. *)
From Coq Require Import List NArith Bool.
From Tele Require Import Lib.Bytes Lib.Str.
Import ListNotations.
Open Scope N_scope.

Record counter_cfg := mkCC { cc_name : bytes; cc_rate : N }.
Record program_cfg := mkPC {
  pc_name : bytes; pc_versions : list bytes;
  pc_counters : list counter_cfg; pc_stacks : list counter_cfg }.
Record upload_cfg := mkUC {
  uc_goos : list bytes; uc_goarch : list bytes; uc_goversion : list bytes;
  uc_sample : N; uc_programs : list program_cfg }.

Definition ch_lbrace : N := 123.
Definition ch_rbrace : N := 125.
Definition ch_comma : N := 44.
Definition ch_colon : N := 58.
Definition ch_newline : N := 10.

(* Expand: strings.Cut(counter, "{"); with buckets:
   strings.Split(strings.TrimSuffix(rest, "}"), ",") each prefixed *)
Definition expand (name : bytes) : list bytes :=
  let '(prefix, rest, has_buckets) := cut_byte name ch_lbrace in
  if has_buckets
  then map (fun b => prefix ++ b) (split_byte (trim_suffix rest [ch_rbrace]) ch_comma)
  else [prefix].

(* The lookup tables of config.Config.  Go maps used as sets are lists of
   keys; the single `rate` map shared by counters and stacks is the list of
   its writes in program order, read back with "last write wins". *)
Record config := mkCfg {
  t_goos : list bytes; t_goarch : list bytes; t_goversion : list bytes;
  t_program : list bytes;
  t_pgversion : list pgkey; t_pgcounter : list pgkey;
  t_pgcounterprefix : list pgkey; t_pgstack : list pgkey;
  t_rate : list (pgkey * N) }.

Definition counter_keys (p : program_cfg) : list pgkey :=
  flat_map (fun c => map (fun e => (pc_name p, e)) (expand (cc_name c))) (pc_counters p).
Definition counter_prefix_keys (p : program_cfg) : list pgkey :=
  flat_map (fun c => let '(prefix, _, found) := cut_byte (cc_name c) ch_colon in
                     if found then [(pc_name p, prefix)] else []) (pc_counters p).
Definition stack_keys (p : program_cfg) : list pgkey :=
  map (fun s => (pc_name p, cc_name s)) (pc_stacks p).
Definition counter_rate_writes (p : program_cfg) : list (pgkey * N) :=
  flat_map (fun c => map (fun e => ((pc_name p, e), cc_rate c)) (expand (cc_name c))) (pc_counters p).
Definition stack_rate_writes (p : program_cfg) : list (pgkey * N) :=
  map (fun s => ((pc_name p, cc_name s), cc_rate s)) (pc_stacks p).
(* per program: all counter writes, then all stack writes (the two loops of NewConfig) *)
Definition rate_writes (p : program_cfg) : list (pgkey * N) :=
  counter_rate_writes p ++ stack_rate_writes p.

Definition new_config (u : upload_cfg) : config :=
  mkCfg (uc_goos u) (uc_goarch u) (uc_goversion u)
        (map pc_name (uc_programs u))
        (flat_map (fun p => map (fun v => (pc_name p, v)) (pc_versions p)) (uc_programs u))
        (flat_map counter_keys (uc_programs u))
        (flat_map counter_prefix_keys (uc_programs u))
        (flat_map stack_keys (uc_programs u))
        (flat_map rate_writes (uc_programs u)).

Definition has_goos (c : config) (s : bytes) : bool := memb s (t_goos c).
Definition has_goarch (c : config) (s : bytes) : bool := memb s (t_goarch c).
Definition has_goversion (c : config) (s : bytes) : bool := memb s (t_goversion c).
Definition has_program (c : config) (s : bytes) : bool := memb s (t_program c).
Definition has_version (c : config) (prog v : bytes) : bool := memk (prog, v) (t_pgversion c).
Definition has_counter (c : config) (prog k : bytes) : bool := memk (prog, k) (t_pgcounter c).
Definition has_counter_prefix (c : config) (prog k : bytes) : bool := memk (prog, k) (t_pgcounterprefix c).
Definition has_stack (c : config) (prog k : bytes) : bool := memk (prog, k) (t_pgstack c).

(* map read after a sequence of map writes: the last write to the key, else the zero value *)
Definition last_write (key : pgkey) (writes : list (pgkey * N)) : N :=
  fold_left (fun acc w => if key_eqb (fst w) key then snd w else acc) writes 0.
Definition rate (c : config) (prog name : bytes) : N := last_write (prog, name) (t_rate c).
