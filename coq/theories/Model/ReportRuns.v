(* Model/ReportRuns: a SEQUENCE of uploader runs in one process on one
   telemetry directory (property C01, quantifier "histories").

   internal/upload: every Run builds a new uploader (run.go newUploader) whose
   parse cache (date.go parsedCache, keyed by file path) starts empty; within
   the run findWork parses every count file once to read its span and reports
   / createReport read the same files again through the cache.  The model
   makes the cache explicit: `run_with c0` is one run started with cache c0,
   `run_uploader` = `run_with []` is what the code does, `run_spec` is the
   cache-free specification (the expired files of the directory as it is at
   that run).  Executable definitions only. *)
From Coq Require Import List ZArith NArith Bool.
From Tele Require Import Lib.Bytes Lib.Str Lib.Assoc Model.Config Model.ApprovalSpec Model.Report.
Import ListNotations.
Open Scope Z_scope.

(* a count file of the directory: path, TimeEnd (unix seconds), parsed contents *)
Record dfile := mkD { d_name : bytes; d_end : Z; d_file : cfile }.
Definition dir := list dfile.

(* the directory read: the file stored under a path (paths are unique in a directory) *)
Definition dir_read (d : dir) (name : bytes) : option dfile :=
  find (fun e => beq (d_name e) name) d.

(* parseCountFile: cache hit, else read + parse + remember *)
Definition cache := list (bytes * dfile).
Definition read_cached (d : dir) (c : cache) (name : bytes) : option dfile * cache :=
  match aget beq name c with
  | Some e => (Some e, c)
  | None => match dir_read d name with
            | Some e => (Some e, (name, e) :: c)
            | None => (None, c)
            end
  end.

(* findWork: every *.v1.count file is parsed; it is collected unless its
   expiry is after the start time (`expiry.After(u.startTime)`) *)
Fixpoint find_work (d : dir) (t : Z) (names : list bytes) (c : cache) : list bytes * cache :=
  match names with
  | [] => ([], c)
  | n :: ns =>
      let '(o, c1) := read_cached d c n in
      let '(rest, c2) := find_work d t ns c1 in
      (match o with
       | Some e => if t <? d_end e then rest else n :: rest
       | None => rest
       end, c2)
  end.

(* reports: the collected files whose end is before the start time
   (`end.Before(thisInstant)`), read through the cache again *)
Fixpoint expired_files (d : dir) (t : Z) (names : list bytes) (c : cache) : list dfile * cache :=
  match names with
  | [] => ([], c)
  | n :: ns =>
      let '(o, c1) := read_cached d c n in
      let '(rest, c2) := expired_files d t ns c1 in
      (match o with
       | Some e => if d_end e <? t then e :: rest else rest
       | None => rest
       end, c2)
  end.

(* the parameters of one run that are inputs here: the gate (C02), the
   configuration and its version, the week label of the expired files (C09),
   LastWeek (C07), X, the start time *)
Record run_params := mkRun {
  rp_gate : bool; rp_cfg : upload_cfg; rp_cfgver : bytes; rp_week : bytes; rp_lastweek : bytes;
  rp_x : N; rp_start : Z }.

(* one run started with cache c0: the reports written (None: none) and the
   paths of the count files it deletes *)
Definition run_with (c0 : cache) (p : run_params) (d : dir) : option (report * option report) * list bytes :=
  let '(work, c1) := find_work d (rp_start p) (map d_name d) c0 in
  let '(files, _) := expired_files d (rp_start p) work c1 in
  match files with
  | [] => (None, [])
  | _ =>
      match create_report (rp_gate p) (rp_cfg p) (rp_cfgver p) (rp_week p) (rp_lastweek p) (rp_x p)
                          (map d_file files) with
      | Some r => (Some r, map d_name files)
      | None => (None, [])
      end
  end.

(* what the code does: a fresh uploader, hence an empty cache, per Run *)
Definition run_uploader (p : run_params) (d : dir) := run_with [] p d.

(* the specification: the expired files of the directory as it is now *)
Definition expired_now (t : Z) (d : dir) : list dfile := filter (fun e => d_end e <? t) d.
Definition run_spec (p : run_params) (d : dir) : option (report * option report) * list bytes :=
  match expired_now (rp_start p) d with
  | [] => (None, [])
  | files =>
      match create_report (rp_gate p) (rp_cfg p) (rp_cfgver p) (rp_week p) (rp_lastweek p) (rp_x p)
                          (map d_file files) with
      | Some r => (Some r, map d_name files)
      | None => (None, [])
      end
  end.

(* a process: runs on the directory as each run finds it (other programs
   write, extend and create count files between runs) *)
Definition run_history (h : list (run_params * dir)) : list (option (report * option report) * list bytes) :=
  map (fun s => run_uploader (fst s) (snd s)) h.


(* ---------------------------------------------------------------- the configuration is fetched by every Run *)

(* upload.Run (run.go newUploader, mode on) downloads the LATEST version of
   the upload configuration module at every Run: configstore.Download runs the
   go command, nothing is kept from an earlier Run of the process.  A store is
   the list of published versions, oldest first. *)
Definition cfg_store := list (bytes * upload_cfg).
Definition latest_config (st : cfg_store) : option (bytes * upload_cfg) :=
  match rev st with x :: _ => Some x | [] => None end.

(* one Run against the store as it is now (no version: the download fails and the Run does nothing) *)
Definition run_fetching (st : cfg_store) (p : run_params) (d : dir) : option (report * option report) * list bytes :=
  match latest_config st with
  | Some (v, u) => run_uploader (mkRun (rp_gate p) u v (rp_week p) (rp_lastweek p) (rp_x p) (rp_start p)) d
  | None => (None, [])
  end.

(* a process: Runs against the store and the directory as each Run finds them *)
Definition run_fetching_history (h : list (cfg_store * run_params * dir)) :=
  map (fun s => run_fetching (fst (fst s)) (snd (fst s)) (snd s)) h.

(* ---------------------------------------------------------------- several weeks expiring in one run *)

(* reports(): the expired count files are grouped by the DATE of their TimeEnd
   as written in the file (`end.Format("2006-01-02")`, in the zone the file
   names) - not by the instant - and one report is built per date from all
   the files of that date.  A labelled file: (week label, parsed file). *)
Definition wfile := (bytes * cfile)%type.

Fixpoint week_labels (l : list wfile) : list bytes :=
  match l with
  | [] => []
  | e :: l' => fst e :: filter (fun w => negb (beq w (fst e))) (week_labels l')
  end.

Definition week_files (w : bytes) (l : list wfile) : list cfile :=
  map snd (filter (fun e => beq (fst e) w) l).

(* one report (or none) per label, built from exactly the files of that label, in directory order *)
Definition week_reports (gate : bool) (u : upload_cfg) (cfgver lastweek : bytes) (x : N) (l : list wfile)
  : list (bytes * option (report * option report)) :=
  map (fun w => (w, create_report gate u cfgver w lastweek x (week_files w l))) (week_labels l).
