(* Model/Report: internal/upload/reports.go createReport / findProgReport:
   folding the week's parsed counter files into program reports, the filter
   producing the uploadable report, and the executable oracle of property C01
   (`report_check`), which is evaluated on the IMPLEMENTATION's reports.
   Executable definitions only. *)
From Coq Require Import List ZArith NArith Bool.
From Tele Require Import Lib.Bytes Lib.Str Lib.Assoc Model.Config Model.ApprovalSpec.
Import ListNotations.
Open Scope Z_scope.

(* a parsed counter file: the five identity fields of its metadata and its
   Count map (uint64 values) as a list *)
Record cfile := mkFile { f_ident : ident; f_counts : list (bytes * N) }.

Definition cmap := list (bytes * Z).          (* map[string]int64 *)
Definition body := (cmap * cmap)%type.        (* Counters, Stacks *)
Definition progs := list (ident * body).      (* Report.Programs, in slice order *)

Definition two63 : Z := 2 ^ 63.
Definition two64 : Z := 2 ^ 64.
(* two's complement reduction to int64 *)
Definition wrap64 (z : Z) : Z := (z + two63) mod two64 - two63.
(* int64(v) for a uint64 v *)
Definition to_int64 (v : N) : Z := wrap64 (Z.of_N v).
Definition odflt (o : option Z) : Z := match o with Some a => a | None => 0 end.
(* m[k] += int64(v) on an int64 map *)
Definition bump (v : N) (o : option Z) : Z := wrap64 (odflt o + to_int64 v).

Definition add_count (b : body) (kv : bytes * N) : body :=
  if is_stack (fst kv)
  then (fst b, aupd beq (fst kv) (bump (snd kv)) (snd b))
  else (aupd beq (fst kv) (bump (snd kv)) (fst b), snd b).

Definition empty_body : body := ([], []).
Definition obody (o : option body) : body := match o with Some b => b | None => empty_body end.

(* findProgReport + the `for k, v := range x.Count` loop *)
Definition add_file (ps : progs) (f : cfile) : progs :=
  aupd ident_eqb (f_ident f) (fun o => fold_left add_count (f_counts f) (obody o)) ps.

Definition aggregate (files : list cfile) : progs := fold_left add_file files [].

(* `succeeded`: some file contributed at least one counter *)
Definition succeeded (files : list cfile) : bool :=
  existsb (fun f => nonempty (f_counts f)) files.

(* the program build test of the upload filter (after fix dea8c3f: GOOS and GOARCH too) *)
Definition build_ok (c : config) (i : ident) : bool :=
  has_goos c (id_goos i) && has_goarch c (id_goarch i) && has_goversion c (id_goversion i) &&
  has_program c (id_program i) && has_version c (id_program i) (id_version i).

Definition keep_counter (c : config) (x : N) (prog : bytes) (kv : bytes * Z) : bool :=
  has_counter c prog (fst kv) && (x <=? rate c prog (fst kv))%N.
Definition keep_stack (c : config) (x : N) (prog : bytes) (kv : bytes * Z) : bool :=
  let t := stack_title (fst kv) in
  has_stack c prog t && (x <=? rate c prog t)%N.

Definition trim_prog (c : config) (x : N) (p : ident * body) : ident * body :=
  (fst p, (filter (keep_counter c x (id_program (fst p))) (fst (snd p)),
           filter (keep_stack c x (id_program (fst p))) (snd (snd p)))).

Definition filter_upload (c : config) (x : N) (ps : progs) : progs :=
  map (trim_prog c x) (filter (fun p => build_ok c (fst p)) ps).

Record report := mkReport {
  r_week : bytes; r_lastweek : bytes; r_x : N; r_config : bytes; r_programs : progs }.

(* `report.X > SampleRate && SampleRate > 0` *)
Definition sample_blocks (u : upload_cfg) (x : N) : bool :=
  (uc_sample u <? x)%N && (0 <? uc_sample u)%N.

(* createReport.  gate = mode is "on", the week is not too old, the as-of date
   precedes the data (property C02's concern); None = "none of the count
   files contained counters" (no report is written). *)
Definition create_report (gate : bool) (u : upload_cfg) (cfgver week lastweek : bytes) (x : N)
           (files : list cfile) : option (report * option report) :=
  if succeeded files then
    let local := aggregate files in
    Some (mkReport week lastweek x cfgver local,
          if gate && negb (sample_blocks u x)
          then Some (mkReport week lastweek x cfgver (filter_upload (new_config u) x local))
          else None)
  else None.

(* ------------------------------------------------------------------ *)
(* The property's oracle, independent of the tables and of `aggregate`. *)

(* all values recorded for counter k by the files of build i *)
Definition spec_entries (files : list cfile) (i : ident) (k : bytes) : list N :=
  flat_map (fun f => if ident_eqb (f_ident f) i
                     then flat_map (fun kv => if beq (fst kv) k then [snd kv] else []) (f_counts f)
                     else []) files.
Definition zsum (l : list N) : Z := fold_right (fun v a => Z.of_N v + a) 0 l.
Definition spec_sum (files : list cfile) (i : ident) (k : bytes) : Z := zsum (spec_entries files i k).

Inductive fclass :=
| FHeader          (* Week/LastWeek/X/Config of the upload differ from the run's *)
| FProgUnapproved  (* uploaded program build not approved by the configuration *)
| FProgUnknown     (* uploaded program build is not the build of any counter file *)
| FProgDup         (* the same build twice *)
| FCounterName     (* uploaded counter not in the expansion of a configured counter of the program *)
| FCounterRate     (* no configured rate of that counter is >= X *)
| FStackName       (* uploaded stack whose title is not a configured stack of the program *)
| FStackRate
| FRateShared      (* rate failure where the name is configured both as counter and as stack AND the decision is the
                      one the single shared rate table (last configured rate of the name) gives: finding 13 *)
| FValueSum        (* uploaded value is not the (wrapped) sum over the build's files *)
| FValueWrap       (* uploaded value is the wrapped sum, and the true sum is >= 2^63 (finding 14) *)
| FIncomplete.     (* an approved counter with rate >= X present locally is missing *)

Definition failure := (fclass * bytes)%type.

Definition check_value (files : list cfile) (i : ident) (k : bytes) (v : Z) : list failure :=
  match spec_entries files i k with
  | [] => [(FValueSum, k)]
  | es => if v =? wrap64 (zsum es)
          then (if v =? zsum es then [] else [(FValueWrap, k)])
          else [(FValueSum, k)]
  end.

(* Classification of a rate failure.  The known class FRateShared is tied to ITS shape: the name is configured
   both as a counter and as a stack of the program AND the decision taken is the one a single rate table holding
   the LAST configured rate of (program, name) gives (Model/Config.rate).  Any other wrong decision on such a
   name is an ordinary FCounterRate / FStackRate / FIncomplete. *)
Definition check_counter (u : upload_cfg) (files : list cfile) (x : N) (i : ident) (kv : bytes * Z)
  : list failure :=
  let k := fst kv in
  let prog := id_program i in
  (if is_stack k || negb (approved_counterb u prog k) then [(FCounterName, k)]
   else if existsb (N.leb x) (counter_rates u prog k) then []
   else if nonempty (stack_rates u prog k) && (x <=? rate (new_config u) prog k)%N
        then [(FRateShared, k)] else [(FCounterRate, k)])
  ++ check_value files i k (snd kv).

Definition check_stack (u : upload_cfg) (files : list cfile) (x : N) (i : ident) (kv : bytes * Z)
  : list failure :=
  let k := fst kv in
  let prog := id_program i in
  (if negb (is_stack k) || negb (approved_stackb u prog k) then [(FStackName, k)]
   else if existsb (N.leb x) (stack_rates u prog (stack_title k)) then []
   else if nonempty (counter_rates u prog (stack_title k)) && (x <=? rate (new_config u) prog (stack_title k))%N
        then [(FRateShared, k)] else [(FStackRate, k)])
  ++ check_value files i k (snd kv).

Definition check_prog (u : upload_cfg) (files : list cfile) (x : N) (p : ident * body) : list failure :=
  let i := fst p in
  (if approved_buildb u i then [] else [(FProgUnapproved, id_program i)]) ++
  (if existsb (fun f => ident_eqb (f_ident f) i) files then [] else [(FProgUnknown, id_program i)]) ++
  flat_map (check_counter u files x i) (fst (snd p)) ++
  flat_map (check_stack u files x i) (snd (snd p)).

Fixpoint dup_idents (l : list ident) : list failure :=
  match l with
  | [] => []
  | i :: l' => (if existsb (ident_eqb i) l' then [(FProgDup, id_program i)] else []) ++ dup_idents l'
  end.

(* completeness: what must be in the upload *)
Definition must_counter (u : upload_cfg) (x : N) (prog k : bytes) : bool :=
  approved_counterb u prog k && forallb (N.leb x) (counter_rates u prog k).
Definition must_stack (u : upload_cfg) (x : N) (prog k : bytes) : bool :=
  approved_stackb u prog k && forallb (N.leb x) (stack_rates u prog (stack_title k)).

Definition check_present (u : upload_cfg) (x : N) (up : progs) (f : cfile) : list failure :=
  let i := f_ident f in
  let prog := id_program i in
  if approved_buildb u i then
    match aget ident_eqb i up with
    | None => [(FIncomplete, prog)]
    | Some b =>
        flat_map (fun kv =>
          let k := fst kv in
          if is_stack k then
            if must_stack u x prog k then
              match aget beq k (snd b) with
              | Some _ => []
              | None => if nonempty (counter_rates u prog (stack_title k)) &&
                           negb (x <=? rate (new_config u) prog (stack_title k))%N
                        then [(FRateShared, k)] else [(FIncomplete, k)]
              end
            else []
          else
            if must_counter u x prog k then
              match aget beq k (fst b) with
              | Some _ => []
              | None => if nonempty (stack_rates u prog k) && negb (x <=? rate (new_config u) prog k)%N
                        then [(FRateShared, k)] else [(FIncomplete, k)]
              end
            else []) (f_counts f)
    end
  else [].

Definition header_ok (a b : report) : bool :=
  beq (r_week a) (r_week b) && beq (r_lastweek a) (r_lastweek b) &&
  (r_x a =? r_x b)%N && beq (r_config a) (r_config b).

(* report_check u files local upload: the failures of property C01 on an
   upload report built from `files` under configuration u with X = r_x local *)
Definition report_check (u : upload_cfg) (files : list cfile) (local up : report) : list failure :=
  let x := r_x local in
  (if header_ok local up then [] else [(FHeader, r_week up)]) ++
  dup_idents (map fst (r_programs up)) ++
  flat_map (check_prog u files x) (r_programs up) ++
  flat_map (check_present u x (r_programs up)) files.

Definition report_ok (u : upload_cfg) (files : list cfile) (local up : report) : bool :=
  match report_check u files local up with [] => true | _ => false end.

(* the local report is the unfiltered aggregate: every value is the int64 sum *)
Definition check_sum (files : list cfile) (i : ident) (k : bytes) (v : Z) : list failure :=
  match spec_entries files i k with
  | [] => [(FValueSum, k)]
  | es => if v =? wrap64 (zsum es) then [] else [(FValueSum, k)]
  end.

Definition local_check (files : list cfile) (local : report) : list failure :=
  dup_idents (map fst (r_programs local)) ++
  flat_map (fun p =>
     (if existsb (fun f => ident_eqb (f_ident f) (fst p)) files then [] else [(FProgUnknown, id_program (fst p))]) ++
     flat_map (fun kv => (if is_stack (fst kv) then [(FCounterName, fst kv)] else []) ++
                         check_sum files (fst p) (fst kv) (snd kv)) (fst (snd p)) ++
     flat_map (fun kv => (if is_stack (fst kv) then [] else [(FStackName, fst kv)]) ++
                         check_sum files (fst p) (fst kv) (snd kv)) (snd (snd p)))
    (r_programs local) ++
  flat_map (fun f => match aget ident_eqb (f_ident f) (r_programs local) with
                     | None => [(FIncomplete, id_program (f_ident f))]
                     | Some b => flat_map (fun kv =>
                         match aget beq (fst kv) (if is_stack (fst kv) then snd b else fst b) with
                         | Some _ => [] | None => [(FIncomplete, fst kv)] end) (f_counts f)
                     end) files.
