(* Model/Cli: what `gotelemetry on|local|off|clean|env` do to the telemetry
   directory (cmd/gotelemetry/main.go: runOn, runLocal, runOff, runClean,
   runEnv; internal/telemetry/dir.go: Mode, SetModeAsOf).

   The telemetry directory is a tree: a node is a file (its bytes) or a
   directory (its entries, each a name and a node, nested to any depth).
   `None` as a tree means the telemetry directory itself does not exist.
   Executable definitions only. *)
From Coq Require Import List ZArith NArith Bool String.
From Tele Require Import Lib.Bytes Lib.Calendar Gen.Consts.
Import ListNotations.
Open Scope N_scope.

(* string literals as byte lists (evaluated here so that the extracted code
   does not mention Coq strings) *)
Definition lit_utc_midnight : bytes := Eval vm_compute in s2b " 00:00:00 +0000 UTC".
Definition lit_dot : bytes := Eval vm_compute in s2b ".".
Definition lit_dot_count : bytes := Eval vm_compute in s2b ".count".
Definition lit_dot_json : bytes := Eval vm_compute in s2b ".json".
Definition lit_slash_local : bytes := Eval vm_compute in s2b "/local".
Definition lit_slash_mode : bytes := Eval vm_compute in s2b "/mode".
Definition lit_slash_upload : bytes := Eval vm_compute in s2b "/upload".
Definition lit_zero_date : bytes := Eval vm_compute in s2b "0001-01-01".
Definition lit_debug : bytes := Eval vm_compute in s2b "debug".
Definition lit_local : bytes := Eval vm_compute in s2b "local".
Definition lit_localdir : bytes := Eval vm_compute in s2b "localdir: ".
Definition lit_mode : bytes := Eval vm_compute in s2b "mode".
Definition lit_mode_colon : bytes := Eval vm_compute in s2b "mode: ".
Definition lit_modefile : bytes := Eval vm_compute in s2b "modefile: ".
Definition lit_off : bytes := Eval vm_compute in s2b "off".
Definition lit_on : bytes := Eval vm_compute in s2b "on".
Definition lit_upload : bytes := Eval vm_compute in s2b "upload".
Definition lit_uploaddir : bytes := Eval vm_compute in s2b "uploaddir: ".

Inductive node :=
| File (data : bytes)
| Dir (entries : list (bytes * node)).

Definition dirents := list (bytes * node).
Definition tree := option dirents.

(* first entry with the given name *)
Fixpoint assoc (k : bytes) (es : dirents) : option node :=
  match es with
  | [] => None
  | (k', v) :: r => if beq k' k then Some v else assoc k r
  end.

(* path = list of names below the telemetry directory *)
Fixpoint lookup_in (p : list bytes) (es : dirents) : option node :=
  match p with
  | [] => None
  | a :: rest =>
      match rest with
      | [] => assoc a es
      | _ :: _ => match assoc a es with
                  | Some (Dir sub) => lookup_in rest sub
                  | _ => None
                  end
      end
  end.

Definition lookup (p : list bytes) (t : tree) : option node :=
  match t with Some es => lookup_in p es | None => None end.

(* names used by telemetry.NewDir *)
Definition n_local : bytes := lit_local.
Definition n_upload : bytes := lit_upload.
Definition n_debug : bytes := lit_debug.
Definition n_mode : bytes := lit_mode.

(* ------------------------------------------------------------------ clean *)

(* runClean's table: LocalDir -> {"." + counter.FileVersion + ".count", ".json"},
   UploadDir -> {".json"} *)
Definition cli_local_sufs : list bytes :=
  [lit_dot ++ c_FileVersion ++ lit_dot_count; lit_dot_json].
Definition cli_upload_sufs : list bytes := [lit_dot_json].

Definition has_any_suffix (name : bytes) (sufs : list bytes) : bool :=
  existsb (has_suffix name) sufs.

(* os.Remove succeeds on files and on empty directories, fails (ENOTEMPTY)
   on a directory that has entries *)
Definition removable (n : node) : bool :=
  match n with Dir (_ :: _) => false | _ => true end.

(* the entry is selected by its name and os.Remove succeeds on it *)
Definition cli_doomed (sufs : list bytes) (e : bytes * node) : bool :=
  has_any_suffix (fst e) sufs && removable (snd e).

Definition clean_dir (sufs : list bytes) (es : dirents) : dirents :=
  filter (fun e => negb (cli_doomed sufs e)) es.

(* os.ReadDir(<telemetry dir>/<name>): when the entry is missing or is not a
   directory runClean warns / skips and removes nothing *)
Definition clean_sub (name : bytes) (sufs : list bytes) (es : dirents) : dirents :=
  map (fun e => if beq (fst e) name
                then match snd e with
                     | Dir sub => (fst e, Dir (clean_dir sufs sub))
                     | File _ => e
                     end
                else e) es.

Definition cli_clean (t : tree) : tree :=
  match t with
  | None => None
  | Some es => Some (clean_sub n_upload cli_upload_sufs (clean_sub n_local cli_local_sufs es))
  end.

(* ------------------------------------------------------------------- mode *)

(* Dir.Mode on the file's bytes: TrimSpace; cut at the first ' '; the rest is
   parsed with time.Parse(DateOnly) (failure -> zero time = None) *)
Definition cli_mode_parse (data : bytes) : bytes * option Z :=
  let m := trim_space data in
  match index_byte m 32 with
  | Some i => (firstn i m, parse_date (skipn (S i) m))
  | None => (m, None)
  end.

(* os.ReadFile(modefile) fails (missing, or a directory) -> "local", zero time *)
Definition cli_read_mode (t : tree) : bytes * option Z :=
  match t with
  | Some es => match assoc n_mode es with
               | Some (File d) => cli_mode_parse d
               | _ => (lit_local, None)
               end
  | None => (lit_local, None)
  end.

Inductive mcmd := On | Local | Off.
Definition mode_str (c : mcmd) : bytes :=
  match c with On => lit_on | Local => lit_local | Off => lit_off end.

(* data := []byte(mode + " " + asof) *)
Definition mode_file_bytes (m : bytes) (today : Z) : bytes := m ++ [32] ++ fmt_date today.

Fixpoint set_entry (k : bytes) (v : node) (es : dirents) : dirents :=
  match es with
  | [] => [(k, v)]
  | (k', v') :: r => if beq k' k then (k', v) :: r else (k', v') :: set_entry k v r
  end.

(* SetModeAsOf for the three literals the commands pass (TrimSpace and the
   switch are the identity / pass on them): MkdirAll of the telemetry
   directory, the defensive re-parse of the formatted date, os.WriteFile
   (O_CREATE|O_TRUNC; fails when the path is a directory).  The boolean is
   "returned nil"; on error nothing was written. *)
Definition cli_set_mode (m : bytes) (today : Z) (t : tree) : tree * bool :=
  match parse_date (fmt_date today) with
  | None => (match t with None => Some [] | Some _ => t end, false)
  | Some _ =>
      match t with
      | None => (Some [(n_mode, File (mode_file_bytes m today))], true)
      | Some es =>
          match assoc n_mode es with
          | Some (Dir _) => (t, false)
          | _ => (Some (set_entry n_mode (File (mode_file_bytes m today)) es), true)
          end
      end
  end.

(* runOn / runLocal / runOff: `if old, _ := Mode(); old == "<m>" { return }`
   then SetMode; the boolean is "exit status 0" *)
Definition cli_mode_cmd (c : mcmd) (today : Z) (t : tree) : tree * bool :=
  if beq (fst (cli_read_mode t)) (mode_str c) then (t, true)
  else cli_set_mode (mode_str c) today t.

(* ------------------------------------------------------------- commands *)

Inductive cmd := CMode (c : mcmd) | CClean | CEnv.

Definition cli_run (c : cmd) (today : Z) (t : tree) : tree * bool :=
  match c with
  | CMode m => cli_mode_cmd m today t
  | CClean => (cli_clean t, true)
  | CEnv => (t, true)
  end.

(* a history: each command with the date of the day it runs on *)
Definition cli_run_all (cs : list (cmd * Z)) (t : tree) : tree :=
  fold_left (fun t cz => fst (cli_run (fst cz) (snd cz) t)) cs t.

(* ------------------------------------------------------ instants and zones *)

(* A command runs at an instant `now` (Unix seconds) in a process whose local
   time zone is `off` seconds east of UTC.  SetMode passes time.Now(), which
   carries that zone; SetModeAsOf formats asofTime.UTC(): the recorded date is
   the UTC date of the instant, whatever the zone (Dir.Mode parses it as UTC). *)
Definition utc_day (now : Z) : Z := (now / 86400)%Z.
Definition local_day (now off : Z) : Z := ((now + off) / 86400)%Z.

Definition cli_set_mode_at (m : bytes) (now off : Z) (t : tree) : tree * bool :=
  cli_set_mode m (utc_day now) t.
Definition cli_run_at (c : cmd) (now off : Z) (t : tree) : tree * bool :=
  cli_run c (utc_day now) t.

(* the process environment's temporary directory (TMPDIR): unset, a directory
   on the configuration directory's file system, a directory on another file
   system, a missing path, a regular file.  The commands do not use it: the mode
   file is written in place (os.WriteFile), so the only footprint of a command
   is the telemetry tree and the temporary directory stays as it was. *)
Inductive tmpdir := TmpDefault | TmpSameFs | TmpOtherFs | TmpMissing | TmpNotDir.

Definition cli_run_env (c : cmd) (now off : Z) (tmp : tmpdir) (t : tree) : tree * bool :=
  cli_run_at c now off t.

(* runEnv: fmt.Printf("mode: %s %s\n", m, t) with t a time.Time (UTC midnight
   or the zero time), then the three paths *)
Definition zero_date : bytes := lit_zero_date.
Definition date_or_zero (d : option Z) : bytes :=
  match d with Some day => fmt_date day | None => zero_date end.
Definition cli_env_output (dir : bytes) (t : tree) : bytes :=
  let '(m, d) := cli_read_mode t in
  lit_mode_colon ++ m ++ [32] ++ date_or_zero d ++ lit_utc_midnight ++ [10]
  ++ [10]
  ++ lit_modefile ++ dir ++ lit_slash_mode ++ [10]
  ++ lit_localdir ++ dir ++ lit_slash_local ++ [10]
  ++ lit_uploaddir ++ dir ++ lit_slash_upload ++ [10].

(* ------------------------------------------------------ no directory *)

(* os.UserConfigDir() failed at init (HOME and XDG_CONFIG_HOME unset):
   telemetry.Default is the zero Dir, all its paths are empty.  Mode() is "off";
   SetModeAsOf refuses ("cannot determine telemetry mode file name"); runClean's
   os.ReadDir("") fails with not-exist and is skipped.  No command touches any
   file; the result is the exit status. *)
Definition cli_run_nodir (c : cmd) : bool :=
  match c with
  | CMode Off => true        (* already "off": no-op *)
  | CMode _ => false         (* failf: exit status 1 *)
  | CClean | CEnv => true
  end.

Definition cli_env_output_nodir : bytes :=
  lit_mode_colon ++ lit_off ++ [32] ++ zero_date ++ lit_utc_midnight ++ [10]
  ++ [10]
  ++ lit_modefile ++ [10]
  ++ lit_localdir ++ [10]
  ++ lit_uploaddir ++ [10].

(* ------------------------------------------------- executable oracles *)

Fixpoint node_eqb (a b : node) : bool :=
  match a, b with
  | File x, File y => beq x y
  | Dir xs, Dir ys =>
      (fix go (xs ys : dirents) {struct xs} : bool :=
         match xs, ys with
         | [], [] => true
         | (k, v) :: xs', (k', v') :: ys' => beq k k' && node_eqb v v' && go xs' ys'
         | _, _ => false
         end) xs ys
  | _, _ => false
  end.

Definition entry_eqb (e1 e2 : bytes * node) : bool :=
  beq (fst e1) (fst e2) && node_eqb (snd e1) (snd e2).
Definition mem_entry (e : bytes * node) (es : dirents) : bool := existsb (entry_eqb e) es.
Definition has_name (k : bytes) (es : dirents) : bool :=
  match assoc k es with Some _ => true | None => false end.

Definition tree_eqb (a b : tree) : bool :=
  match a, b with
  | None, None => true
  | Some x, Some y => node_eqb (Dir x) (Dir y)
  | _, _ => false
  end.

(* the property for one data directory, evaluated on a before/after pair:
   no selected removable entry is left; every other entry is still there,
   identical (for a sub-directory: with its whole contents); nothing new *)
Definition clean_dir_ok (sufs : list bytes) (before after : dirents) : bool :=
  forallb (fun e => negb (cli_doomed sufs e)) after
  && forallb (fun e => cli_doomed sufs e || mem_entry e after) before
  && forallb (fun e => mem_entry e before) after.

Definition data_dir_sufs (name : bytes) : option (list bytes) :=
  if beq name n_local then Some cli_local_sufs
  else if beq name n_upload then Some cli_upload_sufs
  else None.

Definition clean_root_ok (before after : dirents) : bool :=
  forallb (fun e =>
             match data_dir_sufs (fst e), snd e with
             | Some sufs, Dir sub =>
                 match assoc (fst e) after with
                 | Some (Dir sub') => clean_dir_ok sufs sub sub'
                 | _ => false
                 end
             | _, _ => mem_entry e after
             end) before
  && forallb (fun e => has_name (fst e) before) after.

Definition clean_ok (before after : tree) : bool :=
  match before, after with
  | None, None => true
  | Some b, Some a => clean_root_ok b a
  | _, _ => false
  end.

(* every entry other than the mode file is identical, both ways *)
Definition others_same (before after : dirents) : bool :=
  forallb (fun e => beq (fst e) n_mode || mem_entry e after) before
  && forallb (fun e => beq (fst e) n_mode || mem_entry e before) after.

Definition ents (t : tree) : dirents := match t with Some es => es | None => [] end.

Definition mode_is_dir (t : tree) : bool :=
  match t with
  | Some es => match assoc n_mode es with Some (Dir _) => true | _ => false end
  | None => false
  end.

Definition opt_z_eqb (a b : option Z) : bool :=
  match a, b with
  | Some x, Some y => Z.eqb x y
  | None, None => true
  | _, _ => false
  end.

(* on/local/off: already the requested mode -> nothing at all changes and the
   command succeeds; else it succeeds, only the mode file differs, and it
   reads back as (requested mode, today).  The one accepted failure: the mode
   path is a directory; then the command reports the error and nothing
   changes. *)
Definition mode_cmd_ok (c : mcmd) (today : Z) (before after : tree) (ok : bool) : bool :=
  if beq (fst (cli_read_mode before)) (mode_str c) then ok && tree_eqb before after
  else if mode_is_dir before then negb ok && tree_eqb before after
  else ok
       && match after with Some _ => true | None => false end
       && others_same (ents before) (ents after)
       && beq (fst (cli_read_mode after)) (mode_str c)
       && opt_z_eqb (snd (cli_read_mode after)) (Some today).

Definition dir_diff_ok (c : cmd) (today : Z) (before after : tree) (ok : bool) : bool :=
  match c with
  | CMode m => mode_cmd_ok m today before after ok
  | CClean => ok && clean_ok before after
  | CEnv => ok && tree_eqb before after
  end.
