(* Model/UploadStarts: a HISTORY of program starts on one telemetry directory,
   each trying the upload token alone (acquire_seq of Model/Start.v, the token
   model of C16): which starts may run the uploader.  The token file's
   modification time is the time of the last acquisition; a refused start
   leaves it alone, so the 24 h window is measured from the last ACQUISITION
   and a program that starts more often than once a day is not starved.
   Executable definitions only. *)
From Coq Require Import List ZArith Bool.
From Tele Require Import Model.Start.
Import ListNotations.
Open Scope Z_scope.

(* the starts at the given instants (ns), in order: (acquired, token file afterwards) *)
Fixpoint starts_hist (period : Z) (tok : option Z) (times : list Z) : list (bool * option Z) :=
  match times with
  | [] => []
  | t :: r => let '(b, tok') := acquire_seq period t tok in (b, tok') :: starts_hist period tok' r
  end.

(* oracles on an observed history (instant, acquired); last = the time of the
   last acquisition before the history (the token file's mtime), if any *)
(* not starved: a start at least a period after the last acquisition acquires *)
Fixpoint not_starved (period : Z) (last : option Z) (obs : list (Z * bool)) : bool :=
  match obs with
  | [] => true
  | (t, b) :: r =>
      let due := match last with None => true | Some m => negb (t - m <? period) end in
      (negb due || b) && not_starved period (if b then Some t else last) r
  end.
(* rate limit: acquisitions are at least a period apart *)
Fixpoint rate_ok (period : Z) (last : option Z) (obs : list (Z * bool)) : bool :=
  match obs with
  | [] => true
  | (t, b) :: r =>
      let due := match last with None => true | Some m => negb (t - m <? period) end in
      (negb b || due) && rate_ok period (if b then Some t else last) r
  end.
