(* Model/Parse: internal/counter/parse.go Parse(filename, data).

   parse_with oob bs is Parse on the byte string bs, where oob stands for
   the bytes that happen to follow data in memory: mappedFile.load32 tests
   only `off >= len(data)` and then reads four bytes, so a bucket head
   starting in the last three bytes of the input reads up to three bytes past
   its end.  (Record fields are read only after entryAt's bounds tests, they
   never leave the input.)  parse bs = parse_with [] bs reads zeros there. *)
From Coq Require Import List NArith Bool.
From Tele Require Import Lib.Bytes Lib.BytesN Gen.Consts Model.DecodeStack Model.Layout.
Import ListNotations.
Open Scope N_scope.

Inductive presult :=
  | PDiverge                      (* model fuel exhausted: never (Proofs) *)
  | PErrShort                     (* "file too short" *)
  | PErrHdr                       (* "wrong hdr" *)
  | PErrCorrupt                   (* "corrupt counter file" *)
  | POk (meta : list (bytes * bytes)) (counts : list (bytes * N)).
(* POk lists are in assignment order; the Go maps they stand for are
   last_wins of them *)

(* f.Meta[k] = v for every non-empty line; None = a line without ": " *)
Fixpoint parse_meta (lines : list bytes) (acc : list (bytes * bytes)) : option (list (bytes * bytes)) :=
  match lines with
  | [] => Some (rev acc)
  | l :: t =>
      match l with
      | [] => parse_meta t acc
      | _ => let '(k, v, ok) := cut l sep_colon in
             if ok then parse_meta t ((k, v) :: acc) else None
      end
  end.

Definition has_key (k : bytes) (acc : list (bytes * N)) : bool :=
  existsb (fun kv => beq (fst kv) k) acc.

Inductive wresult := WDiverge | WCorrupt | WOk (acc : list (bytes * N)).

(* the inner loop over one bucket's chain; acc is f.Count so far, newest first *)
Fixpoint parse_walk (fuel : nat) (sz : N) (bs : bytes) (hdr n off : N) (acc : list (bytes * N)) : wresult :=
  if off =? 0 then WOk acc else
  match fuel with
  | O => WDiverge
  | S f =>
      if sz / c_recordUnit <? n then WCorrupt else
      match entry_at_sz sz bs hdr off with
      | None => WCorrupt
      | Some (ename, next, v) =>
          if has_key ename acc then WCorrupt
          else parse_walk f sz bs hdr (n + 1) next ((decode_stack ename, v) :: acc)
      end
  end.

(* the outer loop; t is the mapping from the current head's offset on, so that
   the table is traversed once (load32 of the source re-indexes from the start) *)
Definition head_word (oob : bytes) (sz off : N) (t : bytes) : N :=
  if sz <=? off then 0 else
  match t with
  | a :: b :: c :: d :: _ => word4 a b c d
  | _ => get32 (t ++ oob) 0
  end.

Fixpoint parse_buckets (oob : bytes) (sz : N) (bs : bytes) (hdr : N) (is : list N) (t : bytes)
    (acc : list (bytes * N)) : wresult :=
  match is with
  | [] => WOk acc
  | i :: is' =>
      match parse_walk (walk_fuel_sz sz) sz bs hdr 0 (head_word oob sz (head_off hdr i) t) acc with
      | WOk acc' => parse_buckets oob sz bs hdr is' (dropN t 4) acc'
      | r => r
      end
  end.

Definition parse_with (oob bs : bytes) : presult :=
  let sz := len bs in
  if negb (has_prefix bs c_hdrPrefix) || (sz <? c_pageSize) then
    (if sz <? c_pageSize then PErrShort else PErrHdr)
  else
    let hl := get32 bs hdr_np in
    if (c_pageSize <? hl) || (hl <? hdr_np + 4) then PErrCorrupt else
    let meta := cut_nul (slice bs (hdr_np + 4) (hl - (hdr_np + 4))) in
    match parse_meta (split_byte meta c_nl) [] with
    | None => PErrCorrupt
    | Some kv =>
        match parse_buckets oob sz bs hl (range_from 0 (N.to_nat c_numHash)) (dropN bs (head_off hl 0)) [] with
        | WDiverge => PDiverge
        | WCorrupt => PErrCorrupt
        | WOk acc => POk kv (rev acc)
        end
    end.

Definition parse (bs : bytes) : presult := parse_with [] bs.

(* the class of inputs on which a head load leaves the input *)
Definition oob_head (bs : bytes) : bool :=
  let hl := get32 bs hdr_np in
  let sz := len bs in
  existsb (fun i => let o := head_off hl i in (o <? sz) && (sz <? o + 4)) buckets.

(* map view of an assignment list: the last value of each key, keys in
   order of first assignment *)
Fixpoint assoc_set {V} (k : bytes) (v : V) (l : list (bytes * V)) : list (bytes * V) :=
  match l with
  | [] => [(k, v)]
  | (k', v') :: t => if beq k' k then (k', v) :: t else (k', v') :: assoc_set k v t
  end.
Definition last_wins {V} (l : list (bytes * V)) : list (bytes * V) :=
  fold_left (fun acc kv => assoc_set (fst kv) (snd kv) acc) l [].

(* Parse's duplicate test compares the RAW name of a record with the
   EXPANDED names stored so far.  twin_clash rs: some record's raw name
   equals the expansion of an earlier record (in walk order); exactly then
   Parse rejects a well-formed file. *)
Fixpoint twin_clash_from (seen : list bytes) (rs : list rec) : bool :=
  match rs with
  | [] => false
  | r :: t => existsb (fun k => beq k (r_name r)) seen || twin_clash_from (decode_stack (r_name r) :: seen) t
  end.
Definition twin_clash (bs : bytes) : bool :=
  match spec_records bs with Some rs => twin_clash_from [] rs | None => false end.

(* executable oracle for "no invented data": all (expanded name, value) pairs
   of records reachable from a bucket head by next links, read leniently
   (entryAt), at most len/32+2 steps per bucket *)
Fixpoint linked_from (fuel : nat) (sz : N) (bs : bytes) (hdr off : N) : list (bytes * N) :=
  if off =? 0 then [] else
  match fuel with
  | O => []
  | S f =>
      match entry_at_sz sz bs hdr off with
      | None => []
      | Some (ename, next, v) => (decode_stack ename, v) :: linked_from f sz bs hdr next
      end
  end.
Definition linked_pairs (bs : bytes) : list (bytes * N) :=
  let sz := len bs in
  let hl := get32 bs hdr_np in
  flat_map (fun i => linked_from (walk_fuel_sz sz) sz bs hl (load32_sz sz bs (head_off hl i))) buckets.
