(* Model/Parse: internal/counter/parse.go Parse(filename, data).

   parse_with oob bs is Parse on the byte string bs, where oob stands for
   the bytes that happen to follow data in memory.  mappedFile.load32 answers 0
   unless off+4 <= len(data), so no load leaves the input: the branch of
   head_word that would read oob is dead (Proofs.ParseFacts.parse_oob_indep,
   for every input).  parse bs = parse_with [] bs. *)
From Coq Require Import List NArith Bool.
From Tele Require Import Lib.Bytes Lib.BytesN Gen.Consts Model.DecodeStack Model.Layout.
Import ListNotations.
Open Scope N_scope.

Inductive presult :=
  | PDiverge                      (* model fuel exhausted: never (Proofs) *)
  | PErrShort                     (* "file too short" *)
  | PErrHdr                       (* "wrong hdr" *)
  | PErrCorrupt                   (* "corrupt counter file" *)
  | POk (meta : list (bytes * bytes)) (counts : list (bytes * N)).
(* POk lists are in assignment order; the Go maps they stand for are
   last_wins of them *)

(* f.Meta[k] = v for every non-empty line; None = a line without ": " *)
Fixpoint parse_meta (lines : list bytes) (acc : list (bytes * bytes)) : option (list (bytes * bytes)) :=
  match lines with
  | [] => Some (rev acc)
  | l :: t =>
      match l with
      | [] => parse_meta t acc
      | _ => let '(k, v, ok) := cut l sep_colon in
             if ok then parse_meta t ((k, v) :: acc) else None
      end
  end.

Definition has_name (k : bytes) (seen : list bytes) : bool := existsb (fun x => beq x k) seen.

(* seen: raw names of the records met so far (newest first); acc: f.Count as
   an assignment list (newest first) *)
Inductive wresult := WDiverge | WCorrupt | WOk (seen : list bytes) (acc : list (bytes * N)).

(* the inner loop over one bucket's chain *)
Fixpoint parse_walk (fuel : nat) (sz : N) (bs : bytes) (hdr n off : N) (seen : list bytes)
    (acc : list (bytes * N)) : wresult :=
  if off =? 0 then WOk seen acc else
  match fuel with
  | O => WDiverge
  | S f =>
      if sz / c_recordUnit <? n then WCorrupt else
      match entry_at_sz sz bs hdr off with
      | None => WCorrupt
      | Some (ename, next, v) =>
          if has_name ename seen then WCorrupt
          else parse_walk f sz bs hdr (n + 1) next (ename :: seen) ((decode_stack ename, v) :: acc)
      end
  end.

(* the outer loop; t is the mapping from the current head's offset on, so that
   the table is traversed once (load32 of the source re-indexes from the start) *)
Definition head_word (oob : bytes) (sz off : N) (t : bytes) : N :=
  if sz <? off + 4 then 0 else
  match t with
  | a :: b :: c :: d :: _ => word4 a b c d
  | _ => get32 (t ++ oob) 0
  end.

Fixpoint parse_buckets (oob : bytes) (sz : N) (bs : bytes) (hdr : N) (is : list N) (t : bytes)
    (seen : list bytes) (acc : list (bytes * N)) : wresult :=
  match is with
  | [] => WOk seen acc
  | i :: is' =>
      match parse_walk (walk_fuel_sz sz) sz bs hdr 0 (head_word oob sz (head_off hdr i) t) seen acc with
      | WOk seen' acc' => parse_buckets oob sz bs hdr is' (dropN t 4) seen' acc'
      | r => r
      end
  end.

Definition parse_with (oob bs : bytes) : presult :=
  let sz := len bs in
  if negb (has_prefix bs c_hdrPrefix) || (sz <? c_pageSize) then
    (if sz <? c_pageSize then PErrShort else PErrHdr)
  else
    let hl := get32 bs hdr_np in
    if (c_pageSize <? hl) || (hl <? hdr_np + 4) then PErrCorrupt else
    let meta := cut_nul (slice bs (hdr_np + 4) (hl - (hdr_np + 4))) in
    match parse_meta (split_byte meta c_nl) [] with
    | None => PErrCorrupt
    | Some kv =>
        match parse_buckets oob sz bs hl (range_from 0 (N.to_nat c_numHash)) (dropN bs (head_off hl 0)) [] [] with
        | WDiverge => PDiverge
        | WCorrupt => PErrCorrupt
        | WOk _ acc => POk kv (rev acc)
        end
    end.

Definition parse (bs : bytes) : presult := parse_with [] bs.

(* map view of an assignment list: the last value of each key, keys in
   order of first assignment *)
Fixpoint assoc_set {V} (k : bytes) (v : V) (l : list (bytes * V)) : list (bytes * V) :=
  match l with
  | [] => [(k, v)]
  | (k', v') :: t => if beq k' k then (k', v) :: t else (k', v') :: assoc_set k v t
  end.
Definition last_wins {V} (l : list (bytes * V)) : list (bytes * V) :=
  fold_left (fun acc kv => assoc_set (fst kv) (snd kv) acc) l [].

(* diagnostic only: some record's raw name equals the expansion of an earlier
   record's name (the class in which Parse used to reject well-formed files) *)
Fixpoint twin_clash_from (seen : list bytes) (rs : list rec) : bool :=
  match rs with
  | [] => false
  | r :: t => existsb (fun k => beq k (r_name r)) seen || twin_clash_from (decode_stack (r_name r) :: seen) t
  end.

(* executable oracle for "no invented data": all (expanded name, value) pairs
   of records reachable from a bucket head by next links, read leniently
   (entryAt), at most len/32+2 steps per bucket *)
Fixpoint linked_from (fuel : nat) (sz : N) (bs : bytes) (hdr off : N) : list (bytes * N) :=
  if off =? 0 then [] else
  match fuel with
  | O => []
  | S f =>
      match entry_at_sz sz bs hdr off with
      | None => []
      | Some (ename, next, v) => (decode_stack ename, v) :: linked_from f sz bs hdr next
      end
  end.
Definition linked_pairs (bs : bytes) : list (bytes * N) :=
  let sz := len bs in
  let hl := get32 bs hdr_np in
  flat_map (fun i => linked_from (walk_fuel_sz sz) sz bs hl (load32_sz sz bs (head_off hl i))) buckets.

(* ------------------------------------------------------------------ *)
(* counter.Read / ReadStack / ReadFile (counter.go): readFile maps the
   counter file AFRESH (ReadMapped: open, stat, mmap, copy) and parses that
   copy, so what it returns is a function of the file's current contents, not
   of the mapping the reading process happens to hold.  bs = those contents. *)

Inductive read_result := RdErr | RdNotFound | RdVal (v : N).

(* pf.Count[k] of the Go map an assignment list stands for *)
Definition find_last (k : bytes) (cs : list (bytes * N)) : option N :=
  fold_left (fun acc kv => if beq (fst kv) k then Some (snd kv) else acc) cs None.

(* Read(c) for a counter named name *)
Definition read_counter (bs name : bytes) : read_result :=
  match parse bs with
  | POk _ cs => match find_last (decode_stack name) cs with Some v => RdVal v | None => RdNotFound end
  | _ => RdErr
  end.

Definition is_stack_name (k : bytes) : bool :=
  match index_byte k c_nl with Some _ => true | None => false end.

(* ReadFile(name): (counters, stackCounters) as assignment lists, None = error *)
Definition read_file (bs : bytes) : option (list (bytes * N) * list (bytes * N)) :=
  match parse bs with
  | POk _ cs =>
      let m := last_wins cs in
      Some (filter (fun kv => negb (is_stack_name (fst kv))) m,
            map (fun kv => (decode_stack (fst kv), snd kv)) (filter (fun kv => is_stack_name (fst kv)) m))
  | _ => None
  end.
