(* Model/Crash: the crash monitor's derivation of a counter name from a crash
   report (internal/crashmonitor/monitor.go: telemetryCounterName,
   parseStackPCs with its closures getSymbol and getPC).

     parse_stack_pcs child crash   mirrors parseStackPCs: one pass over
                                   strings.Split(crash, "\n") with the state
                                   (parentSentinel, on, symLine, currSymbol,
                                   prevSymbol); child = sentinel() of the
                                   process that parses
     scan_sentinel                 fmt.Sscanf(line, "sentinel %x", &u64)
     parse_uint0                   strconv.ParseUint(s, 0, 64)
     counter_name                  telemetryCounterName (cap 16, fixed name,
                                   counter.EncodeStack = Model/Stack)

   and, separately, the PROJECTION of a crash report that is allowed to reach
   telemetry:

     view crash = (sentinel value,
                   [(pc, follows a runtime.sigpanic frame)] of the first
                   running goroutine)

   computed in phases (preamble / body / pairs), independently of the loop.
   Proofs/CrashFacts shows  counter_name = finish o view.
   Executable definitions only. *)
From Coq Require Import List NArith ZArith Bool.
From Tele Require Import Lib.Bytes Lib.Digits Gen.Consts Model.Stack.
Import ListNotations.
Open Scope N_scope.

Inductive result (A : Type) : Type :=
| Ok (a : A)
| Err.
Arguments Ok {A} a.
Arguments Err {A}.

Definition two64 : N := 18446744073709551616.

(* string literals of monitor.go *)
Definition lit_sentinel : bytes := [115; 101; 110; 116; 105; 110; 101; 108].   (* "sentinel" *)
Definition lit_sentinel_sp : bytes := [115; 101; 110; 116; 105; 110; 101; 108; 32].   (* "sentinel " *)
Definition lit_goroutine_sp : bytes := [103; 111; 114; 111; 117; 116; 105; 110; 101; 32].   (* "goroutine " *)
Definition lit_running : bytes := [32; 91; 114; 117; 110; 110; 105; 110; 103; 93; 58].   (* " [running]:" *)
Definition lit_created_by : bytes := [99; 114; 101; 97; 116; 101; 100; 32; 98; 121; 32].   (* "created by " *)
Definition lit_pc_eq : bytes := [32; 112; 99; 61].   (* " pc=" *)
Definition lit_sigpanic : bytes := [114; 117; 110; 116; 105; 109; 101; 46; 115; 105; 103; 112; 97; 110; 105; 99].   (* "runtime.sigpanic" *)
Definition lit_no_running : bytes := [99; 114; 97; 115; 104; 47; 110; 111; 45; 114; 117; 110; 110; 105; 110; 103; 45; 103; 111; 114; 111; 117; 116; 105; 110; 101].   (* "crash/no-running-goroutine" *)

(* ---------------------------------------------------------------- strconv.ParseUint(s, 0, 64) *)

Definition lower (c : N) : N := N.lor c 32.                 (* c | ('x' - 'X') *)
Definition is_dec_digit (c : N) : bool := (48 <=? c) && (c <=? 57).

(* the digit value ParseUint's loop assigns to a byte, None = syntax error *)
Definition digit_val (c : N) : option N :=
  if is_dec_digit c then Some (c - 48)
  else if (97 <=? lower c) && (lower c <=? 122) then Some (lower c - 97 + 10)
  else None.

Definition max_u64 : N := two64 - 1.
Definition cutoff (base : N) : N := max_u64 / base + 1.

(* the digit loop: returns (value, saw an underscore); None = syntax or range error *)
Fixpoint parse_digits (base : N) (s : bytes) (n : N) (us : bool) : option (N * bool) :=
  match s with
  | [] => Some (n, us)
  | c :: s' =>
      if c =? 95 then parse_digits base s' n true            (* '_' && base0 *)
      else match digit_val c with
           | None => None
           | Some d =>
               if base <=? d then None
               else if cutoff base <=? n then None
               else let n1 := n * base + d in
                    if max_u64 <? n1 then None else parse_digits base s' n1 us
           end
  end.

Inductive saw := SawStart | SawDigit | SawUnder | SawOther.
Definition is_under (s : saw) : bool := match s with SawUnder => true | _ => false end.
Definition is_digit_saw (s : saw) : bool := match s with SawDigit => true | _ => false end.

Fixpoint underscore_loop (hex : bool) (sw : saw) (s : bytes) : bool :=
  match s with
  | [] => negb (is_under sw)
  | c :: s' =>
      if is_dec_digit c || (hex && (97 <=? lower c) && (lower c <=? 102)) then underscore_loop hex SawDigit s'
      else if c =? 95 then (if is_digit_saw sw then underscore_loop hex SawUnder s' else false)
      else if is_under sw then false
      else underscore_loop hex SawOther s'
  end.

Definition is_base_letter (c : N) : bool :=
  (lower c =? 98) || (lower c =? 111) || (lower c =? 120).   (* b o x *)

(* underscoreOK(s0) *)
Definition underscore_ok (s0 : bytes) : bool :=
  let s := match s0 with
           | c :: s' => if (c =? 45) || (c =? 43) then s' else s0
           | [] => s0
           end in
  match s with
  | c0 :: c1 :: s' =>
      if (c0 =? 48) && is_base_letter c1
      then underscore_loop (lower c1 =? 120) SawDigit s'
      else underscore_loop false SawStart s
  | _ => underscore_loop false SawStart s
  end.

Definition parse_uint0 (s : bytes) : option N :=
  match s with
  | [] => None
  | c0 :: rest =>
      let '(base, digits) :=
        if c0 =? 48 then
          match rest with
          | c1 :: c2 :: r2 =>                                (* len(s) >= 3 *)
              if lower c1 =? 98 then (2, c2 :: r2)
              else if lower c1 =? 111 then (8, c2 :: r2)
              else if lower c1 =? 120 then (16, c2 :: r2)
              else (8, rest)
          | _ => (8, rest)
          end
        else (10, s) in
      match parse_digits base digits 0 false with
      | None => None
      | Some (n, us) => if us && negb (underscore_ok s) then None else Some n
      end
  end.

(* ---------------------------------------------------------------- fmt.Sscanf(line, "sentinel %x", &u64) *)

(* isSpace runes other than newline, as UTF-8 *)
Definition scan_spaces : list bytes := filter (fun p => negb (beq p [10])) space_seqs.

Definition is_hex_digit (c : N) : bool :=
  is_dec_digit c || ((97 <=? c) && (c <=? 102)) || ((65 <=? c) && (c <=? 70)).
Definition hex_val (c : N) : N :=
  if c <=? 57 then c - 48 else if 97 <=? c then c - 87 else c - 55.

Fixpoint take_hex (s : bytes) : bytes :=
  match s with
  | c :: s' => if is_hex_digit c then c :: take_hex s' else []
  | [] => []
  end.
Definition hex_value (ds : bytes) : N := fold_left (fun acc c => acc * 16 + hex_val c) ds 0.

Definition scan_sentinel (line : bytes) : option N :=
  if negb (has_prefix line lit_sentinel) then None else
  let r := skipn (length lit_sentinel) line in
  (* the space of the format: at least one space (or end of input) *)
  match r, first_prefix r scan_spaces with
  | _ :: _, None => None
  | _, _ =>
      let r' := trim_left_fuel_pats scan_spaces (length r) r in     (* advance + SkipSpace *)
      match take_hex r' with
      | [] => None                                                   (* EOF / "expected integer" *)
      | ds => let v := hex_value ds in if v <? two64 then Some v else None
      end
  end.

(* ---------------------------------------------------------------- getSymbol, getPC *)

(* index of the first '(' not immediately preceded by '.' *)
Fixpoint sym_len (prev_dot : bool) (s : bytes) : option nat :=
  match s with
  | [] => None
  | c :: s' =>
      if c =? 40
      then (if prev_dot then option_map S (sym_len false s') else Some O)
      else option_map S (sym_len (c =? 46) s')
  end.
Definition get_symbol (line : bytes) : option bytes :=
  option_map (fun n => firstn n line) (sym_len false line).

Definition get_pc (line : bytes) : option N :=
  let '(_, pcstr, found) := cut line lit_pc_eq in
  if found then parse_uint0 pcstr else None.

(* ---------------------------------------------------------------- the loop of parseStackPCs *)

Definition is_header (line : bytes) : bool :=
  has_prefix line lit_goroutine_sp && contains line lit_running.
Definition is_blank (line : bytes) : bool := match line with [] => true | _ => false end.
Definition is_terminator (line : bytes) : bool := is_blank line || has_prefix line lit_created_by.
Definition is_sigpanic (sym : bytes) : bool := beq sym lit_sigpanic.

(* pc - parentSentinel + childSentinel (uint64 arithmetic), then pc++ after sigpanic *)
Definition relocate (child psent : N) (pc : N) (after_sigpanic : bool) : N :=
  let pc1 := (pc + (two64 - psent) + child) mod two64 in
  if after_sigpanic then (pc1 + 1) mod two64 else pc1.

(* The pcs are returned in the order they are appended; an error anywhere
   discards them (Go returns nil, err). *)
Fixpoint parse_loop (child psent : N) (on symline : bool) (curr prev : bytes) (lines : list bytes)
  : result (list N) :=
  match lines with
  | [] => Ok []
  | line :: rest =>
      if (psent =? 0) && has_prefix line lit_sentinel_sp then
        match scan_sentinel line with
        | None => Err                                         (* "can't read sentinel line" *)
        | Some v => parse_loop child v on symline curr prev rest
        end
      else if negb on then
        if is_header line
        then (if psent =? 0 then Err                           (* "no sentinel value in crash report" *)
              else parse_loop child psent true symline curr prev rest)
        else parse_loop child psent on symline curr prev rest
      else if is_blank line then Ok []
      else if has_prefix line lit_created_by then Ok []
      else if symline then
        match get_symbol line with
        | None => Err                                         (* "error extracting symbol" *)
        | Some sym => parse_loop child psent on false sym prev rest
        end
      else
        match get_pc line with
        | None => parse_loop child psent on true [] prev rest  (* inlined frame: skipped *)
        | Some pc =>
            let pc' := relocate child psent pc (is_sigpanic prev) in
            match parse_loop child psent on true [] curr rest with
            | Ok pcs => Ok (pc' :: pcs)
            | Err => Err
            end
        end
  end.

Definition parse_stack_pcs (child : N) (crash : bytes) : result (list N) :=
  parse_loop child 0 false true [] [] (split_byte crash 10).

(* ---------------------------------------------------------------- telemetryCounterName *)

Definition frame_cap : nat := 16.

Section WithSymboliser.
  Variable symb : list N -> list frame.

  Definition name_of_pcs (pcs : list N) : bytes :=
    match firstn frame_cap pcs with
    | [] => lit_no_running
    | p => encode_stack symb p c_crash_prefix
    end.

  Definition counter_name (child : N) (crash : bytes) : result bytes :=
    match parse_stack_pcs child crash with
    | Err => Err
    | Ok pcs => Ok (name_of_pcs pcs)
    end.
End WithSymboliser.

(* ---------------------------------------------------------------- crashmonitor.Child

   Child reads ALL of its standard input (io.ReadAll), treats fewer than two
   newlines as "the parent exited without a crash", and otherwise counts the
   name derived from the whole text, or crash/malformed on error. *)
Inductive child_outcome :=
| NoCrash
| Malformed
| Counted (name : bytes).

Fixpoint count_newlines (s : bytes) : nat :=
  match s with
  | [] => O
  | c :: s' => if c =? 10 then S (count_newlines s') else count_newlines s'
  end.

Definition monitor_child (symb : list N -> list frame) (child : N) (stdin : bytes) : child_outcome :=
  if Nat.ltb (count_newlines stdin) 2 then NoCrash
  else match counter_name symb child stdin with
       | Err => Malformed
       | Ok name => Counted name
       end.

(* ---------------------------------------------------------------- the projection *)

(* phase 1: everything up to the header of the first running goroutine *)
Inductive preamble_result :=
| PErr                                   (* unreadable sentinel line, or running goroutine before any sentinel *)
| PNoRun (sent : N)                      (* no running goroutine *)
| PRun (sent : N) (after : list bytes).  (* lines after the header *)

Fixpoint preamble (sent : N) (lines : list bytes) : preamble_result :=
  match lines with
  | [] => PNoRun sent
  | l :: ls =>
      if (sent =? 0) && has_prefix l lit_sentinel_sp then
        match scan_sentinel l with
        | None => PErr
        | Some v => preamble v ls
        end
      else if is_header l then (if sent =? 0 then PErr else PRun sent ls)
      else preamble sent ls
  end.

(* phase 2: the goroutine's own lines *)
Fixpoint body_of (lines : list bytes) : list bytes :=
  match lines with
  | [] => []
  | l :: ls => if is_terminator l then [] else l :: body_of ls
  end.

(* phase 3: (symbol line, location line) pairs -> (pc, follows sigpanic);
   prev_sig: was the previous frame WITH a pc runtime.sigpanic? *)
Fixpoint frames_of (prev_sig : bool) (body : list bytes) : option (list (N * bool)) :=
  match body with
  | [] => Some []
  | sym :: rest =>
      match get_symbol sym with
      | None => None
      | Some s =>
          match rest with
          | [] => Some []
          | loc :: rest' =>
              match get_pc loc with
              | None => frames_of prev_sig rest'
              | Some pc =>
                  match frames_of (is_sigpanic s) rest' with
                  | Some fs => Some ((pc, prev_sig) :: fs)
                  | None => None
                  end
              end
          end
      end
  end.

Definition view_of_lines (lines : list bytes) : option (N * list (N * bool)) :=
  match preamble 0 lines with
  | PErr => None
  | PNoRun s => Some (s, [])
  | PRun s after =>
      match frames_of false (body_of after) with
      | None => None
      | Some fs => Some (s, fs)
      end
  end.

Definition view (crash : bytes) : option (N * list (N * bool)) :=
  view_of_lines (split_byte crash 10).

(* what may be computed from the projection *)
Definition finish_pcs (child : N) (v : N * list (N * bool)) : list N :=
  map (fun f => relocate child (fst v) (fst f) (snd f)) (snd v).

Definition finish (symb : list N -> list frame) (child : N) (v : option (N * list (N * bool))) : result bytes :=
  match v with
  | None => Err
  | Some v => Ok (name_of_pcs symb (finish_pcs child v))
  end.

Definition is_err {A} (r : result A) : bool := match r with Err => true | Ok _ => false end.

(* a line as the parser can see it (used by the text-level non-interference theorem) *)
Definition line_class (l : bytes) : bool * option N * bool * bool * option bool * option N :=
  (has_prefix l lit_sentinel_sp, scan_sentinel l, is_header l, is_terminator l,
   option_map is_sigpanic (get_symbol l), get_pc l).
