(* Model/FileFault: the file-system calls made while a counter file is opened
   (rotate1: weekEnd, MkdirAll, openMapped with its initialisation of a short
   file and mmap) and extended (extend: Stat, WriteAt, openMapped), as
   functions from a FAULT PLAN to an outcome.  A plan maps the index of a
   call (in program order) to ok / error / short write; the error kinds
   ENOENT, EACCES, ENOSPC, EIO all take the same branch of the code (err !=
   nil), so the model has one error kind.  internal/counter/file.go: weekEnd,
   counterSpan, rotate1, openMapped, extend; internal/mmap/mmap_unix.go.

   Executable definitions only. *)
From Coq Require Import List NArith Bool.
From Tele Require Import Gen.Consts Lib.Bytes.
Import ListNotations.
Open Scope N_scope.

Inductive fk := KOk | KErr | KShort.
Definition plan := nat -> fk.

(* does the call at index i fail?  a short write is a failure of a write
   (with a partial effect) and no fault for any other call *)
Definition fails (p : plan) (i : nat) (is_write : bool) : bool :=
  match p i with KOk => false | KErr => true | KShort => is_write end.

(* the counter file found on disk *)
Inductive cfile := CAbsent | CShort | CValid | CBadHdr.
(* absent / shorter than minFileLen (any content) / at least minFileLen with
   the expected header / at least minFileLen with another header *)

Record fsys := mkFS { fs_week : option bytes; fs_file : cfile }.

Inductive outcome := Mapped | Parked | Panic.

(* weekEnd: (ok?, next call index, file system) *)
(* same_day: the day drawn for a re-created weekends file is the one an existing
   counter file was made with; otherwise that file's header (TimeEnd) no longer matches *)
Definition redraw (same_day : bool) (c : cfile) : cfile :=
  if same_day then c else match c with CValid => CBadHdr | x => x end.

Definition week_end (p : plan) (day : N) (same_day : bool) (i : nat) (fs : fsys) : (outcome * nat * fsys) :=
  (* first ReadFile *)
  let err1 := fails p i false || match fs_week fs with None => true | Some _ => false end in
  let '(ok, i, fs) :=
    if err1 then
      if fails p (i + 1) false then (false, (i + 2)%nat, fs)                          (* MkdirAll *)
      else match p (i + 2)%nat with                                               (* WriteFile(day "\n") *)
           | KErr => (false, (i + 3)%nat, fs)
           | KShort => (false, (i + 3)%nat, mkFS (Some [day]) (redraw same_day (fs_file fs)))         (* half of the two bytes *)
           | KOk => (true, (i + 3)%nat, mkFS (Some [day; 10]) (redraw same_day (fs_file fs)))
           end
    else (true, (i + 1)%nat, fs) in
  if negb ok then (Parked, i, fs)
  else
    (* second ReadFile *)
    if fails p i false then (Parked, (i + 1)%nat, fs)
    else match fs_week fs with
         | None => (Parked, (i + 1)%nat, fs)
         | Some content =>
             let buf := trim_space content in
             if N.of_nat (length buf) =? 0 then (Parked, (i + 1)%nat, fs)          (* "empty weekends file" *)
             else match buf with
                  | [] => (Panic, (i + 1)%nat, fs)                                (* buf[0] *)
                  | _ :: _ => (Mapped, (i + 1)%nat, fs)                           (* a weekday; go on *)
                  end
         end.

(* openMapped *)
Definition open_mapped (p : plan) (i : nat) (fs : fsys) : (outcome * nat * fsys) :=
  if fails p i false then (Parked, (i + 1)%nat, fs)                                 (* OpenFile *)
  else
    (* O_CREATE *)
    let fs := match fs_file fs with CAbsent => mkFS (fs_week fs) CShort | _ => fs end in
    if fails p (i + 1) false then (Parked, (i + 2)%nat, fs)                         (* Stat *)
    else
      let '(ok, i, fs) :=
        match fs_file fs with
        | CShort =>
            if fails p (i + 2) true then (false, (i + 3)%nat, fs)                   (* WriteAt(hdr, 0) *)
            else if fails p (i + 3) true then (false, (i + 4)%nat, fs)              (* WriteAt(zero, minFileLen-4) *)
            else if fails p (i + 4) false then (false, (i + 5)%nat, mkFS (fs_week fs) CValid)   (* Stat *)
            else (true, (i + 5)%nat, mkFS (fs_week fs) CValid)
        | _ => (true, (i + 2)%nat, fs)
        end in
      if negb ok then (Parked, i, fs)
      else if fails p i false then (Parked, (i + 1)%nat, fs)                        (* mmap *)
      else if fails p (i + 1) false then (Parked, (i + 2)%nat, fs)                  (* Stat inside mmapFile *)
      else match fs_file fs with
           | CBadHdr => (Parked, (i + 2)%nat, fs)                                   (* header mismatch *)
           | _ => (Mapped, (i + 2)%nat, fs)
           end.

(* telemetry.Dir.Mode (internal/telemetry/dir.go): no mode file = "local"; else the
   content, white space trimmed, up to its first space (a date may follow) *)
Fixpoint before_space (s : bytes) : bytes :=
  match s with
  | [] => []
  | c :: tl => if c =? 32 then [] else c :: before_space tl
  end.
Definition mode_of (content : option bytes) : bytes :=
  match content with
  | None => [108; 111; 99; 97; 108]                       (* "local" *)
  | Some d => before_space (trim_space d)
  end.
Definition mode_off (content : option bytes) : bool := beq (mode_of content) [111; 102; 102].   (* "off" *)

(* rotate1 on a file that is not open yet; mode = content of the mode file (read with
   the plain os package: not a fault point).  Mode "off" parks without any call *)
Definition rotate1 (p : plan) (day : N) (same_day : bool) (mode : option bytes) (fs : fsys) : (outcome * nat * fsys) :=
  if mode_off mode then (Parked, 0%nat, fs) else
  match week_end p day same_day 0 fs with
  | (Mapped, i, fs) =>
      if fails p i false then (Parked, (i + 1)%nat, fs)                             (* MkdirAll(dir) *)
      else open_mapped p (i + 1) fs
  | r => r
  end.

(* extend(end) of a mapped file that is too short: true = a longer mapping *)
Definition extend (p : plan) (i : nat) : (bool * nat) :=
  if fails p i false then (false, (i + 1)%nat)                                      (* Stat *)
  else if fails p (i + 1) true then (false, (i + 2)%nat)                            (* WriteAt(zero, end-4) *)
  else if fails p (i + 2) false then (false, (i + 3)%nat)                           (* OpenFile *)
  else if fails p (i + 3) false then (false, (i + 4)%nat)                           (* Stat *)
  else if fails p (i + 4) false then (false, (i + 5)%nat)                           (* mmap *)
  else if fails p (i + 5) false then (false, (i + 6)%nat)                           (* Stat inside mmapFile *)
  else (true, (i + 6)%nat).

(* the scenario of the harness: open, then counters that fit the first page,
   then one whose record needs a second page: (parked after open, calls made
   by the open, extension succeeded, calls in total) *)
Definition scenario (p : plan) (day : N) (same_day : bool) (mode : option bytes) (fs : fsys) : (outcome * nat * bool * nat) :=
  let '(o, i, _) := rotate1 p day same_day mode fs in
  match o with
  | Mapped => let '(ok, j) := extend p i in (o, i, ok, j)
  | _ => (o, i, false, i)
  end.
