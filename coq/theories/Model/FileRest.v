(* Model/FileRest: ONE process working on a counter file found at rest in an
   ARBITRARY state: the file is any length and any bytes.  Byte-level model
   of mappedFile.load32 / entryAt / lookup / newCounter (with place, extend,
   writeEntryAt, the link) and Counter.add (internal/counter/file.go,
   counter.go), with the 32-bit wrap-around of the Go arithmetic.

   Every memory access that the Go code performs without a test of its own
   is guarded here: if it would leave the mapping the model returns a *Fault
   outcome (in Go: panic or memory fault).  Every loop runs on fuel and
   returns a *Fuel outcome on exhaustion (in Go: a hang).  The theorems
   (Proofs/FileRestFacts.v) show which of these outcomes are unreachable.

   Executable definitions only. *)
From Coq Require Import List NArith Bool.
From Tele Require Import Gen.Consts.
Import ListNotations.
Open Scope N_scope.

Record bfile := mkB { b_len : N; b_at : N -> N }.   (* length, byte at offset *)

Definition R32 : N := 4294967296.
Definition RMAX64 : N := 18446744073709551615.
Definition RPAGE : N := c_pageSize.
Definition RUNIT : N := c_recordUnit.

Definition rd32 (f : bfile) (o : N) : N :=
  b_at f o + 256 * b_at f (o + 1) + 65536 * b_at f (o + 2) + 16777216 * b_at f (o + 3).
Definition rd64 (f : bfile) (o : N) : N := rd32 f o + R32 * rd32 f (o + 4).

Definition byte_of (v k : N) : N := (v / 256 ^ k) mod 256.
(* write n bytes g(0..n-1) at offset o *)
Definition wr (f : bfile) (o n : N) (g : N -> N) : bfile :=
  mkB (b_len f) (fun x => if (o <=? x) && (x <? o + n) then g (x - o) else b_at f x).
Definition wr32 (f : bfile) (o v : N) : bfile := wr f o 4 (byte_of v).
Definition wr64 (f : bfile) (o v : N) : bfile := wr f o 8 (byte_of v).
Definition wr_bytes (f : bfile) (o : N) (l : list N) : bfile :=
  wr f o (N.of_nat (length l)) (fun k => nth (N.to_nat k) l 0).
(* f.WriteAt(4 zero bytes, e-4) on a file shorter than e: the file becomes e
   bytes long, the new bytes (and the four written ones) are zero *)
Definition grow (f : bfile) (e : N) : bfile :=
  mkB e (fun x => if (b_len f <=? x) || (e - 4 <=? x) then 0 else b_at f x).

(* hash(name): FNV-1a folded to numHash buckets *)
Definition fnv (name : list N) : N :=
  let h := fold_left (fun h c => N.land (N.lxor h c * c_fnv_prime32) 4294967295) name c_fnv_offset32 in   (* uint32 *)
  (N.lxor h (N.shiftr h 16)) mod c_numHash.

(* round(x, unit) on uint32 *)
Definition round32 (x u : N) : N := ((x + u - 1) mod R32) / u * u.

Definition table_end (H : N) : N := H + c_hashOff + 4 * c_numHash.

(* mappedFile.place on uint32 *)
Definition place32 (H limit nlen : N) : N * N :=
  let limit := if limit =? 0 then table_end H mod R32 else limit in
  let n := round32 (16 + nlen) RUNIT in
  let start := round32 limit RUNIT in
  let start := if start / RPAGE =? ((start + n) mod R32) / RPAGE then start else round32 limit RPAGE in
  (start, (start + n) mod R32).

(* mappedFile.load32 (after fix 219cb21: 0 unless all four bytes are inside
   the mapping; None would be a read that leaves the mapping: no longer possible) *)
Definition load32 (f : bfile) (o : N) : option N :=
  if b_len f <? o + 4 then Some 0 else Some (rd32 f o).

(* mappedFile.entryAt *)
Inductive eres := EOk (namelen next : N) | EBad | EFault.
Definition entry_at (f : bfile) (H off : N) : eres :=
  if (off <? H + c_hashOff) || negb (off mod 8 =? 0) || (b_len f <? off + 16) then EBad   (* alignment: fix a01a83c *)
  else match load32 f (off + 8) with
       | None => EFault
       | Some w =>
           let nl := w mod 16777216 in
           if (nl =? 0) || (b_len f <? off + 16 + nl) then EBad
           else match load32 f (off + 12) with
                | None => EFault
                | Some nx => EOk nl nx
                end
       end.

Fixpoint bytes_eqb (f : bfile) (o : N) (name : list N) : bool :=
  match name with
  | [] => true
  | c :: tl => (b_at f o =? c) && bytes_eqb f (o + 1) tl
  end.
(* string(ename) == name *)
Definition name_eqb (f : bfile) (off nl : N) (name : list N) : bool :=
  (nl =? N.of_nat (length name)) && bytes_eqb f (off + 16) name.

(* mappedFile.lookup *)
Inductive lres := LFound (off : N) | LNotFound (head : N) | LBad | LFault | LFuel.

(* the loop of lookup; bounded = with the walk bound of fix a9b3f3d *)
Fixpoint walk (bounded : bool) (fuel : nat) (f : bfile) (H : N) (name : list N) (head off n : N) : lres :=
  match fuel with
  | O => LFuel
  | S k =>
      if off =? 0 then LNotFound head
      else if bounded && (b_len f / RUNIT <? n) then LBad
      else match entry_at f H off with
           | EBad => LBad
           | EFault => LFault
           | EOk nl nx => if name_eqb f off nl name then LFound off
                          else walk bounded k f H name head nx (n + 1)
           end
  end.

Definition head_off (H : N) (name : list N) : N := H + c_hashOff + 4 * fnv name.
Definition walk_fuel (f : bfile) : nat := N.to_nat (b_len f / RUNIT) + 3.

Definition lookup_gen (bounded : bool) (fuel : nat) (f : bfile) (H : N) (name : list N) : lres :=
  match load32 f (head_off H name) with
  | None => LFault
  | Some head => walk bounded fuel f H name head head 0
  end.
Definition lookup (f : bfile) (H : N) (name : list N) : lres := lookup_gen true (walk_fuel f) f H name.

(* mappedFile.newCounter, one process, the mapping is the whole file.
   table_bound = with the bound of fix 69df376 in writeEntryAt *)
Inductive rerr := REmpty | RTooLong | RCorrupt.
Inductive nres := NCell (off : N) | NErr (e : rerr) | NFault | NFuel.

Definition write_entry (table_bound : bool) (f : bfile) (H start : N) (name : list N) : option bfile :=
  let low := if table_bound then table_end H else H + c_hashOff in
  if (start <? low) || (b_len f <? start + 16 + N.of_nat (length name)) then None
  else Some (wr32 (wr_bytes f (start + 16) name) (start + 8) (N.of_nat (length name) + 4278190080)).

(* the limit CAS (nobody else is there), writeEntryAt, next.Store(head), the head CAS *)
Definition commit (table_bound : bool) (f : bfile) (H : N) (name : list N) (head start e : N) : nres * bfile :=
  if b_len f <? H + c_limitOff + 4 then (NFault, f) else
  let f1 := wr32 f (H + c_limitOff) e in
  match write_entry table_bound f1 H start name with
  | None => (NErr RCorrupt, f1)
  | Some f2 =>
      let f3 := wr32 f2 (start + 12) head in
      match load32 f3 (head_off H name) with
      | None => (NFault, f3)
      | Some h => if h =? head then (NCell start, wr32 f3 (head_off H name) start)
                  else (NFault, f3)                        (* cannot fail alone *)
      end
  end.

(* the reservation loop with extend *)
Fixpoint reserve (table_bound : bool) (fuel : nat) (f : bfile) (H : N) (name : list N) (head : N) : nres * bfile :=
  match fuel with
  | O => (NFuel, f)
  | S k =>
      match load32 f (H + c_limitOff) with
      | None => (NFault, f)
      | Some limit =>
          let '(start, e) := place32 H limit (N.of_nat (length name)) in
          (* fix 633eed3: the record or its page would end beyond 4 GiB (uint32 overflow) *)
          if (start <? limit) || (e <? start) || (round32 e RPAGE <? e) then (NErr RCorrupt, f) else
          if b_len f <? e then
            (* extend(end) *)
            let e' := round32 e RPAGE in
            let f' := if b_len f <? e' then grow f e' else f in
            if b_len f' <? e' then (NErr RCorrupt, f') else reserve table_bound k f' H name head
          else commit table_bound f H name head start e
      end
  end.

Definition new_counter_gen (walk_bound table_bound : bool) (wfuel rfuel : nat)
           (f : bfile) (H : N) (name : list N) : nres * bfile :=
  if N.of_nat (length name) =? 0 then (NErr REmpty, f)
  else if c_maxNameLen <? N.of_nat (length name) then (NErr RTooLong, f)
  else match lookup_gen walk_bound wfuel f H name with
       | LFound off => (NCell off, f)
       | LBad => (NErr RCorrupt, f)      (* the remap loop maps the same length again: errCorrupt *)
       | LFault => (NFault, f)
       | LFuel => (NFuel, f)
       | LNotFound head => reserve table_bound rfuel f H name head
       end.
Definition new_counter (f : bfile) (H : N) (name : list N) : nres * bfile :=
  new_counter_gen true true (walk_fuel f) 3 f H name.

(* Counter.add on the cell *)
Definition add_cell (f : bfile) (cell k : N) : option bfile :=
  if b_len f <? cell + 8 then None
  else Some (wr64 f cell (N.min (rd64 f cell + k) RMAX64)).
