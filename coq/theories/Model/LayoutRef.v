(* Model/LayoutRef: the textbook FNV-1a 32-bit hash with its published
   constants written as literals (offset basis 0x811c9dc5, prime 0x01000193),
   independent of the constants translated from the source; followed by the
   fold of the format.  Used as the executable oracle for hash values observed
   on the implementation and as the right-hand side of hash_is_fnv1a. *)
From Coq Require Import List NArith.
From Tele Require Import Lib.Bytes.
Import ListNotations.
Open Scope N_scope.

Fixpoint fnv1a_ref_from (h : N) (name : bytes) : N :=
  match name with
  | [] => h
  | c :: t => fnv1a_ref_from ((16777619 * N.lxor h c) mod 4294967296) t
  end.
Definition fnv1a_ref (name : bytes) : N := fnv1a_ref_from 2166136261 name.
Definition hash_ref (name : bytes) : N :=
  let h := fnv1a_ref name in N.lxor h (N.shiftr h 16) mod 512.
