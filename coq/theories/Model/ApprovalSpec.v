(* Model/ApprovalSpec: the DOCUMENTED meaning of an upload configuration,
   computed directly on the UploadConfig lists (no lookup tables): which
   program builds, counters and stack counters it approves, and with which
   configured rates.  This is the specification side that the uploader's
   filter (Model/Report), the server's validate and the viewer
   (Model/Approval) are compared with.  Executable definitions only. *)
From Coq Require Import List NArith Bool.
From Tele Require Import Lib.Bytes Lib.Str Model.Config.
Import ListNotations.
Open Scope N_scope.

(* a program build: Program, Version, GoVersion, GOOS, GOARCH *)
Record ident := mkId {
  id_program : bytes; id_version : bytes; id_goversion : bytes;
  id_goos : bytes; id_goarch : bytes }.

Definition ident_eqb (a b : ident) : bool :=
  beq (id_program a) (id_program b) && beq (id_version a) (id_version b) &&
  beq (id_goversion a) (id_goversion b) && beq (id_goos a) (id_goos b) &&
  beq (id_goarch a) (id_goarch b).

(* "names only programs whose package path, version and Go version [and
   GOOS, GOARCH] are listed in the upload configuration" *)
Definition lists_version (prog ver : bytes) (p : program_cfg) : bool :=
  beq (pc_name p) prog && memb ver (pc_versions p).
Definition approved_buildb (u : upload_cfg) (i : ident) : bool :=
  memb (id_goos i) (uc_goos u) && memb (id_goarch i) (uc_goarch u) &&
  memb (id_goversion i) (uc_goversion u) &&
  existsb (lists_version (id_program i) (id_version i)) (uc_programs u).

(* the rates of every configured counter of a program entry named prog whose
   bucket expansion contains k *)
Definition counter_rates (u : upload_cfg) (prog k : bytes) : list N :=
  flat_map (fun p => if beq (pc_name p) prog
                     then flat_map (fun c => if memb k (expand (cc_name c)) then [cc_rate c] else [])
                                   (pc_counters p)
                     else []) (uc_programs u).
(* the rates of every configured stack counter named `name` of a program entry named prog *)
Definition stack_rates (u : upload_cfg) (prog name : bytes) : list N :=
  flat_map (fun p => if beq (pc_name p) prog
                     then flat_map (fun s => if beq (cc_name s) name then [cc_rate s] else [])
                                   (pc_stacks p)
                     else []) (uc_programs u).

Definition nonempty {A} (l : list A) : bool := match l with [] => false | _ => true end.

Definition approved_counterb (u : upload_cfg) (prog k : bytes) : bool :=
  nonempty (counter_rates u prog k).
(* a stack counter "name\nframes" is matched by the text before the first newline *)
Definition stack_title (k : bytes) : bytes := before_byte k ch_newline.
Definition approved_stackb (u : upload_cfg) (prog k : bytes) : bool :=
  nonempty (stack_rates u prog (stack_title k)).

(* a counter name is a stack counter iff it contains a newline (counter.IsStackCounter) *)
Definition is_stack (k : bytes) : bool := has_byte k ch_newline.

(* every rate configured under (prog, name), as a counter expansion or as a stack *)
Definition all_rates (u : upload_cfg) (prog name : bytes) : list N :=
  counter_rates u prog name ++ stack_rates u prog name.

(* class predicate of known finding 13: the same (program, name) is configured
   with two different rates (the code keeps one number per (program, name)) *)
Definition rates_agree (l : list N) : bool :=
  match l with [] => true | r :: l' => forallb (N.eqb r) l' end.
Definition name_unambiguousb (u : upload_cfg) (prog name : bytes) : bool :=
  rates_agree (all_rates u prog name).
