(* Model/Start: telemetry.Start (start.go): the dispatch on the child marker,
   the parent's tests before it forks the sidecar, the sidecar's own order of
   effects, the processes that get started (transitively), and the upload
   token as a small concurrent program.  Executable definitions only. *)
From Coq Require Import List ZArith NArith Bool String.
From Tele Require Import Lib.Bytes Lib.Sched Gen.Consts.
Import ListNotations.
Open Scope Z_scope.

Definition lit_off : bytes := Eval vm_compute in s2b "off".
Definition lit_on : bytes := Eval vm_compute in s2b "on".
Definition lit_1 : bytes := Eval vm_compute in s2b "1".
Definition lit_2 : bytes := Eval vm_compute in s2b "2".

(* ------------------------------------------------------ upload token *)

(* acquireUploadToken, one atomic step per file-system call:
     PStat    fi, err := os.Stat(tokenfile)
     PRemove  os.Remove(tokenfile)          (only after a stale Stat)
     PCreate  os.OpenFile(tokenfile, O_CREATE|O_EXCL)
     PDone b  returned b *)
Inductive pc := PStat | PRemove | PCreate | PDone (won : bool).

(* the shared state: the clock (ns), the token file (absent, or present with
   its modification time), one program counter per starter *)
Record tstate := mkT { t_now : Z; t_token : option Z; t_pcs : list pc }.

(* a schedule interleaves time passing and single steps of starters *)
Inductive action := Tick (d : Z) | Step (tid : nat).

(* time.Since(fi.ModTime()) < period *)
Definition token_fresh (period now mtime : Z) : bool := now - mtime <? period.

Definition set_pc (st : tstate) (i : nat) (p : pc) : tstate :=
  mkT (t_now st) (t_token st) (upd i p (t_pcs st)).

Definition tstep (period : Z) (st : tstate) (a : action) : tstate :=
  match a with
  | Tick d => mkT (t_now st + Z.max 0 d) (t_token st) (t_pcs st)
  | Step i =>
      match nth_error (t_pcs st) i with
      | None => st
      | Some PStat =>
          match t_token st with
          | None => set_pc st i PCreate                      (* IsNotExist: go on to create *)
          | Some m => if token_fresh period (t_now st) m
                      then set_pc st i (PDone false)         (* young token: not acquired *)
                      else set_pc st i PRemove
          end
      | Some PRemove => mkT (t_now st) None (upd i PCreate (t_pcs st))   (* error ignored *)
      | Some PCreate =>
          match t_token st with
          | None => mkT (t_now st) (Some (t_now st)) (upd i (PDone true) (t_pcs st))
          | Some _ => set_pc st i (PDone false)              (* IsExist *)
          end
      | Some (PDone _) => st
      end
  end.

Definition trun (period : Z) (sched : list action) (st : tstate) : tstate :=
  run (tstep period) sched st.

Definition tinit (n : nat) (now : Z) (tok : option Z) : tstate := mkT now tok (repeat PStat n).

Definition is_winner (p : pc) : bool := match p with PDone true => true | _ => false end.
Definition is_removing (p : pc) : bool := match p with PRemove => true | _ => false end.
Definition winners (st : tstate) : nat := count is_winner (t_pcs st).

Fixpoint ticks (sched : list action) : Z :=
  match sched with
  | [] => 0
  | Tick d :: r => Z.max 0 d + ticks r
  | Step _ :: r => ticks r
  end.

(* one starter alone: Stat; [Remove;] Create *)
Definition acquire_seq (period now : Z) (tok : option Z) : bool * option Z :=
  let st := trun period [Step 0%nat; Step 0%nat; Step 0%nat] (tinit 1 now tok) in
  (match t_pcs st with [PDone b] => b | _ => false end, t_token st).

(* the file-system calls it makes, in order *)
Inductive effect :=
| EReadMode                       (* telemetry.Default.Mode() *)
| EOpenCounters                   (* counter.Open(): creates local/, weekends, the counter file *)
| EStatLocal
| ETokenStat | ETokenRemove | ETokenCreate (ok : bool)
| EExec (crash upload : bool)     (* startChild: exec self with GO_TELEMETRY_CHILD=1 [+ _UPLOAD=1] *)
| ESetMarker2                     (* os.Setenv(GO_TELEMETRY_CHILD, "2") *)
| ECrashChild                     (* crashmonitor.Child() *)
| EUploadRun                      (* upload.Run: in mode "on" runs the go command to download the config *)
| EExit (code : N).

Definition token_effects (period now : Z) (tok : option Z) : list effect :=
  match tok with
  | None => [ETokenStat; ETokenCreate true]
  | Some m => if token_fresh period now m then [ETokenStat]
              else [ETokenStat; ETokenRemove; ETokenCreate true]
  end.

(* ------------------------------------------------------ Start *)

Inductive outcome :=
| OReturned        (* Start returned to the application *)
| OChildExit       (* this process was the sidecar: Start never returns, os.Exit(0) *)
| OFatal.          (* log.Fatalf: unexpected marker value *)

Record cfg := mkCfg { c_crash : bool; c_upload : bool }.

Record result := mkR { r_outcome : outcome; r_effects : list effect; r_token : option Z }.

(* parent(config) *)
Definition parent_run (c : cfg) (mode : bytes) (localdir_ok : bool) (period now : Z) (tok : option Z) : result :=
  if beq mode lit_off then mkR OReturned [EReadMode] tok
  else if negb localdir_ok then mkR OReturned [EReadMode; EOpenCounters; EStatLocal] tok
  else
    (* childShouldUpload := config.Upload && acquireUploadToken()   (short circuit) *)
    let '(acq, tok', teffs) :=
      if c_upload c then (fst (acquire_seq period now tok), snd (acquire_seq period now tok),
                          token_effects period now tok)
      else (false, tok, []) in
    let up := c_upload c && acq in
    mkR OReturned
        ([EReadMode; EOpenCounters; EStatLocal] ++ teffs
         ++ (if c_crash c || up then [EExec (c_crash c) up] else []))
        tok'.

(* child(config); upload_var is os.Getenv(telemetryUploadVar) == "1".  The
   crash monitor and the uploader run as two goroutines; listed in program
   order. *)
Definition child_run (c : cfg) (upload_var : bool) (tok : option Z) : result :=
  mkR OChildExit
      ([ESetMarker2; EOpenCounters]
       ++ (if c_crash c then [ECrashChild] else [])
       ++ (if upload_var then [EUploadRun] else [])
       ++ [EExit 0%N])
      tok.

(* Start(config): switch on os.Getenv(telemetryChildVar) *)
Definition start_run (marker : bytes) (upload_var : bool) (c : cfg) (mode : bytes) (localdir_ok : bool)
           (period now : Z) (tok : option Z) : result :=
  if beq marker [] then parent_run c mode localdir_ok period now tok
  else if beq marker lit_1 then child_run c upload_var tok
  else if beq marker lit_2 then mkR OReturned [] tok
  else mkR OFatal [EExit 1%N] tok.

Definition is_exec (e : effect) : bool := match e with EExec _ _ => true | _ => false end.
Definition is_write (e : effect) : bool :=
  match e with
  | EOpenCounters | ETokenRemove | ETokenCreate _ | EExec _ _ | ECrashChild | EUploadRun => true
  | _ => false
  end.

(* ------------------------------------------------------ process tree *)

(* the processes started, transitively, by a process that calls Start:
   KSidecar: the re-executed application (EExec); KDelegated: a program the
   sidecar's uploader runs (the go command), which itself calls Start with
   uploading and crash reporting enabled.  Each record carries the marker and
   upload variable the new process finds in its environment. *)
Inductive pkind := KSidecar | KDelegated.
Record proc := mkProc { p_kind : pkind; p_marker : bytes; p_upload : bool }.

Definition go_cfg : cfg := mkCfg true true.

Fixpoint spawned (fuel : nat) (marker : bytes) (upload_var : bool) (c : cfg) (mode : bytes)
         (localdir_ok : bool) (period now : Z) (tok : option Z) : list proc :=
  match fuel with
  | O => []
  | S f =>
      let r := start_run marker upload_var c mode localdir_ok period now tok in
      (fix walk (cur : bytes) (effs : list effect) : list proc :=
         match effs with
         | [] => []
         | ESetMarker2 :: rest => walk lit_2 rest
         | EExec _ up :: rest =>
             (* cmd.Env = os.Environ() + CHILD=1 [+ UPLOAD=1]: an upload variable
                already in the environment is inherited *)
             let uv := up || upload_var in
             mkProc KSidecar lit_1 uv
               :: spawned f lit_1 uv c mode localdir_ok period now (r_token r) ++ walk cur rest
         | EUploadRun :: rest =>
             (if beq mode lit_on
              then mkProc KDelegated cur upload_var
                     :: spawned f cur upload_var go_cfg mode true period now (r_token r)
              else [])
             ++ walk cur rest
         | _ :: rest => walk cur rest
         end) marker (r_effects r)
  end.

(* ------------------------------------------------------ entry points *)

(* A program reaches child() in one of two ways: by calling Start first thing
   (EntryStart), or - the documented pattern for programs that cannot, which is
   what cmd/go does - by calling MaybeChild first and Start later
   (EntryMaybeChild).  MaybeChild(config) runs child(config) when the marker is
   "1" and does nothing otherwise; the later Start then sees the same marker. *)
Inductive entry := EntryStart | EntryMaybeChild.

Definition maybe_child_run (marker : bytes) (upload_var : bool) (c : cfg) (tok : option Z) : option result :=
  if beq marker lit_1 then Some (child_run c upload_var tok) else None.

Definition program_run (e : entry) (marker : bytes) (upload_var : bool) (c : cfg) (mode : bytes)
           (localdir_ok : bool) (period now : Z) (tok : option Z) : result :=
  match e with
  | EntryStart => start_run marker upload_var c mode localdir_ok period now tok
  | EntryMaybeChild =>
      match maybe_child_run marker upload_var c tok with
      | Some r => r                 (* child never returns *)
      | None => start_run marker upload_var c mode localdir_ok period now tok
      end
  end.

(* the marker a program started after these effects finds in its environment *)
Fixpoint env_marker_after (marker : bytes) (effs : list effect) : bytes :=
  match effs with
  | [] => marker
  | ESetMarker2 :: rest => env_marker_after lit_2 rest
  | _ :: rest => env_marker_after marker rest
  end.

(* the delegated go command follows the MaybeChild-then-Start pattern *)
Definition go_entry : entry := EntryMaybeChild.

(* `spawned` for a program with entry pattern e (its sidecar is the same
   program re-executed, hence the same pattern) *)
Fixpoint spawned_e (fuel : nat) (e : entry) (marker : bytes) (upload_var : bool) (c : cfg) (mode : bytes)
         (localdir_ok : bool) (period now : Z) (tok : option Z) : list proc :=
  match fuel with
  | O => []
  | S f =>
      let r := program_run e marker upload_var c mode localdir_ok period now tok in
      (fix walk (cur : bytes) (effs : list effect) : list proc :=
         match effs with
         | [] => []
         | ESetMarker2 :: rest => walk lit_2 rest
         | EExec _ up :: rest =>
             let uv := up || upload_var in
             mkProc KSidecar lit_1 uv
               :: spawned_e f e lit_1 uv c mode localdir_ok period now (r_token r) ++ walk cur rest
         | EUploadRun :: rest =>
             (if beq mode lit_on
              then mkProc KDelegated cur upload_var
                     :: spawned_e f go_entry cur upload_var go_cfg mode true period now (r_token r)
              else [])
             ++ walk cur rest
         | _ :: rest => walk cur rest
         end) marker (r_effects r)
  end.

(* ------------------------------------------------------ which directory *)

(* telemetry.Default is Config.TelemetryDir when the configuration names one,
   else the directory below os.UserConfigDir() found at init time, else - no
   user configuration directory - the zero Dir, whose Mode() is "off" whatever
   files exist anywhere: `dir_known` is the first two cases.  `mode` is what
   Dir.Mode reads from the directory when there is one. *)
Definition dir_known (cfg_names_dir user_config_dir : bool) : bool := cfg_names_dir || user_config_dir.

Definition effective_mode (known : bool) (mode : bytes) : bytes := if known then mode else lit_off.

Definition program_run_env (e : entry) (cfg_names_dir user_config_dir : bool) (marker : bytes) (upload_var : bool)
           (c : cfg) (mode : bytes) (localdir_ok : bool) (period now : Z) (tok : option Z) : result :=
  program_run e marker upload_var c (effective_mode (dir_known cfg_names_dir user_config_dir) mode)
              localdir_ok period now tok.

Definition spawned_env (fuel : nat) (e : entry) (cfg_names_dir user_config_dir : bool) (marker : bytes)
           (upload_var : bool) (c : cfg) (mode : bytes) (localdir_ok : bool) (period now : Z) (tok : option Z) : list proc :=
  spawned_e fuel e marker upload_var c (effective_mode (dir_known cfg_names_dir user_config_dir) mode)
            localdir_ok period now tok.

(* ------------------------------------------------------ the mode file *)

Definition lit_local : bytes := Eval vm_compute in s2b "local".

(* Dir.Mode on the file's bytes: TrimSpace of the whole content, then the part
   before the first ' ' (the date after it does not matter here).  A missing or
   unreadable file (None) reads as "local". *)
Definition mode_of_bytes (data : bytes) : bytes :=
  let m := trim_space data in
  match index_byte m 32%N with
  | Some i => firstn i m
  | None => m
  end.

Definition mode_of_file (file : option bytes) : bytes :=
  match file with Some d => mode_of_bytes d | None => lit_local end.

(* Start with the mode FILE as input (what a user or an older tool wrote, not
   only what SetMode writes) *)
Definition program_run_file (e : entry) (cfg_names_dir user_config_dir : bool) (marker : bytes) (upload_var : bool)
           (c : cfg) (file : option bytes) (localdir_ok : bool) (period now : Z) (tok : option Z) : result :=
  program_run_env e cfg_names_dir user_config_dir marker upload_var c (mode_of_file file) localdir_ok period now tok.

Definition spawned_file (fuel : nat) (e : entry) (cfg_names_dir user_config_dir : bool) (marker : bytes)
           (upload_var : bool) (c : cfg) (file : option bytes) (localdir_ok : bool) (period now : Z) (tok : option Z) : list proc :=
  spawned_env fuel e cfg_names_dir user_config_dir marker upload_var c (mode_of_file file) localdir_ok period now tok.

(* hand-written ways of saying "off" *)
Definition off_spellings : list bytes :=
  Eval vm_compute in
  [ s2b "off"; s2b "off" ++ [10%N]; s2b "off" ++ [13%N; 10%N]; s2b "off  "; s2b " off"; [9%N] ++ s2b "off" ++ [10%N];
    s2b "off 2024-01-05"; s2b "off 2024-01-05" ++ [10%N]; s2b "off 2024-01-05" ++ [13%N; 10%N]; s2b "off garbage";
    s2b "off  2024-01-05"; s2b "off" ++ [0xC2%N; 0xA0%N]; [10%N; 10%N] ++ s2b "off" ++ [10%N; 10%N] ].

(* ------------------------------------------------------ Config.UploadStartTime *)

(* Config.UploadStartTime is the uploader's simulated "now" (which weeks it
   considers finished).  It is NOT an input of the launch decision: the token's
   age is time.Since(mtime), on the real clock that also stamped the mtime. *)
Definition program_run_cfg (e : entry) (cfg_names_dir user_config_dir : bool) (marker : bytes) (upload_var : bool)
           (c : cfg) (upload_start : option Z) (file : option bytes) (localdir_ok : bool)
           (period now : Z) (tok : option Z) : result :=
  program_run_file e cfg_names_dir user_config_dir marker upload_var c file localdir_ok period now tok.

Definition spawned_cfg (fuel : nat) (e : entry) (cfg_names_dir user_config_dir : bool) (marker : bytes)
           (upload_var : bool) (c : cfg) (upload_start : option Z) (file : option bytes) (localdir_ok : bool)
           (period now : Z) (tok : option Z) : list proc :=
  spawned_file fuel e cfg_names_dir user_config_dir marker upload_var c file localdir_ok period now tok.

(* ------------------------------------------------------ histories of starts *)

(* a history of starts, one after the other, at real times `fst`, each with its
   own UploadStartTime `snd`: who acquires the token, and the token afterwards *)
Fixpoint history_run (period : Z) (starts : list (Z * option Z)) (tok : option Z) : list bool * option Z :=
  match starts with
  | [] => ([], tok)
  | (t, _) :: rest =>
      let r := acquire_seq period t tok in
      let h := history_run period rest (snd r) in
      (fst r :: fst h, snd h)
  end.

(* the rate limit on an observed history: every acquisition is at least a
   period after the previous one (`last`: the token's time before the history) *)
Fixpoint history_spaced (period : Z) (last : option Z) (evs : list (Z * bool)) : bool :=
  match evs with
  | [] => true
  | (t, true) :: rest =>
      (match last with None => true | Some m => period <=? t - m end) && history_spaced period (Some t) rest
  | (_, false) :: rest => history_spaced period last rest
  end.

Definition is_sidecar (p : proc) : bool := match p_kind p with KSidecar => true | _ => false end.

(* ------------------------------------------------------ oracles *)

(* the property on one observed start: top-level inputs, the observed process
   records, whether the token was (re)created, whether anything in the
   telemetry directory changed *)
Definition token_state_allows (period now : Z) (tok : option Z) : bool :=
  match tok with None => true | Some m => negb (token_fresh period now m) end.

Definition launch_ok (marker : bytes) (upload_var : bool) (c : cfg) (mode : bytes)
           (period now : Z) (tok : option Z) (token_created : bool) (p : proc) : bool :=
  match p_kind p with
  | KSidecar =>
      beq marker [] && negb (beq mode lit_off) && beq (p_marker p) lit_1
      && (c_crash c || p_upload p)
      && (if p_upload p && negb upload_var
          then c_upload c && token_state_allows period now tok && token_created
          else true)
  | KDelegated => beq (p_marker p) lit_2
  end.

Definition start_ok (marker : bytes) (upload_var : bool) (c : cfg) (mode : bytes)
           (period now : Z) (tok : option Z) (token_created fs_changed : bool) (ps : list proc) : bool :=
  forallb (launch_ok marker upload_var c mode period now tok token_created) ps
  && (count is_sidecar ps <=? (if beq marker [] then 1 else 0))%nat
  && (if beq mode lit_off
      then match ps with [] => beq marker lit_1 || negb fs_changed | _ => false end
      else true).
