(* Model/Gating: what the uploader does with the consent mode
   (internal/upload: date.go tooOld, findwork.go findWork, reports.go reports /
   notNeeded / createReport's uploadOK, upload.go dateRE / uploadReport /
   uploadReportContents, run.go uploader.Run) and what the counter package
   does with it (internal/counter/file.go Open, rotate1).
   Executable definitions only.  Instants are nanoseconds since the unix epoch
   (Z, no overflow: time.Time comparisons are exact); days are day numbers. *)
From Coq Require Import String.
From Coq Require Import List ZArith NArith Bool.
From Tele Require Import Lib.Bytes Lib.Calendar Gen.Consts Model.Mode.
Import ListNotations.
Open Scope Z_scope.

Definition ns_per_day : Z := 86400 * 1000000000.
Definition day_ns (d : Z) : Z := d * ns_per_day.     (* 00:00 UTC of day d *)
Definition zero_ns : Z := day_ns zero_day.           (* time.Time{} *)

(* time.Time.Sub saturates at the int64 Duration range *)
Definition sat63 (x : Z) : Z := Z.max (- 2 ^ 63) (Z.min (2 ^ 63 - 1) x).

(* tooOld(date, uploadStartTime) *)
Definition too_old (date : bytes) (start : Z) : bool :=
  match parse_date date with
  | None => false
  | Some d => c_distantPast_ns <? sat63 (start - day_ns d)
  end.

(* ---- dateRE = `(\d\d\d\d-\d\d-\d\d)[.]json$`, FindStringSubmatch(name)[1] ----
   The pattern is anchored at the end of the text, so the only candidate
   position is the last 15 bytes. *)
Definition json_suffix : bytes := [46; 106; 115; 111; 110]%N.  (* ".json" *)
Definition count_suffix : bytes := [46; 118; 49; 46; 99; 111; 117; 110; 116]%N.  (* ".v1.count" *)
Definition local_prefix : bytes := [108; 111; 99; 97; 108; 46]%N.  (* "local." *)
Definition lock_suffix : bytes := [46; 108; 111; 99; 107]%N.  (* ".lock" *)

Definition date_shape (s : bytes) : bool :=
  match s with
  | [a; b; c; d; e; f; g; h; i; j] =>
      is_digit a && is_digit b && is_digit c && is_digit d && N.eqb e dash &&
      is_digit f && is_digit g && N.eqb h dash && is_digit i && is_digit j
  | _ => false
  end.

Definition re_date (name : bytes) : option bytes :=
  let n := length name in
  if (n <? 15)%nat then None else
  let tail := skipn (n - 15) name in
  if date_shape (firstn 10 tail) && beq (skipn 10 tail) json_suffix
  then Some (firstn 10 tail) else None.

(* uploadReportDate(name): the zero time when unmatched or unparseable *)
Definition report_date_raw (name : bytes) : option Z :=
  match re_date name with Some s => parse_date s | None => None end.
Definition report_date (name : bytes) : option Z := effective_date (report_date_raw name).

(* findWork: is this entry of local/ a report that is ready for upload?
   asof is the effective date (None when asof.IsZero()). *)
Definition ready_report (mode : bytes) (asof : option Z) (name : bytes) : bool :=
  negb (has_suffix name count_suffix) && negb (has_prefix name local_prefix) &&
  has_suffix name json_suffix && beq mode m_on &&
  match asof, report_date name with
  | Some a, Some r => a <? r        (* asof.Before(reportDate) *)
  | _, _ => true                    (* "fall back on the old behavior" *)
  end.

(* uploadReport: today = startTime.Format(DateOnly); match[1] > today *)
Definition today_of (start : Z) : bytes := go_fmt_date (start / ns_per_day).
Definition future_report (today name : bytes) : bool :=
  match re_date name with Some s => bltb today s | None => false end.

(* ---- abstract file system: the mode file, the entries of local/ (name,
   what parseCountFile + counterDateSpan give for it, whether it holds any
   counter), the names in upload/ ---- *)
Record lfile := { lf_name : bytes; lf_span : option (Z * Z); lf_counts : bool }.
Record fstate := { fs_mode : option bytes; fs_local : option (list lfile); fs_upload : option (list bytes) }.
Record dirs := { d_local : option (list lfile); d_upload : option (list bytes) }.

Inductive effect :=
| EReadDirLocal | EReadMode | EReadCount (n : bytes) | EReadDirUpload | EMkdirUpload
| EStatLocal (n : bytes) | EReadLocal (n : bytes)
| ERemoveLocal (n : bytes) | ECreateLocal (n : bytes)
| ELock (n : bytes) | EUnlock (n : bytes) | EStatUpload (n : bytes) | EWriteUpload (n : bytes)
| EPost (fdate : bytes) (name : bytes)
| ECounterFile            (* counter package: weekends file + create/map the count file *)
| ECounterAdd.            (* counter package: store into the mapped count file *)

Definition local_has (l : list lfile) (n : bytes) : bool := existsb (fun f => beq (lf_name f) n) l.
Definition local_remove (l : list lfile) (n : bytes) : list lfile :=
  filter (fun f => negb (beq (lf_name f) n)) l.
Definition local_add (l : list lfile) (n : bytes) : list lfile :=
  l ++ [ {| lf_name := n; lf_span := None; lf_counts := false |} ].
Definition names_has (u : list bytes) (n : bytes) : bool := existsb (beq n) u.

Record group := { g_exp : bytes; g_files : list lfile; g_earliest : Z }.

Definition week_of (e : Z) : bytes := go_fmt_date (e / ns_per_day).   (* end.Format(DateOnly), UTC metadata *)
Definition begin_of (f : lfile) : Z := match lf_span f with Some (b, _) => b | None => 0 end.

(* reports(): a collected file is folded into the week of its end date when
   end.Before(start); countFiles[expiry] = append(countFiles[expiry], f) and
   earliest[expiry] (zero value: the zero time) is replaced by begin when it
   IsZero() or is After(begin).  The map is rendered as: the distinct expiry
   strings in order of first appearance, each with its files in order. *)
Definition sel (start : Z) (wk : bytes) (f : lfile) : bool :=
  match lf_span f with Some (_, e) => (e <? start) && beq (week_of e) wk | None => false end.
Definition upd_earliest (cur b : Z) : Z := if (cur =? zero_ns) || (b <? cur) then b else cur.
Fixpoint dedup (l : list bytes) : list bytes :=
  match l with
  | [] => []
  | x :: r => x :: filter (fun y => negb (beq y x)) (dedup r)
  end.
Definition weeks_of (start : Z) (cnt : list lfile) : list bytes :=
  dedup (flat_map (fun f => match lf_span f with
                            | Some (_, e) => if e <? start then [week_of e] else []
                            | None => []
                            end) cnt).
Definition group_of (start : Z) (cnt : list lfile) (wk : bytes) : group :=
  let fl := filter (sel start wk) cnt in
  {| g_exp := wk; g_files := fl; g_earliest := fold_left upd_earliest (map begin_of fl) zero_ns |}.
Definition groups_of (start : Z) (cnt : list lfile) : list group :=
  map (group_of start cnt) (weeks_of start cnt).

(* notNeeded(date, todo): uploaded[date.json], or a ready report whose base
   name contains the date (fix db874db: base name, not the full path) *)
Definition not_needed (date : bytes) (uploaded : option (list bytes)) (ready : list bytes) : bool :=
  match uploaded with Some u => names_has u (date ++ json_suffix) | None => false end
  || existsb (fun r => contains r date) ready.

Definition last_n (n : nat) (s : bytes) : bytes := skipn (length s - n) s.

(* findWork: which count files are collected *)
Definition collectable (start : Z) (f : lfile) : bool :=
  has_suffix (lf_name f) count_suffix &&
  match lf_span f with Some (_, e) => negb (start <? e) | None => false end.

Record work := { w_count : list lfile; w_ready : list bytes; w_uploaded : option (list bytes) }.

Section Run.
(* X and the sample rate: any type with a decidable "less than" (float64
   without NaN in the code; the extracted runner uses Z keys that order
   float64 values). *)
Variable R : Type.
Variable rlt : R -> R -> bool.
Variable rzero : R.

(* createReport's uploadOK.  asof: effective date; earliest: earliest[expiry] *)
Definition upload_ok (mode : bytes) (asof : option Z) (start : Z) (expiry : bytes)
           (earliest : Z) (x rate : R) : bool :=
  beq mode m_on && negb (too_old expiry start) &&
  match asof with None => true | Some a => day_ns a <? earliest end &&
  negb (rlt rate x && rlt rzero rate).

(* rc_x: the X drawn for the report of a week; rc_resp: the server's status
   for a date (0: transport error) *)
Record runcfg := { rc_start : Z; rc_x : bytes -> R; rc_rate : R; rc_resp : bytes -> Z }.

(* The uploader reads the mode file three times (findWork, reports,
   createReport); the model reads one unchanging file, so the three reads give
   the same (mode, asof): the functions below take them as parameters and
   [run] supplies mode_of / asof_of of the file.  A mode change during a run
   is outside the model. *)
Definition find_work (mode : bytes) (asof : option Z) (d : dirs) (start : Z) : work * list effect * dirs :=
  match d_local d with
  | None => ({| w_count := []; w_ready := []; w_uploaded := None |}, [EReadDirLocal], d)
  | Some l =>
      let cnt := filter (collectable start) l in
      let rdy := map lf_name (filter (fun f => ready_report mode asof (lf_name f)) l) in
      let reads := map (fun f => EReadCount (lf_name f))
                       (filter (fun f => has_suffix (lf_name f) count_suffix) l) in
      match d_upload d with
      | None =>
          ({| w_count := cnt; w_ready := rdy; w_uploaded := None |},
           [EReadDirLocal; EReadMode] ++ reads ++ [EReadDirUpload; EMkdirUpload],
           {| d_local := d_local d; d_upload := Some [] |})
      | Some u =>
          ({| w_count := cnt; w_ready := rdy;
              w_uploaded := Some (filter (fun n => has_suffix n json_suffix) u) |},
           [EReadDirLocal; EReadMode] ++ reads ++ [EReadDirUpload], d)
      end
  end.

Definition remove_all (l : list lfile) (names : list bytes) : list lfile := fold_left local_remove names l.

(* createReport(earliest, expiry, files, lastWeek): the upload report name when
   one was written, the effects, the new content of local/ *)
Definition create_report (mode : bytes) (asof : option Z) (cfg : runcfg) (l : list lfile) (g : group)
  : option bytes * list effect * list lfile :=
  let ok := upload_ok mode asof (rc_start cfg) (g_exp g) (g_earliest g)
                      (rc_x cfg (g_exp g)) (rc_rate cfg) in
  let names := map lf_name (g_files g) in
  let removes := map ERemoveLocal names in
  let lname := local_prefix ++ g_exp g ++ json_suffix in
  let uname := g_exp g ++ json_suffix in
  if negb (existsb lf_counts (g_files g)) then (None, [EReadMode], l)
  else if local_has l lname then (None, [EReadMode; EStatLocal lname] ++ removes, remove_all l names)
  else if local_has l uname then
    (None, [EReadMode; EStatLocal lname; EStatLocal uname] ++ removes, remove_all l names)
  else
    let l1 := if ok then local_add l uname else l in
    let l2 := local_add l1 lname in
    (if ok then Some uname else None,
     [EReadMode; EStatLocal lname; EStatLocal uname]
       ++ (if ok then [ECreateLocal uname] else []) ++ [ECreateLocal lname] ++ removes,
     remove_all l2 names).

(* the loop over countFiles in reports() (Go iterates the map in random
   order; the decisions for different weeks do not depend on each other) *)
Fixpoint reports_loop (mode : bytes) (asof : option Z) (cfg : runcfg) (uploaded : option (list bytes))
         (gs : list group) (l : list lfile) (ready : list bytes)
  : list bytes * list effect * list lfile :=
  match gs with
  | [] => (ready, [], l)
  | g :: gs' =>
      if not_needed (g_exp g) uploaded ready then
        let names := map lf_name (g_files g) in
        let '(r, e, l') := reports_loop mode asof cfg uploaded gs' (remove_all l names) ready in
        (r, map ERemoveLocal names ++ e, l')
      else
        let '(nm, e1, l1) := create_report mode asof cfg l g in
        let ready' := match nm with Some n => ready ++ [n] | None => ready end in
        let '(r, e2, l2) := reports_loop mode asof cfg uploaded gs' l1 ready' in
        (r, e1 ++ e2, l2)
  end.

Definition reports (mode : bytes) (asof : option Z) (cfg : runcfg) (d : dirs) (w : work)
  : list bytes * list effect * dirs :=
  if beq mode m_off then ([], [EReadMode], d)
  else
    match d_local d with
    | None => (w_ready w, [EReadMode], d)
    | Some l =>
        let '(r, e, l') := reports_loop mode asof cfg (w_uploaded w)
                                        (groups_of (rc_start cfg) (w_count w)) l (w_ready w) in
        (r, EReadMode :: e, {| d_local := Some l'; d_upload := d_upload d |})
    end.

(* uploadReport + uploadReportContents for one ready name: effects, new state.
   A name too short to hold a date is skipped (fix 8d04c54; it used to panic). *)
Definition upload_one (cfg : runcfg) (today : bytes) (name : bytes) (d : dirs)
  : list effect * dirs :=
  if future_report today name then ([], d)
  else
    match d_local d with
    | None => ([EReadLocal name], d)
    | Some l =>
        if negb (local_has l name) then ([EReadLocal name], d)
        else
          let base := trim_suffix name json_suffix in
          if (length base <? 10)%nat then ([EReadLocal name], d)
          else
            let fdate := last_n 10 base in
            let newname := fdate ++ json_suffix in
            let lockname := newname ++ lock_suffix in
            match d_upload d with
            | None => ([EReadLocal name], d)
            | Some u =>
                if names_has u lockname then ([EReadLocal name], d)
                else if names_has u newname then
                  ([EReadLocal name; ELock lockname; EStatUpload newname; ERemoveLocal name; EUnlock lockname],
                   {| d_local := Some (local_remove l name); d_upload := Some u |})
                else
                  let status := rc_resp cfg fdate in
                  let pre := [EReadLocal name; ELock lockname; EStatUpload newname; EPost fdate name] in
                  if status =? 200 then
                    (pre ++ [EWriteUpload newname; ERemoveLocal name; EUnlock lockname],
                     {| d_local := Some (local_remove l name); d_upload := Some (u ++ [newname]) |})
                  else if (400 <=? status) && (status <? 500) then
                    (pre ++ [ERemoveLocal name; EUnlock lockname],
                     {| d_local := Some (local_remove l name); d_upload := Some u |})
                  else (pre ++ [EUnlock lockname], d)
            end
    end.

Fixpoint upload_all (cfg : runcfg) (today : bytes) (ready : list bytes) (d : dirs)
  : list effect * dirs :=
  match ready with
  | [] => ([], d)
  | r :: rest =>
      let '(e, d') := upload_one cfg today r d in
      let '(e2, d2) := upload_all cfg today rest d' in (e ++ e2, d2)
  end.

(* the list of reports handed to the upload loop *)
Definition ready_list (mode : bytes) (asof : option Z) (cfg : runcfg) (d : dirs) : list bytes :=
  let '(w, _, d1) := find_work mode asof d (rc_start cfg) in
  let '(ready, _, _) := reports mode asof cfg d1 w in ready.

(* uploader.Run for a given reading (mode, asof) of the mode file *)
Definition run_ma (mode : bytes) (asof : option Z) (cfg : runcfg) (d : dirs) : list effect * dirs :=
  let '(w, e1, d1) := find_work mode asof d (rc_start cfg) in
  let '(ready, e2, d2) := reports mode asof cfg d1 w in
  let '(e3, d3) := upload_all cfg (today_of (rc_start cfg)) ready d2 in
  (e1 ++ e2 ++ e3, d3).

Definition dirs_of (fs : fstate) : dirs := {| d_local := fs_local fs; d_upload := fs_upload fs |}.

Definition run (cfg : runcfg) (fs : fstate) : list effect * fstate :=
  let '(e, d) := run_ma (mode_of (fs_mode fs)) (asof_of (fs_mode fs)) cfg (dirs_of fs) in
  (e, {| fs_mode := fs_mode fs; fs_local := d_local d; fs_upload := d_upload d |}).

(* upload.Run / newUploader (run.go): the configuration in force.  Only when
   the mode file reads on is the published upload config downloaded
   (configstore.Download) and its SampleRate used as it was published; in
   every other mode the uploader runs with an empty config (SampleRate 0). *)
Definition with_rate (cfg : runcfg) (r : R) : runcfg :=
  {| rc_start := rc_start cfg; rc_x := rc_x cfg; rc_rate := r; rc_resp := rc_resp cfg |}.
Definition run_entry (published_rate : R) (cfg : runcfg) (fs : fstate) : list effect * fstate :=
  if beq (mode_of (fs_mode fs)) m_on then run (with_rate cfg published_rate) fs
  else run (with_rate cfg rzero) fs.

(* ---- the counter package's side (internal/counter/file.go Open, rotate1, Add).
   The mode file is read by Open and again by EVERY rotate1 (the call Open
   makes, and each later call by the weekly rotation timer): with mode off,
   rotate1 fails with ErrDisabled and drops the mapping; once failed (f.err)
   it does nothing any more.  Add never reads the mode: it stores into the
   mapped file when there is one, else it counts in memory.
   OpSetMode is the environment (gotelemetry on/off/local, SetMode) replacing
   the mode file between the process's steps. ---- *)
Inductive pstate := PUnopened | PDisabled | PMapped.
Inductive op :=
| OpOpen | OpAdd | OpRun (cfg : runcfg)
| OpRotate (expired : bool)          (* rotate1 again; expired: CounterTime reached the file's end *)
| OpSetMode (file : option bytes).

Definition rotate1_step (expired : bool) (fs : fstate) (p : pstate) : list effect * pstate :=
  match p with
  | PDisabled => ([], PDisabled)                               (* f.err != nil: nothing to do *)
  | PUnopened =>
      if beq (mode_of (fs_mode fs)) m_off then ([EReadMode], PDisabled)
      else ([EReadMode; ECounterFile], PMapped)
  | PMapped =>
      if beq (mode_of (fs_mode fs)) m_off then ([EReadMode], PDisabled)
      else if expired then ([EReadMode; ECounterFile], PMapped)   (* new week: new file *)
      else ([EReadMode], PMapped)                                 (* same span: keep the file *)
  end.

Definition step (o : op) (st : fstate * pstate) : list effect * (fstate * pstate) :=
  let '(fs, p) := st in
  match o with
  | OpOpen =>
      match p with
      | PUnopened =>
          if beq (mode_of (fs_mode fs)) m_off then ([EReadMode], (fs, PDisabled))
          else ([EReadMode; ECounterFile], (fs, PMapped))
      | _ => ([], st)                                  (* openOnce *)
      end
  | OpAdd => match p with PMapped => ([ECounterAdd], st) | _ => ([], st) end
  | OpRun cfg => let '(e, fs') := run cfg fs in (e, (fs', p))
  | OpRotate expired => let '(e, p') := rotate1_step expired fs p in (e, (fs, p'))
  | OpSetMode f =>
      ([], ({| fs_mode := f; fs_local := fs_local fs; fs_upload := fs_upload fs |}, p))
  end.

Fixpoint exec (ops : list op) (st : fstate * pstate) : list effect * (fstate * pstate) :=
  match ops with
  | [] => ([], st)
  | o :: rest =>
      let '(e1, st1) := step o st in
      let '(e2, st2) := exec rest st1 in (e1 ++ e2, st2)
  end.

(* ---- the property as an executable predicate (used as the oracle on the
   implementation's observations, and the right-hand sides of the theorems) ---- *)

(* "made uploadable only if": 21 days, opt-in date, sample rate.
   asof: the date recorded in the mode file; week: the parsed week date *)
Definition spec_uploadable (mode : bytes) (asof : option Z) (start : Z) (week : option Z)
           (earliest : Z) (x rate : R) : bool :=
  beq mode m_on &&
  match week with Some d => start - day_ns d <=? 21 * ns_per_day | None => true end &&
  match asof with None => true | Some a => day_ns a <? earliest end &&
  negb (rlt rzero rate && rlt rate x).

(* "an uploadable report is sent only if": a report found in local/ *)
Definition spec_leftover_sendable (mode : bytes) (asof : option Z) (start : Z) (name : bytes) : bool :=
  beq mode m_on && has_suffix name json_suffix && negb (has_prefix name local_prefix) &&
  match report_date_raw name with
  | None => true                                  (* no (valid) date in the name *)
  | Some d => (d <=? start / ns_per_day) && match asof with None => true | Some a => a <? d end
  end.

(* the count files whose data a week's report is built from *)
Definition in_week (start : Z) (week : bytes) (f : lfile) : bool :=
  has_suffix (lf_name f) count_suffix && sel start week f.
Definition all_begin_after (a : Z) (fl : list lfile) : bool := forallb (fun f => day_ns a <? begin_of f) fl.

(* is a request for /<fdate> allowed in this state? *)
Definition spec_post_allowed (cfg : runcfg) (fs : fstate) (fdate : bytes) : bool :=
  let mode := mode_of (fs_mode fs) in
  let asof := snd (parse_mode (fs_mode fs)) in
  let start := rc_start cfg in
  match fs_local fs with
  | None => false
  | Some l =>
      existsb (fun f => spec_leftover_sendable mode asof start (lf_name f) &&
                        beq (last_n 10 (trim_suffix (lf_name f) json_suffix)) fdate) l
      ||
      (let fl := filter (in_week start fdate) l in
       negb (match fl with [] => true | _ => false end) &&
       beq mode m_on &&
       match parse_date fdate with Some d => start - day_ns d <=? 21 * ns_per_day | None => true end &&
       match asof with None => true | Some a => all_begin_after a fl end &&
       negb (rlt rzero (rc_rate cfg) && rlt (rc_rate cfg) (rc_x cfg fdate)))
  end.

(* the zero-time sentinel is in play: the recorded date, a report name's date
   or a count file's begin is 0001-01-01 (T00:00:00Z) *)
Definition sentinel_involved (fs : fstate) : bool :=
  match snd (parse_mode (fs_mode fs)) with Some d => d =? zero_day | None => false end
  || match fs_local fs with
     | None => false
     | Some l => existsb (fun f => match report_date_raw (lf_name f) with Some d => d =? zero_day | None => false end
                                   || match lf_span f with Some (b, _) => b =? zero_ns | None => false end) l
     end.

End Run.

(* ---- count files whose collection time is unknown ----
   A count file whose TimeBegin is missing or unparsable (lf_span = None for a
   name ending in .v1.count) cannot be shown to hold only data from after the
   opt-in date: the run must not fold it into an uploadable report.
   Observable form: such a file (with a readable end instant e) was removed by
   the run AND an uploadable report for the week of e was written or sent.
   damaged: (name, end) of those files; removed: names gone from local/ after
   the run; uploadable: the weeks (dates) for which <week>.json was created in
   local/ or a request was made; asof: the date recorded in the mode file. *)
Definition removed_names (e : list effect) : list bytes :=
  flat_map (fun x => match x with ERemoveLocal n => [n] | _ => [] end) e.
Definition uploadable_weeks (e : list effect) : list bytes :=
  flat_map (fun x => match x with
                     | EPost fd _ => [fd]
                     | ECreateLocal n => if has_prefix n local_prefix then [] else [trim_suffix n json_suffix]
                     | _ => []
                     end) e.
Definition spec_unknown_begin_ok (asof : option Z) (damaged : list (bytes * Z)) (removed uploadable : list bytes) : bool :=
  match asof with
  | None => true            (* no opt-in date recorded: nothing to be after *)
  | Some _ => forallb (fun ne => negb (names_has removed (fst ne) && names_has uploadable (week_of (snd ne)))) damaged
  end.
