(* Model/LayoutRace: several writers on one counter file at file-system-call
   granularity, including newCounter's own file-system calls: a writer parks
   before every OpenFile / Stat / WriteAt (the yield points of the os shim of
   the harness) and everything between two such calls is one step.  This
   refines Model/LayoutMulti.cstep (where a writer's operations after the
   creation sequence are single steps): here newCounter may park inside
   extend (Stat, [WriteAt], OpenFile, Stat, mmap's Stat) and inside the remap
   loop of a failed lookup (OpenFile, Stat, mmap's Stat), with its own mapping
   length, the bucket head it read before parking, and the duplicate walk of
   the link loop when that head is stale.

   Executable only (differential model of the harness's race cases).  The
   properties of these interleavings - one record per name, limit and size
   only grow, well-formed at every step - are the theorems of C04
   (Model/FileConc at atomic-operation granularity, which refines this one);
   Props/C10.v cites them. *)
From Coq Require Import List NArith Bool.
From Tele Require Import Lib.Bytes Lib.BytesN Gen.Consts Model.DecodeStack Model.Layout Model.LayoutMulti.
Import ListNotations.
Open Scope N_scope.

Definition dead_mark : N := 4294967295.

Inductive gpc :=
  | GCreate (c : cpc)
  | GRemap (k tries lim : N)            (* remap loop: before call k of openMapped; limit read before *)
  | GExt (k e head : N) (needw : bool)  (* extend(e): before call k; head = bucket head read by lookup *)
  | GDone
  | GFailed.

Record gwriter := {
  g_pc : gpc;
  g_ops : list op;          (* operations not finished yet; the first one is in progress when parked *)
  g_res : list op_result;   (* results so far, oldest first *)
  g_map : N;                (* length of the mapping the operation in progress works on *)
  g_orig : N                (* length of the mapping the writer holds between operations
                               (what a failed newCounter leaves it with) *)
}.

Definition gw (pc : gpc) (ops : list op) (res : list op_result) (m : N) : gwriter :=
  {| g_pc := pc; g_ops := ops; g_res := res; g_map := m; g_orig := m |}.
Definition gwo (pc : gpc) (ops : list op) (res : list op_result) (m orig : N) : gwriter :=
  {| g_pc := pc; g_ops := ops; g_res := res; g_map := m; g_orig := orig |}.

(* outcome of running one operation as far as it goes without a file-system call *)
Inductive outcome :=
  | Fin (file : bytes) (r : op_result) (map : N)
  | Park (file : bytes) (pc : gpc) (map : N).

Section Writer.
  Variables (hdr : N).

  Definition op_name (o : op) : bytes :=
    match o with OpNew n | OpAdd n _ => n | _ => [] end.

  (* value update of Add after newCounter returned the cell at off *)
  Definition finish (o : op) (file : bytes) (off map : N) : outcome :=
    match o with
    | OpAdd _ d => Fin (add_at file off d) (ROk off) map
    | _ => Fin file (ROk off) map
    end.

  (* the duplicate walk of the link loop: from off until old *)
  Fixpoint dup_walk (fuel : nat) (map : N) (file name : bytes) (n off old : N) : option (option N) :=
    (* None: corrupt; Some None: no duplicate; Some (Some o): name found at o *)
    if off =? old then Some None else
    match fuel with
    | O => None
    | S f =>
        match entry_at_sz map file hdr off with
        | None => None
        | Some (ename, next, _) =>
            if map / c_recordUnit <? n then None else
            if beq ename name then Some (Some off) else dup_walk f map file name (n + 1) next old
        end
    end.

  (* record written at s; link it: head is the head read by lookup *)
  Definition link (o : op) (map : N) (file name : bytes) (head s : N) : outcome :=
    let ho := head_off hdr (hash name) in
    let cur := load32_sz map file ho in
    if cur =? head then finish o (put file ho (le32 s)) s map
    else
      match dup_walk (walk_fuel_sz map) map file name 0 cur head with
      | None => Fin file RCorrupt map
      | Some (Some other) => finish o (put file (s + 12) (le32 dead_mark)) other map
      | Some None => finish o (put (put file (s + 12) (le32 cur)) ho (le32 s)) s map
      end.

  (* the reservation loop from its top, with the mapping map *)
  Definition alloc (o : op) (map : N) (file name : bytes) (head : N) : outcome :=
    let limit := load32_sz map file (hdr + c_limitOff) in
    let '(s, e) := place hdr limit (len name) in
    if (s <? limit) || (e <? s) || (round_u32 e c_pageSize <? e) then Fin file RCorrupt map else
    if map <? e then Park file (GExt 0 e head false) map else
    let file1 := put file (hdr + c_limitOff) (le32 e) in
    if (s <? first_off hdr) || (map <? s + 16 + len name) then Fin file1 RCorrupt map else
    let file2 := put file1 (s + 8) (rec_block (N.lor (u32 (len name)) name_tag) head name) in
    link o map file2 name head s.

  (* after a lookup with the mapping map *)
  Definition after_lookup (o : op) (map : N) (file name : bytes) (tries : N) : outcome :=
    match lookup_sz map file hdr name with
    | LFound off => finish o file off map
    | LMissing => alloc o map file name (load32_sz map file (head_off hdr (hash name)))
    | _ =>
        if 10 <=? tries then Fin file RCorrupt map else
        let lim := load32_sz map file (hdr + c_limitOff) in
        if lim <=? map then Fin file RCorrupt map else Park file (GRemap 0 tries lim) map
    end.

  Definition start_op (o : op) (map : N) (file : bytes) : outcome :=
    let name := op_name o in
    match o with
    | OpNew _ | OpAdd _ _ =>
        if len name =? 0 then Fin file REmpty map else
        if c_maxNameLen <? len name then Fin file RLong map else
        after_lookup o map file name 0
    | _ => Fin file RFail map
    end.

  (* run operations until one parks or all are done *)
  Fixpoint run_ops_g (ops : list op) (file : bytes) (res : list op_result) (map : N) : bytes * gwriter :=
    match ops with
    | [] => (file, gw GDone [] res map)
    | o :: rest =>
        match start_op o map file with
        | Fin f r m => run_ops_g rest f (res ++ [r]) m
        | Park f pc m => (f, gwo pc ops res m map)
        end
    end.

  (* the operation in progress (head of ops) went on to out; orig: the mapping
     the writer held when the operation began *)
  Definition resume (out : outcome) (ops : list op) (res : list op_result) (orig : N) : bytes * gwriter :=
    match out with
    | Park f pc m => (f, gwo pc ops res m orig)
    | Fin f r m =>
        match ops with
        | _ :: rest => run_ops_g rest f (res ++ [r]) m
        | [] => (f, gw GDone [] res m)
        end
    end.

  Definition cur_op (w : gwriter) : op := hd (OpExtend 0) (g_ops w).

  (* the file-system call the writer is parked before fails (errno, no effect):
     openMapped fails during creation, the operation in progress fails
     otherwise and the writer goes on with the mapping it held before it *)
  Definition gfault_w (file : bytes) (w : gwriter) : bytes * gwriter :=
    match g_pc w with
    | GCreate _ => (file, gwo GFailed (g_ops w) (g_res w) (g_map w) (g_orig w))
    | GRemap _ _ _ | GExt _ _ _ _ => resume (Fin file RFail (g_orig w)) (g_ops w) (g_res w) (g_orig w)
    | GDone | GFailed => (file, w)
    end.

  (* one step of one writer; h is the header all writers expect *)
  Definition gstep_w (h : bytes) (file : bytes) (w : gwriter) : bytes * gwriter :=
    let o := cur_op w in
    let name := op_name o in
    match g_pc w with
    | GCreate CStart => (file, gwo (GCreate CStat) (g_ops w) (g_res w) (g_map w) (g_orig w))
    | GCreate CStat =>
        (file, gwo (GCreate (if len file <? c_minFileLen then CWriteHdr else CMap)) (g_ops w) (g_res w) (g_map w) (g_orig w))
    | GCreate CWriteHdr => (write_at file 0 h, gwo (GCreate CWriteTail) (g_ops w) (g_res w) (g_map w) (g_orig w))
    | GCreate CWriteTail =>
        (write_at file (c_minFileLen - 4) [0; 0; 0; 0], gwo (GCreate CStat2) (g_ops w) (g_res w) (g_map w) (g_orig w))
    | GCreate CStat2 => (file, gwo (GCreate CMap) (g_ops w) (g_res w) (g_map w) (g_orig w))
    | GCreate CMap =>
        if has_prefix file h then run_ops_g (g_ops w) file [] (len file)
        else (file, gwo GFailed (g_ops w) (g_res w) (g_map w) (g_orig w))
    | GCreate _ => (file, w)
    | GRemap k tries lim =>
        if k <? 2 then (file, gwo (GRemap (k + 1) tries lim) (g_ops w) (g_res w) (g_map w) (g_orig w))
        else
          let newlen := len file in
          if negb (has_prefix file h) then resume (Fin file RFail (g_orig w)) (g_ops w) (g_res w) (g_orig w)
          else if newlen <? lim then resume (Fin file RCorrupt (g_orig w)) (g_ops w) (g_res w) (g_orig w)
          else resume (after_lookup o newlen file name (tries + 1)) (g_ops w) (g_res w) (g_orig w)
    | GExt k e head needw =>
        let e' := round_u32 e c_pageSize in
        if k =? 0 then
          let nw := len file <? e' in
          (file, gwo (GExt (if nw then 1 else 2) e head nw) (g_ops w) (g_res w) (g_map w) (g_orig w))
        else if k =? 1 then
          (write_at file (e' - 4) [0; 0; 0; 0], gwo (GExt 2 e head needw) (g_ops w) (g_res w) (g_map w) (g_orig w))
        else if k <? 4 then (file, gwo (GExt (k + 1) e head needw) (g_ops w) (g_res w) (g_map w) (g_orig w))
        else
          let newlen := len file in
          if negb (has_prefix file h) then resume (Fin file RFail (g_orig w)) (g_ops w) (g_res w) (g_orig w)
          else if newlen <? e' then resume (Fin file RCorrupt (g_orig w)) (g_ops w) (g_res w) (g_orig w)
          else resume (alloc o newlen file name head) (g_ops w) (g_res w) (g_orig w)
    | GDone | GFailed => (file, w)
    end.
End Writer.

Record gstate := { g_file : bytes; g_ws : list gwriter }.

Definition gstep (hdr : N) (h : bytes) (st : gstate) (i : nat) (fault : bool) : gstate :=
  match nth_error (g_ws st) i with
  | None => st
  | Some w => let '(f, w') := if fault then gfault_w hdr (g_file st) w else gstep_w hdr h (g_file st) w in
              {| g_file := f; g_ws := upd_nth (g_ws st) i w' |}
  end.

(* the run, with the allocation limit and the file length after every step *)
(* fault: Some k = the file-system call of the k-th step (from here) fails *)
Fixpoint grun (hdr : N) (h : bytes) (st : gstate) (sched : list nat) (fault : option nat) (trace : list (N * N))
  : gstate * list (N * N) :=
  match sched with
  | [] => (st, rev trace)
  | i :: t =>
      let now := match fault with Some O => true | _ => false end in
      let later := match fault with Some (S k) => Some k | _ => None end in
      let st' := gstep hdr h st i now in
      grun hdr h st' t later ((get32 (g_file st') hdr, len (g_file st')) :: trace)
  end.

Definition grace (meta file : bytes) (progs : list (list op)) (sched : list nat) (fault : option nat)
  : option (gstate * list (N * N)) :=
  match mapped_header meta with
  | Some h =>
      let ws := map (fun p => gw (GCreate CStart) p [] 0) progs in
      Some (grun (u32 (len h)) h {| g_file := file; g_ws := ws |} sched fault [])
  | None => None
  end.

Definition gpc_tag (pc : gpc) : N :=
  match pc with
  | GCreate c => pc_tag c
  | GRemap k _ _ => 10 + k
  | GExt k _ _ _ => 20 + k
  | GDone => 6
  | GFailed => 7
  end.
