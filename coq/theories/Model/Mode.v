(* Model/Mode: the consent mode file (internal/telemetry/dir.go: Dir.Mode,
   Dir.SetModeAsOf; mode.go only forwards to them).
   Executable definitions only.  Days are day numbers since 1970-01-01 (Z),
   instants handed to SetModeAsOf are unix seconds (Z). *)
From Coq Require Import String.
From Coq Require Import List ZArith NArith Bool.
From Tele Require Import Lib.Bytes Lib.Calendar.
Import ListNotations.
Open Scope Z_scope.

(* byte literals are spelled out so that the extracted code does not pull in
   Coq's string type; Proofs/ModeFacts.v checks them against s2b "..." *)
Definition m_on : bytes := [111; 110]%N.        (* "on" *)
Definition m_off : bytes := [111; 102; 102]%N.  (* "off" *)
Definition m_local : bytes := [108; 111; 99; 97; 108]%N.  (* "local" *)
Definition space : N := 32%N.

(* The zero time.Time is 0001-01-01T00:00:00Z.  Go's callers cannot tell "no
   date" from that date: Mode() returns the zero time when there is no date or
   the date does not parse, and every consumer tests IsZero(). *)
Definition zero_day : Z := -719162.

(* Dir.Mode() on a Dir with a non-empty modefile path.  file = None: ReadFile
   failed (absent, a directory, unreadable).  Result: the mode string and the
   date time.Parse(DateOnly, ..) accepted (None: no date / rejected). *)
Definition parse_mode (file : option bytes) : bytes * option Z :=
  match file with
  | None => (m_local, None)
  | Some data =>
      let m := trim_space data in
      match index_byte m space with
      | Some i => (firstn i m, parse_date (skipn (S i) m))
      | None => (m, None)
      end
  end.

(* Dir.Mode() in full: an empty modefile path (telemetry.Default never
   initialised) reads as "off". *)
Definition dir_mode (has_path : bool) (file : option bytes) : bytes * option Z :=
  if has_path then parse_mode file else (m_off, None).

(* what Go hands to its callers as the time.Time: the day, zero_day when absent *)
Definition mode_time (r : bytes * option Z) : Z :=
  match snd r with Some d => d | None => zero_day end.

(* what the consumers make of it: !asof.IsZero() *)
Definition effective_date (d : option Z) : option Z :=
  match d with
  | Some x => if x =? zero_day then None else Some x
  | None => None
  end.
Definition asof_of (file : option bytes) : option Z := effective_date (snd (parse_mode file)).
Definition mode_of (file : option bytes) : bytes := fst (parse_mode file).

(* time.Time.Format("2006-01-02") for any year: appendInt(year, 4) writes a
   minus sign for negative years and more than four digits above 9999. *)
Definition go_fmt_year (y : Z) : bytes :=
  if y <? 0 then dash :: dec_pad 4 (Z.to_N (- y)) else dec_pad 4 (Z.to_N y).
Definition go_fmt_date (day : Z) : bytes :=
  let '(y, m, d) := civil_from_days day in
  go_fmt_year y ++ [dash] ++ dec_pad 2 (Z.to_N m) ++ [dash] ++ dec_pad 2 (Z.to_N d).

Definition valid_mode (m : bytes) : bool := beq m m_on || beq m m_off || beq m m_local.

Inductive set_result :=
| SetOk (content : bytes)   (* os.WriteFile(modefile, content) *)
| SetErrMode                (* "invalid telemetry mode" *)
| SetErrDate.               (* "internal error: invalid mode date" *)

(* Dir.SetModeAsOf(mode, asofTime) with asofTime given in unix seconds
   (asofTime.UTC().Format(DateOnly) only depends on the UTC day). *)
Definition set_mode (mode : bytes) (asof_sec : Z) : set_result :=
  let m := trim_space mode in
  if valid_mode m then
    let asof := go_fmt_date (asof_sec / 86400) in
    match parse_date asof with
    | Some _ => SetOk (m ++ [space] ++ asof)
    | None => SetErrDate
    end
  else SetErrMode.

(* effect on the mode file; the boolean is "returned a nil error".
   (MkdirAll / WriteFile failures are outside the model: they also leave the
   previous content.) *)
Definition set_mode_file (mode : bytes) (asof_sec : Z) (file : option bytes) : option bytes * bool :=
  match set_mode mode asof_sec with
  | SetOk c => (Some c, true)
  | _ => (file, false)
  end.

(* the year of a unix-seconds instant, for the statements *)
Definition year_of_sec (s : Z) : Z := let '(y, _, _) := civil_from_days (s / 86400) in y.
