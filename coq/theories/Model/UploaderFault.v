(* Model/UploaderFault: one uploader.Run (a solo run of Model/Uploader's
   thread program) under a FAULT PLAN.  Every call the run makes - ReadDir,
   ReadFile, Stat, OpenFile, File.Write, File.Close, WriteFile, Remove,
   MkdirAll, http.Post, and the crypto/rand read of computeRandom - has an
   index in program order; the plan maps the index to

     FOk      the call behaves normally
     FErr     the call fails (ENOENT / EACCES / ENOSPC / EIO all take the
              same branch of the code: err != nil and not os.IsExist)
     FShort   a write (File.Write, WriteFile) stores the first half of the
              bytes and fails; no fault for other calls
     F4xx, F5xx   the server's answer to a Post (FErr = transport error);
              no fault for other calls

   A failing rand read makes computeRandom panic: the exported Run recovers
   (returns), the inner uploader.Run lets it escape.  The order in which
   reports() visits the weeks (Go's map iteration) is the list of picks.

   One macro step = the calls of one program point of Model/Uploader (a write
   is Write + Close, a successful lock is OpenFile + Close).
   Executable definitions only. *)
From Coq Require Import List ZArith NArith Bool.
From Tele Require Import Lib.Bytes Lib.FS Model.Span Model.Uploader.
Import ListNotations.
Open Scope nat_scope.

Inductive fk := FOk | FErr | FShort | F4xx | F5xx.
Definition fplan := nat -> fk.

Definition bad (p : fplan) (i : nat) : bool := match p i with FErr => true | _ => false end.
Definition wbad (p : fplan) (i : nat) : bool := match p i with FErr | FShort => true | _ => false end.
Definition answer (p : fplan) (i : nat) : outcome :=
  match p i with FErr => ONone | F4xx => O4xx | F5xx => O5xx | _ => O200 end.

(* the bytes left by a short write of content c (an empty body stays empty) *)
Definition partial_id : N := 888888%N.
Definition partial (c : content) : content :=
  match c with
  | CRep None | CLock => CRep None
  | _ => CRaw partial_id
  end.

(* what a write leaves in the file: nothing (error), half, or everything *)
Definition written (k : fk) (c : content) : content :=
  match k with FErr => CRep None | FShort => partial c | _ => c end.

Inductive pick := PW (w : bytes) | PSilent.

Record fstate := mkX {
  x_fs : FS; x_log : list ack; x_t : thread;
  x_err : bool;        (* errUpload / errLocal of the createReport in progress *)
  x_idx : nat;         (* index of the next call *)
  x_panic : bool;      (* a panic was raised (computeRandom) *)
  x_pre : bool         (* the exported Run's os.Stat(debug dir) is still to come *)
}.

(* the week the range loop visits next *)
Fixpoint choose (picks : list pick) (t : thread) (w0 : bytes) : bytes * list pick :=
  match picks with
  | [] => (w0, [])
  | PW w :: ps =>
      match take_week w (t_weeks t) with Some _ => (w, ps) | None => choose ps t w0 end
  | PSilent :: ps =>
      (* a week for which createReport made no os call: one without counters,
         or (the entropy failure) any week that needs a report *)
      match find (silent t) (t_weeks t) with
      | Some g => (fst g, ps)
      | None =>
          match find (fun g => negb (not_needed (fst g) (t_uploaded t) (t_ready t))) (t_weeks t) with
          | Some g => (fst g, ps)
          | None => choose ps t w0
          end
      end
  end.

Definition abort_week (t : thread) : thread := set_pc t RPick.

(* one macro step: (effect, thread, error flag, calls used, panic) *)
Definition fdecide (p : fplan) (i : nat) (f : FS) (err : bool) (t : thread)
  : effect * thread * bool * nat * bool :=
  let ok := decide f O200 t in
  match t_pc t with
  | FReadLocal =>
      if bad p i then (ENone, set_pc t Done, err, 1, false) else (fst ok, snd ok, err, 1, false)
  | FReadCount =>
      if bad p i then
        match t_ents t with
        | [] => (ENone, set_pc t FReadUpload, err, 1, false)
        | _ :: rest => (ENone, goto_read t rest (t_count t), err, 1, false)
        end
      else (fst ok, snd ok, err, 1, false)
  | FReadUpload =>
      if bad p i then (ENone, set_pc t FMkdir, err, 1, false) else (fst ok, snd ok, err, 1, false)
  | FMkdir =>
      if bad p i then (ENone, enter_reports t None, err, 1, false) else (fst ok, snd ok, err, 1, false)
  | RPick => (ENone, t, err, 0, false)                      (* resolved by fstep *)
  | RDel =>
      if bad p i then
        match t_dels t with
        | [] => (ENone, set_pc t RPick, err, 1, false)
        | _ :: rest => (ENone, set_dels t (match rest with [] => RPick | _ => RDel end) rest, err, 1, false)
        end
      else (fst ok, snd ok, err, 1, false)
  | RStatLocal =>
      if bad p i then (ENone, set_pc t RStatUp, err, 1, false) else (fst ok, snd ok, err, 1, false)
  | RStatUp =>
      if bad p i then (ENone, set_pc t (if t_upok t then RCreateUp else RCreateLocal), err, 1, false)
      else (fst ok, snd ok, err, 1, false)
  | RCreateUp =>
      if bad p i then (ENone, set_pc t RCreateLocal, true, 1, false) else (fst ok, snd ok, err, 1, false)
  | RWriteUp =>
      (* Write, then the deferred Close *)
      (EWriteId (t_fd t) (written (p i) (upload_body t)), set_pc t RCreateLocal,
       err || wbad p i || bad p (i + 1), 2, false)
  | RCreateLocal =>
      if bad p i then (ENone, abort_week t, false, 1, false)
      else if d_mem (f_local f) (local_name (t_week t))
           then (ENone, if err then abort_week t else finish_week t, false, 1, false)
           else (fst ok, snd ok, err, 1, false)
  | RWriteLocal =>
      let err' := err || wbad p i || bad p (i + 1) in
      (EWriteId (t_fd t) (written (p i) (local_body t)),
       if err' then abort_week t else finish_week t, false, 2, false)
  | URead =>
      if bad p i then (ENone, advance t, err, 1, false) else (fst ok, snd ok, err, 1, false)
  | ULock =>
      if bad p i then (ENone, advance t, err, 1, false)
      else match fst ok with
           | ECreateLock _ => (fst ok, snd ok, err, 2, false)     (* OpenFile, Close *)
           | _ => (fst ok, snd ok, err, 1, false)
           end
  | UStat =>
      if bad p i then (ENone, set_pc t UPost, err, 1, false) else (fst ok, snd ok, err, 1, false)
  | URemAlready | URem4xx | URemDone =>
      if bad p i then (ENone, set_pc t UUnlock, err, 1, false) else (fst ok, snd ok, err, 1, false)
  | UPost =>
      let r := decide f (answer p i) t in (fst r, snd r, err, 1, false)
  | UWriteMarker =>
      match p i with
      | FErr => (ENone, set_pc t UUnlock, err, 1, false)
      | FShort =>
          match f_upload f with
          | Some _ => (EPutUp (marker_name (t_week t)) (partial (t_buf t)), set_pc t UUnlock, err, 1, false)
          | None => (ENone, set_pc t UUnlock, err, 1, false)
          end
      | _ => (fst ok, snd ok, err, 1, false)
      end
  | UUnlock =>
      if bad p i then (ENone, advance t, err, 1, false) else (fst ok, snd ok, err, 1, false)
  | Done => (ENone, t, err, 0, false)
  end.

(* the range loop: next week, or the end of reports() *)
Definition fpick (p : fplan) (i : nat) (picks : list pick) (t : thread)
  : thread * nat * bool * list pick :=
  match t_weeks t with
  | [] => (start_upload t, 0, false, picks)
  | g0 :: _ =>
      let '(w, picks') := choose picks t (fst g0) in
      match take_week w (t_weeks t) with
      | None => (t, 0, false, picks')                         (* cannot happen: w is a key *)
      | Some (files, rest) =>
          let t1 := set_weeks t rest in
          if not_needed w (t_uploaded t) (t_ready t) then (start_del t1 w files (t_ready t), 0, false, picks')
          else (* createReport: computeRandom first *)
            if bad p i then (set_pc t Done, 1, true, picks')
            else if has_counts files then (start_week t1 w files, 1, false, picks')
            else (t1, 1, false, picks')
      end
  end.

Definition fstep (p : fplan) (picks : list pick) (x : fstate) : fstate * list pick :=
  if x_pre x then
    (mkX (x_fs x) (x_log x) (x_t x) (x_err x) (S (x_idx x)) (x_panic x) false, picks)
  else
    match t_pc (x_t x) with
    | RPick =>
        let '(t', n, pan, picks') := fpick p (x_idx x) picks (x_t x) in
        (mkX (x_fs x) (x_log x) t' false (x_idx x + n) (x_panic x || pan) false, picks')
    | _ =>
        let '(e, t', err', n, pan) := fdecide p (x_idx x) (x_fs x) (x_err x) (x_t x) in
        let '(f', log') := apply_eff e (x_fs x) (x_log x) in
        (mkX f' log' t' err' (x_idx x + n) (x_panic x || pan) false, picks)
    end.

Definition fdone (x : fstate) : bool :=
  negb (x_pre x) && match t_pc (x_t x) with Done => true | _ => false end.

Fixpoint frun (fuel : nat) (p : fplan) (picks : list pick) (x : fstate) : fstate :=
  match fuel with
  | O => x
  | S k => if fdone x then x else let '(x', picks') := fstep p picks x in frun k p picks' x'
  end.

Definition finit (f : FS) (c : ucfg) (exported : bool) : fstate :=
  mkX f [] (new_thread 0 c) false 0 false exported.

(* ---- the explicit bound on the number of calls of a run: n = number of
        entries of local/ ---- *)
Definition call_bound (n : nat) : nat := 21 * n + 6.
Definition entries (f : FS) : nat := length (f_local f).
