(* Model/Bucket: the file-system storage bucket of godev/internal/storage
   (FSBucket / FSObject) over a model of the directory tree below the bucket
   directory, and the abstract specification: a sorted association list
   object path -> bytes.  Executable definitions only.

   The tree is a finite map  path (list of components) -> entry, where an
   entry is a regular file with its content or a directory; the bucket
   directory itself is the path [].  The map is kept sorted by the
   component-wise lexicographic order, which is the order fs.WalkDir visits
   entries in (ReadDir sorts each directory by name; depth first). *)
From Coq Require Import List NArith ZArith Bool.
From Tele Require Import Lib.Bytes Lib.Calendar Lib.SortedMap.
Import ListNotations.
Open Scope N_scope.

Definition slash : N := 47.
Definition path := list bytes.
Definition comp_cmp : bytes -> bytes -> comparison := lex_cmp N.compare.
Definition path_cmp : path -> path -> comparison := lex_cmp comp_cmp.

(* ---- object names ---- *)
Definition components (name : bytes) : path := split_byte name slash.
Definition join_path (p : path) : bytes := join p [slash].

Definition dot : bytes := [46].
Definition dotdot : bytes := [46; 46].
Definition comp_ok (c : bytes) : bool := negb (beq c []) && negb (beq c dot) && negb (beq c dotdot).
(* "ordinary slash-separated components" *)
Definition name_ok (n : bytes) : bool := forallb comp_ok (components n).

(* filepath.Join(dir, bucket, filepath.FromSlash(name)) relative to
   dir/bucket (lexical cleaning; separator '/'): the components that remain,
   or Escapes when a ".." climbs above the bucket directory. *)
Inductive resolved := Inside (p : path) | Escapes.
Fixpoint clean_rel (stack : path) (cs : path) : resolved :=
  match cs with
  | [] => Inside (rev stack)
  | c :: cs' =>
      if beq c [] || beq c dot then clean_rel stack cs'
      else if beq c dotdot then
        match stack with [] => Escapes | _ :: st => clean_rel st cs' end
      else clean_rel (c :: stack) cs'
  end.
Definition resolve (name : bytes) : resolved := clean_rel [] (components name).

(* ---- the directory tree ---- *)
Inductive entry := F (content : bytes) | D.
Definition fs := list (path * entry).
Definition fget (p : path) (m : fs) : option entry := get path_cmp p m.
Definition fput (p : path) (e : entry) (m : fs) : fs := put path_cmp p e m.
(* after NewFSBucket: MkdirAll(dir/bucket) *)
Definition fs_init : fs := [([], D)].

(* non-empty prefixes of a path, shortest first; the last one is the path *)
Fixpoint inits (p : path) : list path :=
  match p with
  | [] => []
  | k :: p' => [k] :: map (cons k) (inits p')
  end.
(* the directories filepath.Dir(filename) stands for, below the bucket dir *)
Definition parents (p : path) : list path := inits (removelast p).

(* os.MkdirAll: existing directories are kept, missing ones are created from
   the top, a regular file on the way is an error (ENOTDIR).  The tree built
   so far is returned in the error case too. *)
Fixpoint mkdirs (m : fs) (ds : list path) : bool * fs :=
  match ds with
  | [] => (true, m)
  | d :: ds' =>
      match fget d m with
      | Some D => mkdirs m ds'
      | Some (F _) => (false, m)
      | None => mkdirs (fput d D m) ds'
      end
  end.

(* FSObject.NewWriter + Write + Close: MkdirAll(Dir(filename)); os.Create
   (truncates a file, fails with EISDIR on a directory) *)
Definition write (m : fs) (p : path) (c : bytes) : bool * fs :=
  let '(ok, m1) := mkdirs m (parents p) in
  if ok then
    match fget p m1 with
    | Some D => (false, m1)
    | _ => (true, fput p (F c) m1)
    end
  else (false, m1).

(* FSObject.NewReader + ReadAll: path resolution as the kernel does it.
   Since fix 8c1d2a3 NewReader maps ENOENT, ENOTDIR (a regular file on the
   way) and "the name is a directory" to ErrObjectNotExist.  RIsDir / RNotDir
   remain as result tags the harness can report (the behaviour before the
   fix); the model never produces them. *)
Inductive rres := ROk (c : bytes) | RNotExist | RIsDir | RNotDir.
Fixpoint walk_dirs (m : fs) (ds : list path) : option rres :=
  match ds with
  | [] => None
  | d :: ds' =>
      match fget d m with
      | Some D => walk_dirs m ds'
      | Some (F _) => Some RNotExist     (* ENOTDIR -> ErrObjectNotExist *)
      | None => Some RNotExist           (* ENOENT -> ErrObjectNotExist *)
      end
  end.
Definition read (m : fs) (p : path) : rres :=
  match walk_dirs m (parents p) with
  | Some r => r
  | None =>
      match fget p m with
      | Some (F c) => ROk c
      | Some D => RNotExist              (* os.Open succeeds, Stat says directory -> ErrObjectNotExist *)
      | None => RNotExist
      end
  end.

(* the regular files, in walk order *)
Definition file_of (e : entry) : option bytes := match e with F c => Some c | D => None end.
Definition files (m : fs) : list (path * bytes) := fmf file_of m.
(* utf8.ValidString *)
Definition in_rng (lo hi b : N) : bool := (lo <=? b) && (b <=? hi).
Fixpoint utf8_valid (s : bytes) : bool :=
  match s with
  | [] => true
  | b0 :: s1 =>
      if b0 <? 128 then utf8_valid s1
      else if in_rng 194 223 b0 then
        match s1 with b1 :: s2 => in_rng 128 191 b1 && utf8_valid s2 | _ => false end
      else if in_rng 224 239 b0 then
        match s1 with
        | b1 :: b2 :: s3 =>
            (if N.eqb b0 224 then in_rng 160 191 b1
             else if N.eqb b0 237 then in_rng 128 159 b1 else in_rng 128 191 b1)
            && in_rng 128 191 b2 && utf8_valid s3
        | _ => false
        end
      else if in_rng 240 244 b0 then
        match s1 with
        | b1 :: b2 :: b3 :: s4 =>
            (if N.eqb b0 240 then in_rng 144 191 b1
             else if N.eqb b0 244 then in_rng 128 143 b1 else in_rng 128 191 b1)
            && in_rng 128 191 b2 && in_rng 128 191 b3 && utf8_valid s4
        | _ => false
        end
      else false
  end.
(* fs.WalkDir over os.DirFS reads a directory only when its slash-joined
   path is fs.ValidPath, i.e. valid UTF-8 (the other conditions of ValidPath
   hold for paths the walk itself builds); the error is passed to the
   callback, which ignores it: the subtree is skipped silently. *)
Definition walkable (p : path) : bool := forallb utf8_valid (removelast p).
(* FSBucket.Objects(prefix): WalkDir, directories skipped, slash-joined path
   kept when it has the STRING prefix *)
Definition listing (walk_all : bool) (l : list (path * bytes)) (prefix : bytes) : list bytes :=
  filter (fun n => has_prefix n prefix)
    (map (fun kv => join_path (fst kv)) (filter (fun kv => walk_all || walkable (fst kv)) l)).
Definition list_names (m : fs) (prefix : bytes) : list bytes := listing false (files m) prefix.

(* ---- abstract specification: a map object path -> bytes ---- *)
Definition smap := list (path * bytes).
Definition sget (p : path) (s : smap) : option bytes := get path_cmp p s.
Definition sput (p : path) (c : bytes) (s : smap) : smap := put path_cmp p c s.

Fixpoint is_prefix (q p : path) : bool :=
  match q, p with
  | [], _ => true
  | x :: q', y :: p' => beq x y && is_prefix q' p'
  | _ :: _, [] => false
  end.
Definition is_pprefix (q p : path) : bool := is_prefix q p && negb (Nat.eqb (length q) (length p)).

(* some stored object lies below p (p is a directory on disk) *)
Definition below (p : path) (s : smap) : bool := existsb (fun kv => is_pprefix p (fst kv)) s.
(* some stored object is a proper ancestor of p (a file is in the way) *)
Definition above (p : path) (s : smap) : bool := existsb (fun kv => is_pprefix (fst kv) p) s.
Definition collides (p : path) (s : smap) : bool := above p s || below p s.

Definition spec_write (s : smap) (p : path) (c : bytes) : bool * smap :=
  if collides p s then (false, s) else (true, sput p c s).
(* reads: what the property asks for is what the code does (fix 8c1d2a3) *)
Definition spec_read_strict (s : smap) (p : path) : rres :=
  match sget p s with Some c => ROk c | None => RNotExist end.
Definition spec_read (s : smap) (p : path) : rres := spec_read_strict s p.
(* strict: every stored name with the prefix (what the property asks for);
   otherwise what the code does (names below a non-UTF-8 directory missing) *)
Definition spec_list (strict : bool) (s : smap) (prefix : bytes) : list bytes := listing strict s prefix.

(* ---- operation sequences ---- *)
Inductive op := OWrite (name content : bytes) | ORead (name : bytes) | OList (prefix : bytes)
  | OCopy (dst src : bytes).           (* storage.Copy(ctx, bucket.Object(dst), bucket.Object(src)) *)
Inductive res := RW (ok : bool) | RR (r : rres) | RL (names : list bytes) | RC (ok : bool).

Definition op_ok (o : op) : bool :=
  match o with
  | OWrite n _ => name_ok n | ORead n => name_ok n | OList _ => true
  | OCopy d s => name_ok d && name_ok s
  end.

(* storage.Copy between two FS objects: src.NewReader (an absent source is an
   error); when both are the same file nothing more is done (fix 11cc580);
   otherwise dst.NewWriter (MkdirAll + os.Create) and io.Copy. *)
Definition same_path (a b : path) : bool := match path_cmp a b with Eq => true | _ => false end.
Definition copy (m : fs) (dst src : path) : bool * fs :=
  match read m src with
  | ROk c => if same_path dst src then (true, m) else write m dst c
  | _ => (false, m)
  end.
(* specification: Copy(dst, src) = write(dst, read(src)), which for dst = src
   leaves the map as it is *)
Definition spec_copy (s : smap) (dst src : path) : bool * smap :=
  match sget src s with
  | Some c => if same_path dst src then (true, s) else spec_write s dst c
  | None => (false, s)
  end.

Definition step_fs (m : fs) (o : op) : res * fs :=
  match o with
  | OWrite n c => let '(ok, m') := write m (components n) c in (RW ok, m')
  | ORead n => (RR (read m (components n)), m)
  | OList pre => (RL (list_names m pre), m)
  | OCopy d sr => let '(ok, m') := copy m (components d) (components sr) in (RC ok, m')
  end.
Definition step_spec (strict : bool) (s : smap) (o : op) : res * smap :=
  match o with
  | OWrite n c => let '(ok, s') := spec_write s (components n) c in (RW ok, s')
  | ORead n => (RR ((if strict then spec_read_strict else spec_read) s (components n)), s)
  | OList pre => (RL (spec_list strict s pre), s)
  | OCopy d sr => let '(ok, s') := spec_copy s (components d) (components sr) in (RC ok, s')
  end.

Fixpoint run_fs (m : fs) (ops : list op) : list res * fs :=
  match ops with
  | [] => ([], m)
  | o :: ops' => let '(r, m') := step_fs m o in let '(rs, m'') := run_fs m' ops' in (r :: rs, m'')
  end.
Fixpoint run_spec (strict : bool) (s : smap) (ops : list op) : list res * smap :=
  match ops with
  | [] => ([], s)
  | o :: ops' => let '(r, s') := step_spec strict s o in
                 let '(rs, s'') := run_spec strict s' ops' in (r :: rs, s'')
  end.

(* the only operations on which the code and the property's wording differ:
   listing when a stored name with the prefix lies below a directory whose
   name is not valid UTF-8 *)
Definition deviating (s : smap) (o : op) : bool :=
  match o with
  | ORead _ => false
  | OList pre => existsb (fun kv => has_prefix (join_path (fst kv)) pre && negb (walkable (fst kv))) s
  | OWrite _ _ => false
  | OCopy _ _ => false
  end.
Fixpoint no_deviation (s : smap) (ops : list op) : bool :=
  match ops with
  | [] => true
  | o :: ops' => negb (deviating s o) && no_deviation (snd (step_spec true s o)) ops'
  end.

(* ---- writers as handles ----
   NewWriter returns an *os.File: the object exists (empty) as soon as the
   writer is open, every Write appends to it, Close changes nothing any more;
   a second Close and a Write after Close fail (file already closed).  Several
   writers can be open at once.  Histories are DISCIPLINED: while a writer is
   open on an object nothing else stores to that object (then "file offset"
   and "end of the object" coincide, which is what `append` models). *)
Definition append (m : fs) (p : path) (data : bytes) : bool * fs :=
  match read m p with
  | ROk c => write m p (c ++ data)
  | _ => (false, m)
  end.
Definition spec_append (s : smap) (p : path) (data : bytes) : bool * smap :=
  match sget p s with
  | Some c => spec_write s p (c ++ data)
  | None => (false, s)
  end.
Record handle := mkHandle { h_name : bytes; h_open : bool }.
Inductive wop :=
  | WPlain (o : op)
  | WOpen (name : bytes)                 (* NewWriter; a handle is created only when it succeeds *)
  | WWrite (h : nat) (data : bytes)      (* handles are numbered in the order they were opened *)
  | WClose (h : nat).
Inductive wres := WR (r : res) | WOk (ok : bool).
Fixpoint set_closed (k : nat) (hs : list handle) : list handle :=
  match hs, k with
  | [], _ => []
  | h :: hs', O => mkHandle (h_name h) false :: hs'
  | h :: hs', S k' => h :: set_closed k' hs'
  end.
Definition step_w (st : fs * list handle) (o : wop) : wres * (fs * list handle) :=
  let '(m, hs) := st in
  match o with
  | WPlain o' => let '(r, m') := step_fs m o' in (WR r, (m', hs))
  | WOpen n => let '(ok, m') := write m (components n) [] in
               (WOk ok, (m', if ok then hs ++ [mkHandle n true] else hs))
  | WWrite k data =>
      match nth_error hs k with
      | Some h => if h_open h then let '(ok, m') := append m (components (h_name h)) data in (WOk ok, (m', hs))
                  else (WOk false, (m, hs))
      | None => (WOk false, (m, hs))
      end
  | WClose k =>
      match nth_error hs k with
      | Some h => (WOk (h_open h), (m, set_closed k hs))
      | None => (WOk false, (m, hs))
      end
  end.
Definition step_w_spec (strict : bool) (st : smap * list handle) (o : wop) : wres * (smap * list handle) :=
  let '(s, hs) := st in
  match o with
  | WPlain o' => let '(r, s') := step_spec strict s o' in (WR r, (s', hs))
  | WOpen n => let '(ok, s') := spec_write s (components n) [] in
               (WOk ok, (s', if ok then hs ++ [mkHandle n true] else hs))
  | WWrite k data =>
      match nth_error hs k with
      | Some h => if h_open h then let '(ok, s') := spec_append s (components (h_name h)) data in (WOk ok, (s', hs))
                  else (WOk false, (s, hs))
      | None => (WOk false, (s, hs))
      end
  | WClose k =>
      match nth_error hs k with
      | Some h => (WOk (h_open h), (s, set_closed k hs))
      | None => (WOk false, (s, hs))
      end
  end.
Fixpoint run_w (st : fs * list handle) (ops : list wop) : list wres * (fs * list handle) :=
  match ops with
  | [] => ([], st)
  | o :: ops' => let '(r, st') := step_w st o in let '(rs, st'') := run_w st' ops' in (r :: rs, st'')
  end.
Fixpoint run_w_spec (strict : bool) (st : smap * list handle) (ops : list wop) : list wres * (smap * list handle) :=
  match ops with
  | [] => ([], st)
  | o :: ops' => let '(r, st') := step_w_spec strict st o in
                 let '(rs, st'') := run_w_spec strict st' ops' in (r :: rs, st'')
  end.

(* ---- listings and the caller's context ----
   FSBucket.Objects(ctx, prefix) walks the whole bucket before it returns and
   never consults ctx: the listing is complete whether or not the context is
   already done.  Result: (an error was surfaced by the iterator, names). *)
Definition list_ctx (ctx_done : bool) (m : fs) (prefix : bytes) : bool * list bytes :=
  (false, list_names m prefix).
Fixpoint names_eqb (a b : list bytes) : bool :=
  match a, b with
  | [], [] => true
  | x :: a', y :: b' => beq x y && names_eqb a' b'
  | _, _ => false
  end.
(* what the property asks of a listing: complete, or it fails *)
Definition listing_ok (complete : list bytes) (r : bool * list bytes) : bool :=
  fst r || names_eqb (snd r) complete.

(* ---- several buckets in one process ----
   A bucket is identified by the storage root it was opened under AND its
   name (storage.NewAPI / NewBucket with cfg.LocalStorage = root): its tree is
   the directory root/name.  Operations address one bucket. *)
Definition bid := (N * N)%type.
Definition bid_eqb (a b : bid) : bool := N.eqb (fst a) (fst b) && N.eqb (snd a) (snd b).
Definition world := bid -> fs.
Definition world_init : world := fun _ => fs_init.
Definition wput (b : bid) (m : fs) (w : world) : world := fun b' => if bid_eqb b' b then m else w b'.
Definition step_world (w : world) (bo : bid * op) : (bid * res) * world :=
  let '(r, m') := step_fs (w (fst bo)) (snd bo) in ((fst bo, r), wput (fst bo) m' w).
Fixpoint run_world (w : world) (ops : list (bid * op)) : list (bid * res) * world :=
  match ops with
  | [] => ([], w)
  | bo :: ops' => let '(r, w') := step_world w bo in
                  let '(rs, w'') := run_world w' ops' in (r :: rs, w'')
  end.
(* the operations / results that concern one bucket *)
Definition proj_ops (b : bid) (ops : list (bid * op)) : list op :=
  map snd (filter (fun bo => bid_eqb (fst bo) b) ops).
Definition proj_res (b : bid) (rs : list (bid * res)) : list res :=
  map snd (filter (fun br => bid_eqb (fst br) b) rs).

(* ---- the object names the services construct ---- *)
Definition json_ext : bytes := [46; 106; 115; 111; 110].   (* ".json" *)
(* fmt.Sprintf("%s/%g.json", report.Week, report.X): xs is the %g rendering *)
Definition upload_name (week xs : bytes) : bytes := week ++ [slash] ++ xs ++ json_ext.
(* date + ".json" (worker handleMerge, readMergedReports) *)
Definition merge_name (date : bytes) : bytes := date ++ json_ext.
(* worker fileName(start, end) *)
Definition chart_name (start fin : Z) : bytes :=
  if Z.eqb start fin then fmt_date fin ++ json_ext
  else fmt_date start ++ [95] ++ fmt_date fin ++ json_ext.
(* characters strconv's 'g' format can produce for a finite value *)
Definition g_char (c : N) : bool :=
  is_digit c || N.eqb c 101 || N.eqb c 69 || N.eqb c 43 || N.eqb c 45 || N.eqb c 46.
Definition g_string (xs : bytes) : bool := negb (beq xs []) && forallb g_char xs.
