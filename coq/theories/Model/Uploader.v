(* Model/Uploader: internal/upload's uploader.Run (findwork.go, reports.go,
   upload.go, date.go) as a thread program over Lib/FS with one program point
   per file-system / HTTP call.  N uploaders = N threads; a sequential run is
   a schedule with one thread.  A schedule is a list of (thread, action):

     AStep o    the thread performs the call it is parked before (o = the
                server's answer, used only when the call is http.Post)
     APick w    reports(): Go's map iteration picks week w next (no call)
     APickNone  reports(): the range loop is over (no call)
     AKill      the process is killed: nothing of it runs afterwards, in
                particular not the deferred removal of the lock file

   Count-file contents are abstract (the result of counter.Parse and of the
   span extraction is data of the file); report bodies are abstract (which
   files were folded into which week, by whom).

   Executable definitions only. *)
From Coq Require Import String.
From Coq Require Import List ZArith NArith Bool.
From Tele Require Import Lib.Bytes Lib.Calendar Lib.FS Gen.Consts Model.Span.
Import ListNotations.
Open Scope Z_scope.

(* ---- file contents ---- *)
Record cfile := mkCF {
  cf_begin : Z; cf_end : Z;          (* TimeBegin / TimeEnd, unix seconds (UTC) *)
  cf_prog : N;                       (* program identity (Program, Version, GoVersion, GOOS, GOARCH) *)
  cf_counts : list (N * Z)           (* counter id -> value *)
}.

Record report := mkRep {
  r_week : bytes; r_last : bytes;
  r_up : bool;                       (* the upload (filtered) version *)
  r_files : list (bytes * cfile);    (* count files folded in, in order *)
  r_by : nat                         (* author thread (stands for the random X) *)
}.

Inductive content :=
  | CCount (p : option cfile) (h : N)   (* count file: parse result (None = unparseable), bytes id *)
  | CRep (r : option report)            (* report created by a run; None = created, not yet written *)
  | CLock
  | CRaw (h : N).                       (* any other file, opaque bytes id *)

Definition parse (c : content) : option cfile :=
  match c with CCount p _ => p | _ => None end.

(* ---- names ---- *)
Definition sfx_count : bytes := Eval compute in s2b ".v1.count"%string.
Definition sfx_json : bytes := Eval compute in s2b ".json"%string.
Definition sfx_lock : bytes := Eval compute in s2b ".lock"%string.
Definition pfx_local : bytes := Eval compute in s2b "local."%string.

Definition local_name (w : bytes) : bytes := pfx_local ++ w ++ sfx_json.
Definition ready_name (w : bytes) : bytes := w ++ sfx_json.
Definition marker_name (w : bytes) : bytes := w ++ sfx_json.
Definition lock_name (w : bytes) : bytes := (w ++ sfx_json) ++ sfx_lock.

Definition is_count (n : bytes) : bool := has_suffix n sfx_count.
Definition is_localrep (n : bytes) : bool := has_prefix n pfx_local.
Definition is_json (n : bytes) : bool := has_suffix n sfx_json.

(* \d\d\d\d-\d\d-\d\d *)
Definition date_pat (b : bytes) : bool :=
  match b with
  | [a; b0; c; d; e; f; g; h; i; j] =>
      is_digit a && is_digit b0 && is_digit c && is_digit d && N.eqb e dash
      && is_digit f && is_digit g && N.eqb h dash && is_digit i && is_digit j
  | _ => false
  end.

(* uploadReportContents: the last len(DateOnly) bytes of the base name
   without ".json"; None = the name is too short (the report is skipped) *)
Definition fdate (n : bytes) : option bytes :=
  let b := trim_suffix n sfx_json in
  if (length b <? length c_DateOnly)%nat then None
  else Some (skipn (length b - length c_DateOnly) b).

(* dateRE on a name: the ten bytes before ".json" when they look like a date *)
Definition re_date (n : bytes) : option bytes :=
  if is_json n then
    match fdate n with
    | Some d => if date_pat d then Some d else None
    | None => None
    end
  else None.

(* ---- configuration of one run ---- *)
Record ucfg := mkCfg {
  u_start : Z * Z;           (* start time: seconds, nanoseconds *)
  u_on : bool;               (* mode "on" (true) or "local" (false) *)
  u_asof : option Z;         (* the mode file's date, seconds; None = absent *)
  u_dir : bytes;             (* path of local/ (no longer examined: notNeeded looks at base names) *)
  u_zone : Z                 (* the start time's zone, seconds east of UTC: only "today" is read off that clock *)
}.

(* thisInstant.Format(DateOnly): the date of the start instant on the start time's own clock.  The
   week of a count file (uploader_week of its end) does not depend on that zone. *)
Definition today (c : ucfg) : bytes := fmt_date ((fst (u_start c) + u_zone c) / 86400).

(* findWork: is a *.json entry collected for upload *)
Definition ready_ok (asof : option Z) (n : bytes) : bool :=
  match asof, re_date n with
  | Some a, Some d =>
      match parse_date d with
      | Some day => a <? day * 86400
      | None => true
      end
  | _, _ => true
  end.

Definition collect_ready (c : ucfg) (n : bytes) : bool :=
  negb (is_count n) && negb (is_localrep n) && is_json n && u_on c && ready_ok (u_asof c) n.

(* tooOld *)
Definition too_old (w : bytes) (start : Z * Z) : bool :=
  match parse_date w with
  | Some day => c_distantPast_ns <? (fst start - day * 86400) * 1000000000 + snd start
  | None => false
  end.

Definition earliest (files : list (bytes * cfile)) : Z :=
  match files with
  | [] => 0
  | e :: l => fold_left (fun m x => Z.min m (cf_begin (snd x))) l (cf_begin (snd e))
  end.

Definition upload_ok (c : ucfg) (w : bytes) (files : list (bytes * cfile)) : bool :=
  u_on c && negb (too_old w (u_start c))
  && match u_asof c with Some a => a <? earliest files | None => true end.

(* latestReport + the "should never happen" guard *)
Definition max_name (l : list bytes) : bytes :=
  fold_left (fun a n => if bltb a n then n else a) l [].
Definition last_week (uploaded : option (list bytes)) (tod : bytes) : bytes :=
  match uploaded with
  | None => []
  | Some u =>
      let m := trim_suffix (max_name u) sfx_json in
      if bleb tod m then [] else m
  end.

(* ---- grouping by expiry date ---- *)
Definition group := (bytes * list (bytes * cfile))%type.

Fixpoint group_add (g : list group) (w : bytes) (e : bytes * cfile) : list group :=
  match g with
  | [] => [(w, [e])]
  | (w', l) :: g' => if beq w' w then (w', l ++ [e]) :: g' else (w', l) :: group_add g' w e
  end.

Definition group_files (start : Z * Z) (cs : list (bytes * cfile)) : list group :=
  fold_left (fun g e =>
               if before_start (cf_end (snd e)) start
               then group_add g (uploader_week (cf_end (snd e))) e else g) cs [].

Fixpoint take_week (w : bytes) (g : list group) : option (list (bytes * cfile) * list group) :=
  match g with
  | [] => None
  | (w', l) :: g' =>
      if beq w' w then Some (l, g')
      else match take_week w g' with
           | Some (l0, r) => Some (l0, (w', l) :: r)
           | None => None
           end
  end.

(* notNeeded: the uploaded marker, or a ready file whose (base) name contains the date *)
Definition not_needed (w : bytes) (uploaded : option (list bytes)) (ready : list bytes) : bool :=
  (match uploaded with Some u => existsb (beq (w ++ sfx_json)) u | None => false end)
  || existsb (fun f => contains f w) ready.

Definition has_counts (files : list (bytes * cfile)) : bool :=
  existsb (fun e => match cf_counts (snd e) with [] => false | _ => true end) files.

(* ---- threads ---- *)
Inductive pc :=
  | FReadLocal | FReadCount | FReadUpload | FMkdir                    (* findWork *)
  | RPick | RDel | RStatLocal | RStatUp
  | RCreateUp | RWriteUp | RCreateLocal | RWriteLocal                 (* reports / createReport *)
  | URead | ULock | UStat | URemAlready | UPost | URem4xx
  | UWriteMarker | URemDone | UUnlock                                 (* uploadReport *)
  | Done.

Record thread := mkT {
  t_id : nat; t_cfg : ucfg; t_pc : pc; t_killed : bool;
  t_ents : list bytes;                 (* findWork: count files still to read *)
  t_count : list (bytes * cfile);      (* todo.countfiles with the cached parse *)
  t_ready : list bytes;                (* todo.readyfiles *)
  t_uploaded : option (list bytes);    (* todo.uploaded (None = nil map) *)
  t_weeks : list group;                (* map entries not yet visited *)
  t_week : bytes;                      (* week being reported / fdate being uploaded *)
  t_files : list (bytes * cfile);      (* its count files *)
  t_upok : bool;
  t_last : bytes;                      (* lastWeek *)
  t_dels : list bytes;                 (* deleteFiles: still to remove *)
  t_fd : nat;                          (* handle of the file being written *)
  t_up : list bytes;                   (* ready files still to upload *)
  t_file : bytes;                      (* ready file being uploaded *)
  t_buf : content                      (* its content as read *)
}.

Definition new_thread (id : nat) (c : ucfg) : thread :=
  mkT id c FReadLocal false [] [] [] None [] [] [] false [] [] 0 [] [] CLock.

Definition set_pc (t : thread) (p : pc) : thread :=
  mkT (t_id t) (t_cfg t) p (t_killed t) (t_ents t) (t_count t) (t_ready t) (t_uploaded t)
      (t_weeks t) (t_week t) (t_files t) (t_upok t) (t_last t) (t_dels t) (t_fd t) (t_up t) (t_file t) (t_buf t).
Definition kill (t : thread) : thread :=
  mkT (t_id t) (t_cfg t) (t_pc t) true (t_ents t) (t_count t) (t_ready t) (t_uploaded t)
      (t_weeks t) (t_week t) (t_files t) (t_upok t) (t_last t) (t_dels t) (t_fd t) (t_up t) (t_file t) (t_buf t).
(* findWork *)
Definition set_listing (t : thread) (p : pc) (ents ready : list bytes) : thread :=
  mkT (t_id t) (t_cfg t) p (t_killed t) ents [] ready (t_uploaded t)
      (t_weeks t) (t_week t) (t_files t) (t_upok t) (t_last t) (t_dels t) (t_fd t) (t_up t) (t_file t) (t_buf t).
Definition set_read (t : thread) (p : pc) (ents : list bytes) (cnt : list (bytes * cfile)) : thread :=
  mkT (t_id t) (t_cfg t) p (t_killed t) ents cnt (t_ready t) (t_uploaded t)
      (t_weeks t) (t_week t) (t_files t) (t_upok t) (t_last t) (t_dels t) (t_fd t) (t_up t) (t_file t) (t_buf t).
(* entering reports(): grouping and lastWeek *)
Definition enter_reports (t : thread) (upl : option (list bytes)) : thread :=
  mkT (t_id t) (t_cfg t) RPick (t_killed t) (t_ents t) (t_count t) (t_ready t) upl
      (group_files (u_start (t_cfg t)) (t_count t)) (t_week t) (t_files t) (t_upok t)
      (last_week upl (today (t_cfg t))) (t_dels t) (t_fd t) (t_up t) (t_file t) (t_buf t).
Definition set_weeks (t : thread) (g : list group) : thread :=
  mkT (t_id t) (t_cfg t) (t_pc t) (t_killed t) (t_ents t) (t_count t) (t_ready t) (t_uploaded t)
      g (t_week t) (t_files t) (t_upok t) (t_last t) (t_dels t) (t_fd t) (t_up t) (t_file t) (t_buf t).
Definition start_week (t : thread) (w : bytes) (files : list (bytes * cfile)) : thread :=
  mkT (t_id t) (t_cfg t) RStatLocal (t_killed t) (t_ents t) (t_count t) (t_ready t) (t_uploaded t)
      (t_weeks t) w files (upload_ok (t_cfg t) w files) (t_last t) (t_dels t) (t_fd t) (t_up t) (t_file t) (t_buf t).
(* deleteFiles(files) then back to the range loop *)
Definition start_del (t : thread) (w : bytes) (files : list (bytes * cfile)) (ready : list bytes) : thread :=
  mkT (t_id t) (t_cfg t) (match files with [] => RPick | _ => RDel end) (t_killed t)
      (t_ents t) (t_count t) ready (t_uploaded t)
      (t_weeks t) w files (t_upok t) (t_last t) (map fst files) (t_fd t) (t_up t) (t_file t) (t_buf t).
Definition set_dels (t : thread) (p : pc) (d : list bytes) : thread :=
  mkT (t_id t) (t_cfg t) p (t_killed t) (t_ents t) (t_count t) (t_ready t) (t_uploaded t)
      (t_weeks t) (t_week t) (t_files t) (t_upok t) (t_last t) d (t_fd t) (t_up t) (t_file t) (t_buf t).
Definition set_fd (t : thread) (p : pc) (fd : nat) : thread :=
  mkT (t_id t) (t_cfg t) p (t_killed t) (t_ents t) (t_count t) (t_ready t) (t_uploaded t)
      (t_weeks t) (t_week t) (t_files t) (t_upok t) (t_last t) (t_dels t) fd (t_up t) (t_file t) (t_buf t).
(* createReport's tail: remember the upload file, delete the count files *)
Definition finish_week (t : thread) : thread :=
  start_del t (t_week t) (t_files t)
            (if t_upok t then t_ready t ++ [ready_name (t_week t)] else t_ready t).
(* upload phase *)
Definition set_upfile (t : thread) (p : pc) (f : bytes) (rest : list bytes) : thread :=
  mkT (t_id t) (t_cfg t) p (t_killed t) (t_ents t) (t_count t) (t_ready t) (t_uploaded t)
      (t_weeks t) (t_week t) (t_files t) (t_upok t) (t_last t) (t_dels t) (t_fd t) rest f (t_buf t).
Definition set_buf (t : thread) (p : pc) (w : bytes) (c : content) : thread :=
  mkT (t_id t) (t_cfg t) p (t_killed t) (t_ents t) (t_count t) (t_ready t) (t_uploaded t)
      (t_weeks t) w (t_files t) (t_upok t) (t_last t) (t_dels t) (t_fd t) (t_up t) (t_file t) c.

(* uploadReport's first test: the report's date is later than today *)
Definition in_future (tod n : bytes) : bool :=
  match re_date n with Some d => bltb tod d | None => false end.

Fixpoint next_upload (tod : bytes) (l : list bytes) : option (bytes * list bytes) :=
  match l with
  | [] => None
  | f :: l' => if in_future tod f then next_upload tod l' else Some (f, l')
  end.

(* the loop "for _, f := range ready" moves on *)
Definition advance (t : thread) : thread :=
  match next_upload (today (t_cfg t)) (t_up t) with
  | Some (f, rest) => set_upfile t URead f rest
  | None => set_pc t Done
  end.
Definition start_upload (t : thread) : thread :=
  advance (set_upfile t (t_pc t) (t_file t) (t_ready t)).

Definition local_body (t : thread) : content :=
  CRep (Some (mkRep (t_week t) (t_last t) false (t_files t) (t_id t))).
Definition upload_body (t : thread) : content :=
  CRep (Some (mkRep (t_week t) (t_last t) true (t_files t) (t_id t))).

(* a week for which reports() makes no call at all: it is needed, and none of
   its files has a counter (createReport returns its error first) *)
Definition silent (t : thread) (g : group) : bool :=
  negb (not_needed (fst g) (t_uploaded t) (t_ready t)) && negb (has_counts (snd g)).

(* ---- server ---- *)
Inductive outcome := O200 | O4xx | O5xx | ONone.
Record ack := mkAck { a_week : bytes; a_body : content; a_out : outcome; a_by : nat }.

Inductive act := AStep (o : outcome) | APick (w : bytes) | APickNone | AKill.

Definition FS := fs content.

Definition goto_read (t : thread) (ents : list bytes) (cnt : list (bytes * cfile)) : thread :=
  set_read t (match ents with [] => FReadUpload | _ => FReadCount end) ents cnt.

(* ---- effects: what one call does to the file system / the server ---- *)
Inductive effect :=
  | ENone
  | ERemLocal (n : bytes)                  (* os.Remove in local/ *)
  | ECreateLocal (n : bytes)               (* O_CREATE|O_EXCL succeeded: an empty file *)
  | EWriteId (fd : nat) (c : content)      (* f.Write through the handle *)
  | EMkdir                                 (* os.MkdirAll(upload) *)
  | ECreateLock (n : bytes)                (* O_CREATE|O_EXCL of the lock file succeeded *)
  | EPutUp (n : bytes) (c : content)       (* os.WriteFile in upload/ *)
  | ERemUp (n : bytes)                     (* os.Remove in upload/ *)
  | EPost (a : ack).                       (* http.Post reached the server *)

Definition apply_eff (e : effect) (f : FS) (log : list ack) : FS * list ack :=
  match e with
  | ENone => (f, log)
  | ERemLocal n => (set_local f (d_remove (f_local f) n), log)
  | ECreateLocal n => (bump (set_local f (d_add (f_local f) n (f_next f) (CRep None))), log)
  | EWriteId fd c => (set_local f (d_set_id (f_local f) fd c), log)
  | EMkdir => (mkFS (f_local f) (Some (up_dir f)) (f_next f), log)
  | ECreateLock n => (bump (set_upload f (d_add (up_dir f) n (f_next f) CLock)), log)
  | EPutUp n c => (bump (set_upload f (d_put (up_dir f) n (f_next f) c)), log)
  | ERemUp n => (set_upload f (d_remove (up_dir f) n), log)
  | EPost a => (f, log ++ [a])
  end.

(* the call the thread is parked before: its effect (decided on what the
   call observes) and the thread's continuation *)
Definition decide (f : FS) (o : outcome) (t : thread) : effect * thread :=
  let c := t_cfg t in
  let w := t_week t in
  match t_pc t with
  | FReadLocal =>
      let names := d_names (f_local f) in
      let ents := filter is_count names in
      (ENone, set_listing t (match ents with [] => FReadUpload | _ => FReadCount end)
                          ents (filter (collect_ready c) names))
  | FReadCount =>
      match t_ents t with
      | [] => (ENone, set_pc t FReadUpload)
      | n :: rest =>
          let cnt :=
            match d_get (f_local f) n with
            | Some ct =>
                match parse ct with
                | Some cf => if after_start (cf_end cf) (u_start c) then t_count t
                             else t_count t ++ [(n, cf)]
                | None => t_count t
                end
            | None => t_count t
            end in
          (ENone, goto_read t rest cnt)
      end
  | FReadUpload =>
      match f_upload f with
      | None => (ENone, set_pc t FMkdir)
      | Some d => (ENone, enter_reports t (Some (filter is_json (d_names d))))
      end
  | FMkdir => (EMkdir, enter_reports t None)
  | RPick => (ENone, t)
  | RDel =>
      match t_dels t with
      | [] => (ENone, set_pc t RPick)
      | n :: rest => (ERemLocal n, set_dels t (match rest with [] => RPick | _ => RDel end) rest)
      end
  | RStatLocal =>
      if d_mem (f_local f) (local_name w) then (ENone, start_del t w (t_files t) (t_ready t))
      else (ENone, set_pc t RStatUp)
  | RStatUp =>
      if d_mem (f_local f) (ready_name w) then (ENone, start_del t w (t_files t) (t_ready t))
      else (ENone, set_pc t (if t_upok t then RCreateUp else RCreateLocal))
  | RCreateUp =>
      if d_mem (f_local f) (ready_name w) then (ENone, set_pc t RCreateLocal)
      else (ECreateLocal (ready_name w), set_fd t RWriteUp (f_next f))
  | RWriteUp => (EWriteId (t_fd t) (upload_body t), set_pc t RCreateLocal)
  | RCreateLocal =>
      if d_mem (f_local f) (local_name w) then (ENone, finish_week t)
      else (ECreateLocal (local_name w), set_fd t RWriteLocal (f_next f))
  | RWriteLocal => (EWriteId (t_fd t) (local_body t), finish_week t)
  | URead =>
      match d_get (f_local f) (t_file t) with
      | None => (ENone, advance t)
      | Some ct =>
          match fdate (t_file t) with
          | None => (ENone, advance t)                 (* name too short to hold a date: skipped, file stays *)
          | Some d => (ENone, set_buf t ULock d ct)
          end
      end
  | ULock =>
      match f_upload f with
      | None => (ENone, advance t)
      | Some d =>
          if d_mem d (lock_name w) then (ENone, advance t)
          else (ECreateLock (lock_name w), set_pc t UStat)
      end
  | UStat =>
      if d_mem (up_dir f) (marker_name w) then (ENone, set_pc t URemAlready)
      else (ENone, set_pc t UPost)
  | URemAlready => (ERemLocal (t_file t), set_pc t UUnlock)
  | UPost =>
      (EPost (mkAck w (t_buf t) o (t_id t)),
       set_pc t (match o with O200 => UWriteMarker | O4xx => URem4xx | _ => UUnlock end))
  | URem4xx => (ERemLocal (t_file t), set_pc t UUnlock)
  | UWriteMarker =>
      match f_upload f with
      | Some _ => (EPutUp (marker_name w) (t_buf t), set_pc t URemDone)
      | None => (ENone, set_pc t UUnlock)
      end
  | URemDone => (ERemLocal (t_file t), set_pc t UUnlock)
  | UUnlock =>
      match f_upload f with
      | Some _ => (ERemUp (lock_name w), advance t)
      | None => (ENone, advance t)
      end
  | Done => (ENone, t)
  end.

Definition step_call (f : FS) (log : list ack) (o : outcome) (t : thread) : FS * list ack * thread :=
  let '(e, t') := decide f o t in
  let '(f', log') := apply_eff e f log in
  (f', log', t').

(* the range loop over the map of weeks *)
Definition step_pick (w : bytes) (t : thread) : thread :=
  match t_pc t with
  | RPick =>
      match take_week w (t_weeks t) with
      | None => t
      | Some (files, rest) =>
          let t1 := set_weeks t rest in
          if not_needed w (t_uploaded t) (t_ready t)
          then start_del t1 w files (t_ready t)
          else if has_counts files then start_week t1 w files
          else t1
      end
  | _ => t
  end.

Definition step_pick_none (t : thread) : thread :=
  match t_pc t with
  | RPick => if forallb (silent t) (t_weeks t) then start_upload t else t
  | _ => t
  end.

Definition step_thread (f : FS) (log : list ack) (a : act) (t : thread) : FS * list ack * thread :=
  if t_killed t then (f, log, t)
  else match a with
       | AStep o => step_call f log o t
       | APick w => (f, log, step_pick w t)
       | APickNone => (f, log, step_pick_none t)
       | AKill => (f, log, kill t)
       end.

Record state := mkSt { s_fs : FS; s_log : list ack; s_ths : list thread }.

Fixpoint upd {A} (l : list A) (i : nat) (x : A) : list A :=
  match l, i with
  | [], _ => []
  | _ :: l', O => x :: l'
  | y :: l', S i' => y :: upd l' i' x
  end.

Definition step (st : state) (ia : nat * act) : state :=
  match nth_error (s_ths st) (fst ia) with
  | Some t =>
      let '(f, log, t') := step_thread (s_fs st) (s_log st) (snd ia) t in
      mkSt f log (upd (s_ths st) (fst ia) t')
  | None => st
  end.

Definition run (sched : list (nat * act)) (st : state) : state := fold_left step sched st.

Definition init_state (f : FS) (cfgs : list ucfg) : state :=
  mkSt f [] (map (fun ic => new_thread (fst ic) (snd ic)) (combine (seq 0 (length cfgs)) cfgs)).

(* a later run: one more uploader starts *)
Definition spawn (st : state) (c : ucfg) : state :=
  mkSt (s_fs st) (s_log st) (s_ths st ++ [new_thread (length (s_ths st)) c]).

Definition finished (t : thread) : bool :=
  t_killed t || match t_pc t with Done => true | _ => false end.
Definition quiescent (st : state) : bool := forallb finished (s_ths st).

(* ---- canonical form of a report, for the comparison with the JSON the
        real code wrote: per program, per counter sums; the upload version
        keeps the approved counters only ---- *)
Fixpoint add_kv (l : list (N * Z)) (k : N) (v : Z) : list (N * Z) :=
  match l with
  | [] => [(k, v)]
  | (k', v') :: l' =>
      if N.eqb k' k then (k', v' + v) :: l'
      else if N.ltb k k' then (k, v) :: l
      else (k', v') :: add_kv l' k v
  end.
Definition add_kvs (l cs : list (N * Z)) : list (N * Z) :=
  fold_left (fun a kv => add_kv a (fst kv) (snd kv)) cs l.
Fixpoint add_prog (l : list (N * list (N * Z))) (p : N) (cs : list (N * Z)) : list (N * list (N * Z)) :=
  match l with
  | [] => [(p, add_kvs [] cs)]
  | (p', cs') :: l' =>
      if N.eqb p' p then (p', add_kvs cs' cs) :: l'
      else if N.ltb p p' then (p, add_kvs [] cs) :: l
      else (p', cs') :: add_prog l' p cs
  end.
Definition sums (allowed : list N) (up : bool) (files : list (bytes * cfile)) : list (N * list (N * Z)) :=
  fold_left (fun a e =>
               let cs := cf_counts (snd e) in
               add_prog a (cf_prog (snd e))
                        (if up then filter (fun kv => existsb (N.eqb (fst kv)) allowed) cs else cs))
            files [].

(* ---- executable oracles on observations ---- *)
Definition is200 (a : ack) : bool := match a_out a with O200 => true | _ => false end.
Definition count200 (w : bytes) (log : list ack) : nat :=
  length (filter (fun a => is200 a && beq (a_week a) w) log).
(* no week is acknowledged more than once (hence never with two bodies) *)
Definition acks_once (log : list ack) : bool :=
  forallb (fun a => negb (is200 a) || Nat.leb (count200 (a_week a) log) 1) log.
(* two acknowledgements of one week with different bodies, bodies given by an id *)
Fixpoint two_bodies (l : list (bytes * Z)) : bool :=
  match l with
  | [] => false
  | (w, b) :: l' => existsb (fun e => beq (fst e) w && negb (snd e =? b)) l' || two_bodies l'
  end.
Fixpoint acked_twice (l : list (bytes * Z)) : bool :=
  match l with
  | [] => false
  | (w, b) :: l' => existsb (fun e => beq (fst e) w) l' || acked_twice l'
  end.

(* week_reports_ok: the program entries observed in a local report (identity
   id, then (counter id, value) pairs - counters and stack counters, sorted by
   id; identities sorted) are the grouping of the folded count files by their
   FULL program identity (cf_prog: the id of the five fields Program, Version,
   GoVersion, GOOS, GOARCH), each value the sum over exactly that group *)
Fixpoint kvs_eqb (a b : list (N * Z)) : bool :=
  match a, b with
  | [], [] => true
  | (k, v) :: a', (k', v') :: b' => N.eqb k k' && Z.eqb v v' && kvs_eqb a' b'
  | _, _ => false
  end.
Fixpoint progs_eqb (a b : list (N * list (N * Z))) : bool :=
  match a, b with
  | [], [] => true
  | (p, cs) :: a', (p', cs') :: b' => N.eqb p p' && kvs_eqb cs cs' && progs_eqb a' b'
  | _, _ => false
  end.
Definition week_reports_ok (obs : list (N * list (N * Z))) (files : list (bytes * cfile)) : bool :=
  progs_eqb obs (sums [] false files).
