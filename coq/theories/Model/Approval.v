(* Model/Approval: the three places that decide approval (property C11).
   - the uploader: Model/Report.filter_upload (build_ok, keep_counter, keep_stack)
   - the upload server: godev/cmd/telemetrygodev/main.go validate
   - the local viewer: cmd/gotelemetry/internal/view/view.go summary and
     newCounterFile (after fix eb88d01: stacks looked up by their title)
   and the executable oracle of C11 (`approval_check`) evaluated on the
   implementation's verdicts.  Executable definitions only. *)
From Coq Require Import List ZArith NArith Bool.
From Tele Require Import Lib.Bytes Lib.Str Lib.Assoc Lib.Calendar Model.Config Model.ApprovalSpec Model.Report.
Import ListNotations.
Open Scope N_scope.

(* ---------------------------------------------------------------- server *)

(* validate's error, by the check that produced it *)
Inductive verdict :=
| VOk | VBadWeek | VBadConfig | VBadX | VUnknownBuild | VUnknownCounter | VUnknownStack.

(* r.X == 0 on a float64 given by its bit pattern: +0 and -0 *)
Definition x_is_zero (bits : N) : bool := (bits =? 0) || (bits =? 0x8000000000000000).

Definition server_build_ok (c : config) (i : ident) : bool :=
  has_goarch c (id_goarch i) && has_goos c (id_goos i) && has_goversion c (id_goversion i) &&
  has_program c (id_program i) && has_version c (id_program i) (id_version i).

(* one program of the report: build, then every counter, then every stack
   (map iteration order is irrelevant: any unknown counter gives the counter error) *)
Definition server_prog (c : config) (p : ident * body) : verdict :=
  let prog := id_program (fst p) in
  if negb (server_build_ok c (fst p)) then VUnknownBuild
  else if negb (forallb (fun kv : bytes * Z => has_counter c prog (fst kv)) (fst (snd p))) then VUnknownCounter
  else if negb (forallb (fun kv : bytes * Z => has_stack c prog (stack_title (fst kv))) (snd (snd p))) then VUnknownStack
  else VOk.

Fixpoint server_progs (c : config) (ps : progs) : verdict :=
  match ps with
  | [] => VOk
  | p :: ps' => match server_prog c p with VOk => server_progs c ps' | v => v end
  end.

(* semver_ok = semver.IsValid(r.Config), an oracle answer supplied with the report *)
Definition server_validate (c : config) (semver_ok : bool) (r : report) : verdict :=
  match parse_date (r_week r) with
  | None => VBadWeek
  | Some _ =>
      if negb semver_ok then VBadConfig
      else if x_is_zero (r_x r) then VBadX
      else server_progs c (r_programs r)
  end.

(* handleUpload's status for a decodable body: 200 iff validate accepts, else 400 *)
Definition server_status (v : verdict) : N := match v with VOk => 200 | _ => 400 end.

(* ---------------------------------------------------------------- viewer *)

Inductive vsummary :=
| SProgram      (* "The program ... is unregistered. No data from this set would be uploaded" *)
| SOsArch       (* "The GOOS/GOARCH combination ..." *)
| SGoVersion    (* "The go version ..." *)
| SVersion      (* "The version ..." *)
| SCounters (names : list bytes)   (* "Unregistered counter(s) ... would be excluded from a report." *)
| SClean.       (* empty summary *)

(* what the viewer prints for a counter: the title of a stack counter, else the name *)
Definition display_name (k : bytes) : bytes := if is_stack k then stack_title k else k.

(* the viewer's per-counter registration test *)
Definition viewer_registered (c : config) (prog k : bytes) : bool :=
  if is_stack k then has_stack c prog (stack_title k) else has_counter c prog k.

Definition viewer_unregistered (c : config) (f : cfile) : list bytes :=
  map (fun kv => display_name (fst kv))
      (filter (fun kv => negb (viewer_registered c (id_program (f_ident f)) (fst kv))) (f_counts f)).

Definition viewer_summary (c : config) (f : cfile) : vsummary :=
  let i := f_ident f in
  if negb (has_program c (id_program i)) then SProgram
  else if negb (has_goos c (id_goos i)) || negb (has_goarch c (id_goarch i)) then SOsArch
  else if negb (has_goversion c (id_goversion i)) then SGoVersion
  else if negb (has_version c (id_program i) (id_version i)) then SVersion
  else match viewer_unregistered c f with [] => SClean | l => SCounters l end.

(* newCounterFile: ActiveMeta (Program, Version, GOOS, GOARCH, GoVersion) and
   the Active flag of every count / stack row *)
Definition viewer_active_meta (c : config) (i : ident) : list bool :=
  [ has_program c (id_program i); has_version c (id_program i) (id_version i);
    has_goos c (id_goos i); has_goarch c (id_goarch i); has_goversion c (id_goversion i) ].

Definition viewer_active (c : config) (f : cfile) : list (bytes * bool) :=
  map (fun kv => (fst kv, viewer_registered c (id_program (f_ident f)) (fst kv))) (f_counts f).

Definition summary_excludes_set (s : vsummary) : bool :=
  match s with SProgram | SOsArch | SGoVersion | SVersion => true | _ => false end.

(* ---------------------------------------------------------------- uploader, per item *)

(* does the uploader's filter keep counter k of a program at X = x *)
Definition uploader_keeps (c : config) (x : N) (prog k : bytes) : bool :=
  if is_stack k then keep_stack c x prog (k, 0%Z) else keep_counter c x prog (k, 0%Z).

(* ---------------------------------------------------------------- documented semantics, per item *)

Definition approved_itemb (u : upload_cfg) (prog k : bytes) : bool :=
  if is_stack k then approved_stackb u prog k else approved_counterb u prog k.

(* a report lies within the configuration *)
Definition report_withinb (u : upload_cfg) (r : report) : bool :=
  forallb (fun p : ident * body =>
     approved_buildb u (fst p) &&
     forallb (fun kv : bytes * Z => approved_counterb u (id_program (fst p)) (fst kv)) (fst (snd p)) &&
     forallb (fun kv : bytes * Z => approved_stackb u (id_program (fst p)) (fst kv)) (snd (snd p)))
    (r_programs r).

(* ---------------------------------------------------------------- oracle of C11 on implementation verdicts *)

Inductive aclass :=
| AServerRejectsUploader   (* server refused a report the uploader built under the same configuration *)
| AXZero                   (* ... because X = 0 (known finding 15) *)
| AServerAcceptsOutside    (* server accepted a report with a build/counter/stack outside the configuration *)
| AServerRejectsWithin     (* server refused a well-formed report within the configuration (X <> 0) *)
| AViewerSet               (* viewer's "no data from this set would be uploaded" <> build not approved *)
| AViewerCounter           (* viewer's excluded-counter list / Active flag <> item not approved *)
| AViewerUploader          (* viewer's verdict differs from what the uploader did at X = 0 *)
| AViewerReportFalse       (* report view calls an item excluded that is approved (the uploader sends it) *)
| AViewerReportStackOmitted  (* report view does not mention an unapproved stack counter of a report (fixed: a1becfe) *)
| AViewerChart             (* Charts section: "not present in the telemetry config" <> no configured counter belongs to the chart *)
| AServerStoresOutside     (* the object stored for a request holds (read as text) a build/counter/stack outside the
                              configuration or members outside the report format, or is stored although refused *)
| AViewerChartStack.       (* ... for a chart of an approved STACK counter (charts not consulting the configured stacks; fixed: c8e437d) *)

(* server side: report r (produced by the uploader iff from_uploader) got verdict v *)
Definition server_check (u : upload_cfg) (from_uploader : bool) (week_ok semver_ok : bool) (r : report) (v : verdict)
  : list aclass :=
  let accepted := match v with VOk => true | _ => false end in
  let wellformed := week_ok && semver_ok && negb (x_is_zero (r_x r)) in
  (if from_uploader && negb accepted
   then (if x_is_zero (r_x r) then [AXZero] else [AServerRejectsUploader]) else []) ++
  (if accepted && negb (report_withinb u r) then [AServerAcceptsOutside] else []) ++
  (if negb from_uploader && negb accepted && report_withinb u r && wellformed then [AServerRejectsWithin] else []).

(* viewer side: for file f the viewer showed summary s and Active flags;
   up0 = the programs of the upload report the uploader built from [f] at X = 0
   (None when the harness did not run it) *)
Definition in_upload (up0 : progs) (i : ident) (k : bytes) : bool :=
  match aget ident_eqb i up0 with
  | Some b => match aget beq k (if is_stack k then snd b else fst b) with Some _ => true | None => false end
  | None => false
  end.

Definition viewer_check (u : upload_cfg) (f : cfile) (s : vsummary) (meta : list bool)
           (active : list (bytes * bool)) (up0 : option progs) : list aclass :=
  let i := f_ident f in
  let prog := id_program i in
  let approved := approved_buildb u i in
  (if Bool.eqb (summary_excludes_set s) (negb approved) then [] else [AViewerSet]) ++
  (if Bool.eqb (forallb (fun b => b) meta) approved then [] else [AViewerSet]) ++
  (if forallb (fun kb : bytes * bool => Bool.eqb (snd kb) (approved_itemb u prog (fst kb))) active
   then [] else [AViewerCounter]) ++
  (if approved then
     match s with
     | SCounters l =>
         if forallb (fun n => existsb (fun kv : bytes * N => beq (display_name (fst kv)) n &&
                                                    negb (approved_itemb u prog (fst kv))) (f_counts f)) l &&
            forallb (fun kv : bytes * N => approved_itemb u prog (fst kv) || memb (display_name (fst kv)) l) (f_counts f)
         then [] else [AViewerCounter]
     | SClean => if forallb (fun kv : bytes * N => approved_itemb u prog (fst kv)) (f_counts f)
                 then [] else [AViewerCounter]
     | _ => []
     end
   else []) ++
  match up0 with
  | None => []
  | Some ps =>
      (if Bool.eqb (summary_excludes_set s)
                   (match aget ident_eqb i ps with Some _ => false | None => true end)
       then [] else [AViewerUploader]) ++
      (if approved && negb (summary_excludes_set s) then
         if forallb (fun kb : bytes * bool => Bool.eqb (snd kb) (in_upload ps i (fst kb))) active
         then [] else [AViewerUploader]
       else [])
  end.

(* ---------------------------------------------------------------- viewer: weekly reports (local.<week>.json, <week>.json) *)

(* newTelemetryReport (after fix a1becfe): per program of a report the summary
   is computed from the five identity fields and ONE map holding the program's
   Counters and then its Stacks (a stack key overwrites an equal counter key;
   in a report the uploader wrote the two key sets are disjoint: plain names /
   names with a newline); summary() tells stacks from counters by the newline *)
Definition report_program_file (p : ident * body) : cfile :=
  let stack_keys := map fst (snd (snd p)) in
  mkFile (fst p)
         (map (fun kv : bytes * Z => (fst kv, 0%N))
              (filter (fun kv : bytes * Z => negb (memb (fst kv) stack_keys)) (fst (snd p)) ++ snd (snd p))).

Definition viewer_report_summary (c : config) (p : ident * body) : vsummary :=
  viewer_summary c (report_program_file p).

Definition summary_names (s : vsummary) : list bytes := match s with SCounters l => l | _ => [] end.

(* oracle: the program p of a weekly report was described by summary s *)
Definition viewer_report_check (u : upload_cfg) (p : ident * body) (s : vsummary) : list aclass :=
  let i := fst p in
  let prog := id_program i in
  let approved := approved_buildb u i in
  let counters := map fst (fst (snd p)) in
  let stacks := map fst (snd (snd p)) in
  (if Bool.eqb (summary_excludes_set s) (negb approved) then [] else [AViewerSet]) ++
  (if approved then
     (* no false claim: every listed name is an item of the program that the uploader drops *)
     (if forallb (fun n => existsb (fun k => beq k n && negb (approved_counterb u prog k)) counters ||
                           existsb (fun k => beq (stack_title k) n && negb (approved_stackb u prog k)) stacks)
                 (summary_names s)
      then [] else [AViewerReportFalse]) ++
     (* every plain counter the uploader drops is listed *)
     (if forallb (fun k => approved_counterb u prog k || memb k (summary_names s)) counters
      then [] else [AViewerCounter]) ++
     (* every stack counter the uploader drops is listed (by its title) *)
     (if forallb (fun k => approved_stackb u prog k || memb (stack_title k) (summary_names s)) stacks
      then [] else [AViewerReportStackOmitted])
   else []).

(* ---------------------------------------------------------------- sequences of requests *)

(* The upload handler decodes every request body into a fresh report and
   validates it: the answer to a request depends on that request only. *)
Definition serve_sequence (c : config) (reqs : list (bool * report)) : list N :=
  map (fun r => server_status (server_validate c (fst r) (snd r))) reqs.

(* The viewer's index page for /?config=<version>: configAt resolves the
   version on every request ("" and "latest": the newest version of the
   store, "empty": the empty configuration, a version that cannot be loaded:
   the empty configuration), then every count file of the directory is
   summarised under that configuration. *)
Definition empty_cfg : upload_cfg := mkUC [] [] [] 0 [].
Definition store := list (bytes * upload_cfg).   (* oldest first *)
Definition v_latest : bytes := [108; 97; 116; 101; 115; 116].   (* "latest" *)
Definition v_empty : bytes := [101; 109; 112; 116; 121].          (* "empty" *)

Definition config_at (st : store) (reachable : bool) (version : bytes) : upload_cfg :=
  if beq version [] || beq version v_latest then
    (if reachable then match rev st with (_, u) :: _ => u | [] => empty_cfg end else empty_cfg)
  else if beq version v_empty then empty_cfg
  else if reachable then match aget beq version st with Some u => u | None => empty_cfg end
  else empty_cfg.

Definition viewer_page (u : upload_cfg) (files : list cfile) : list vsummary :=
  map (viewer_summary (new_config u)) files.

(* one Server answering a sequence of requests (proxy reachable?, version) *)
Definition viewer_pages (st : store) (files : list cfile) (reqs : list (bool * bytes)) : list (list vsummary) :=
  map (fun r => viewer_page (config_at st (fst r) (snd r)) files) reqs.

(* oracle on one summary of a page rendered for configuration u *)
Definition viewer_summary_check (u : upload_cfg) (f : cfile) (s : vsummary) : list aclass :=
  let i := f_ident f in
  let prog := id_program i in
  let approved := approved_buildb u i in
  (if Bool.eqb (summary_excludes_set s) (negb approved) then [] else [AViewerSet]) ++
  (if approved then
     match s with
     | SCounters l =>
         if forallb (fun n => existsb (fun kv : bytes * N => beq (display_name (fst kv)) n &&
                                                    negb (approved_itemb u prog (fst kv))) (f_counts f)) l &&
            forallb (fun kv : bytes * N => approved_itemb u prog (fst kv) || memb (display_name (fst kv)) l) (f_counts f)
         then [] else [AViewerCounter]
     | SClean => if forallb (fun kv : bytes * N => approved_itemb u prog (fst kv)) (f_counts f)
                 then [] else [AViewerCounter]
     | _ => []
     end
   else []).

(* ---------------------------------------------------------------- viewer: the Charts section *)

(* grouped(): a counter "chart:bucket" belongs to the chart named by the text
   before its first colon (a counter without colon: by its name); a stack
   counter to the chart named by its title.  charts() (after fix c8e437d): a
   chart is flagged "This counter is not present in the telemetry config"
   unless HasCounter(program, chart) || HasCounterPrefix(program, chart) ||
   HasStack(program, chart). *)
Definition chart_name (k : bytes) : bytes :=
  if is_stack k then stack_title k else before_byte k ch_colon.

Definition viewer_chart_active (c : config) (prog name : bytes) : bool :=
  has_counter c prog name || has_counter_prefix c prog name || has_stack c prog name.

Definition file_charts (f : cfile) : list (bytes * bytes) :=
  map (fun kv : bytes * N => (id_program (f_ident f), chart_name (fst kv))) (f_counts f).

Definition viewer_charts (c : config) (files : list cfile) : list ((bytes * bytes) * bool) :=
  map (fun pn => (pn, viewer_chart_active c (fst pn) (snd pn))) (flat_map file_charts files).

(* documented meaning of "present in the config": some configured counter of
   the program belongs to the chart (its collapsed name is chart:..., or it
   expands to the chart's name itself), or a configured stack has that name *)
Definition counter_chart_listedb (u : upload_cfg) (prog name : bytes) : bool :=
  approved_counterb u prog name ||
  existsb (fun p => beq (pc_name p) prog &&
                    existsb (fun cc => let '(pre, _, found) := cut_byte (cc_name cc) ch_colon in
                                       found && beq pre name) (pc_counters p)) (uc_programs u).
Definition chart_listedb (u : upload_cfg) (prog name : bytes) : bool :=
  counter_chart_listedb u prog name || nonempty (stack_rates u prog name).

(* the items of the data that the chart (prog, name) draws *)
Definition chart_items (files : list cfile) (prog name : bytes) : list bytes :=
  flat_map (fun f => if beq (id_program (f_ident f)) prog
                     then filter (fun k => beq (chart_name k) name) (map fst (f_counts f)) else []) files.

(* oracle: the chart (prog, name) was shown with flag `active` *)
Definition viewer_chart_check (u : upload_cfg) (files : list cfile) (prog name : bytes) (active : bool) : list aclass :=
  let items := chart_items files prog name in
  let approved_plain := existsb (fun k => negb (is_stack k) && approved_counterb u prog k) items in
  let approved_stack := existsb (fun k => is_stack k && approved_stackb u prog k) items in
  if negb active && approved_plain then [AViewerChart]        (* called absent from the config, yet the uploader sends a counter of it *)
  else if negb active && approved_stack then [AViewerChartStack]
  else if active && negb (chart_listedb u prog name) then [AViewerChart]   (* called present, yet nothing configured belongs to it *)
  else [].

(* ---------------------------------------------------------------- what the upload handler stores *)

(* handleUpload: an accepted report is written to the bucket by ENCODING THE
   DECODED REPORT again (json.NewEncoder(f).Encode(report)), never by copying
   the request body; a refused one stores nothing. *)
Definition server_store (c : config) (semver_ok : bool) (r : report) : option report :=
  match server_validate c semver_ok r with VOk => Some r | _ => None end.

(* oracle: `accepted` = the handler answered 200; `stored` = the stored object
   read as TEXT (of a duplicated member the first occurrence, duplicated
   Programs arrays merged), None when nothing was stored; `extra` = the text
   has members outside the report format *)
Definition stored_check (u : upload_cfg) (accepted : bool) (stored : option report) (extra : bool) : list aclass :=
  match stored with
  | Some s => if accepted && report_withinb u s && negb extra then [] else [AServerStoresOutside]
  | None => if accepted then [AServerStoresOutside] else []
  end.
