(* Model/DecodeStack: internal/counter/stackcounter.go DecodeStack and
   cutLastDot, exactly as Parse uses them (minimal and self-contained; the
   encoder side lives elsewhere). *)
From Coq Require Import List NArith Bool.
From Tele Require Import Lib.Bytes.
Import ListNotations.
Open Scope N_scope.

Definition c_dot : N := 46.
Definition c_quote : N := 34.
Definition c_nl : N := 10.

(* cutLastDot: split at the last '.', ("", x) when there is none *)
Definition cut_last_dot (x : bytes) : bytes * bytes :=
  match last_index_byte x c_dot with
  | None => ([], x)
  | Some i => (firstn i x, skipn (S i) x)
  end.

(* the loop of DecodeStack over the lines, lastPath is "" or ends with '.' *)
Fixpoint decode_lines (lines : list bytes) (last_path : bytes) : list bytes :=
  match lines with
  | [] => []
  | line :: t =>
      let '(path, rest) := cut_last_dot line in
      match path with
      | [] => line :: decode_lines t last_path
      | [q] => if q =? c_quote then (last_path ++ rest) :: decode_lines t last_path
               else line :: decode_lines t (path ++ [c_dot])
      | _ => line :: decode_lines t (path ++ [c_dot])
      end
  end.

Definition decode_stack (ename : bytes) : bytes :=
  match index_byte ename c_nl with
  | None => ename
  | Some _ => join (decode_lines (split_byte ename c_nl) []) [c_nl]
  end.
