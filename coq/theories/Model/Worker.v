(* Model/Worker: executable model of godev/cmd/worker (handleMerge,
   readMergedReports, handleChart, group, charts, partition, splitCounterName,
   goMajorMinor, cutInt, compareLexically, fileName) and of
   internal/config.Expand / telemetry.IsToolchainProgram as used by charts.
   Definitions only; the lemmas are in Proofs/WorkerFacts.v.

   Go maps are modelled by duplicate-free association lists; every place
   where the Go code ranges over a map takes its iteration order from an
   [iter] record (arbitrary functions; the theorems assume only that each
   returns a permutation of its argument).  sort.Slice is a field of the same
   record, constrained by its contract only.

   Historical note (not a theorem any more): before fix afdbfb6
   readMergedReports scanned lines with bufio.Scanner (token limit
   bufio.MaxScanTokenSize = 64KiB, Err unchecked): [read_merged] stopped
   silently at the first line longer than the limit and all later reports
   were dropped (witness: three reports, the second 80 KiB -> one report
   read, no error).  The fixed code decodes successive JSON values, which is
   what [read_merged] below does; the check's mutation log replays the old
   behaviour by reverting that commit in a scratch copy. *)
From Coq Require Import List NArith ZArith Bool.
From Tele Require Import Lib.Bytes Lib.Calendar Lib.Sort Gen.Consts.
Import ListNotations.

(* ------------------------------------------------------------------ *)
(* 1. merged file: one JSON value per line *)

Definition nl : N := 10%N.

Definition frame (lines : list bytes) : bytes :=
  concat (map (fun l => l ++ [nl]) lines).

Definition nonempty (b : bytes) : bool := match b with [] => false | _ => true end.

(* json.Decoder skips the white space between values: empty lines vanish *)
Definition unframe (file : bytes) : list bytes :=
  filter nonempty (split_byte file nl).

Section Merge.
  Variable R : Type.
  Variable enc : R -> bytes.          (* json.Encoder.Encode, without its final newline *)
  Variable dec : bytes -> option R.   (* json.Decoder.Decode of the first value *)

  (* handleMerge's loop: lines written so far, and whether it ran to the end *)
  Fixpoint merge_lines (objs : list bytes) : list bytes * bool :=
    match objs with
    | [] => ([], true)
    | o :: rest =>
        match dec o with
        | None => ([], false)
        | Some r => let '(ls, ok) := merge_lines rest in (enc r :: ls, ok)
        end
    end.

  (* (merged object, count shown in the response when ok, ok) *)
  Definition merge (objs : list bytes) : bytes * nat * bool :=
    let '(ls, ok) := merge_lines objs in (frame ls, length ls, ok).

  (* the same loop under a bound on open descriptors: `free` readers may be
     opened at this point (NewReader fails with EMFILE at 0).  The loop closes
     each reader before it opens the next one, so `free` is the same for every
     object; the events it produces are in [merge_events]. *)
  Fixpoint merge_lines_fd (free : nat) (objs : list bytes) : list bytes * bool :=
    match objs with
    | [] => ([], true)
    | o :: rest =>
        match free with
        | O => ([], false)
        | S _ =>
            match dec o with
            | None => ([], false)
            | Some r => let '(ls, ok) := merge_lines_fd free rest in (enc r :: ls, ok)
            end
        end
    end.

  Definition merge_fd (free : nat) (objs : list bytes) : bytes * nat * bool :=
    let '(ls, ok) := merge_lines_fd free objs in (frame ls, length ls, ok).

  (* reader events of handleMerge: true = NewReader, false = Close.  An object
     that does not decode ends the loop; its reader is closed by the deferred
     Close when the handler returns. *)
  Fixpoint merge_events (objs : list bytes) : list bool :=
    match objs with
    | [] => []
    | o :: rest =>
        match dec o with
        | None => [true; false]
        | Some _ => true :: false :: merge_events rest
        end
    end.

  Fixpoint decode_all (ls : list bytes) : option (list R) :=
    match ls with
    | [] => Some []
    | l :: ls' =>
        match dec l with
        | None => None
        | Some r => match decode_all ls' with None => None | Some rs => Some (r :: rs) end
        end
    end.

  Definition read_merged (file : bytes) : option (list R) := decode_all (unframe file).
End Merge.

(* open readers along a list of events: (peak, open at the end) *)
Fixpoint open_peak (evs : list bool) (cur peak : nat) : nat * nat :=
  match evs with
  | [] => (peak, cur)
  | true :: r => open_peak r (S cur) (Nat.max peak (S cur))
  | false :: r => open_peak r (Nat.pred cur) peak
  end.

(* ------------------------------------------------------------------ *)
(* 2. reports and grouping *)

Record progrep := mkProg {
  pr_prog : bytes; pr_version : bytes; pr_goversion : bytes; pr_goos : bytes; pr_goarch : bytes;
  pr_counters : list (bytes * Z)       (* Counters map, sorted by name; the values are never read by charts *)
}.
(* r_x: the float64 X, compared for equality only (sent as its bit pattern, -0 as +0) *)
Record report := mkReport { r_week : bytes; r_x : Z; r_progs : list progrep }.

(* one key path of the five-level map `data`; the int64 stored under it is dead data *)
Record entry := mkE { e_week : bytes; e_prog : bytes; e_chart : bytes; e_bucket : bytes; e_id : Z }.

Definition colon_b : bytes := [58%N].

(* splitCounterName *)
Definition split_counter_name (name : bytes) : bytes * bytes :=
  let '(p, b, found) := cut name colon_b in if found then (p, b) else (p, p).

(* the (chart, bucket) cells one program report writes *)
Definition prog_cells (p : progrep) : list (bytes * bytes) :=
  [ (c_versionCounter, pr_version p); (c_goosCounter, pr_goos p);
    (c_goarchCounter, pr_goarch p); (c_goversionCounter, pr_goversion p) ]
  ++ map (fun cv => split_counter_name (fst cv)) (pr_counters p).

Definition report_entries (r : report) : list entry :=
  flat_map (fun p => map (fun cb => mkE (r_week r) (pr_prog p) (fst cb) (snd cb) (r_x r)) (prog_cells p))
           (r_progs r).

Definition group (reports : list report) : list entry := flat_map report_entries reports.

Definition weeks (d : list entry) : list bytes := nodup (list_eq_dec N.eq_dec) (map e_week d).

Definition e_match (wk pk ch b : bytes) (e : entry) : bool :=
  beq wk (e_week e) && beq pk (e_prog e) && beq ch (e_chart e) && beq b (e_bucket e).

(* keys of d[wk][pk][ch][b] *)
Definition cell (d : list entry) (wk pk ch b : bytes) : list Z :=
  nodup Z.eq_dec (map e_id (filter (e_match wk pk ch b) d)).

(* ------------------------------------------------------------------ *)
(* 3. partition *)

Definition datum := (bytes * bytes * Z)%type.     (* Week, Key, Value (= float64 of a length) *)
Definition d_key (x : datum) : bytes := snd (fst x).
Record chart := mkChart { c_id : bytes; c_name : bytes; c_type : bytes; c_data : list datum }.

Definition merged_t := list (bytes * list Z).      (* normalised bucket -> set of report ids *)

Record iter := mkIter {
  ord_weeks : list bytes -> list bytes;            (* for wk := range d *)
  ord_ids : list Z -> list Z;                      (* for id := range d[wk][pk][chartName][bucket] *)
  ord_merged : merged_t -> merged_t;               (* for bucket, v := range merged *)
  go_sort : (bytes -> bytes -> bool) -> list datum -> list datum   (* sort.Slice(chart.Data, less on Key) *)
}.

Definition iter_id : iter :=
  mkIter (fun l => l) (fun l => l) (fun m => m) (fun lt l => isort d_key lt l).

Definition mem_b (x : bytes) (l : list bytes) : bool := existsb (beq x) l.
Definition mem_z (x : Z) (l : list Z) : bool := existsb (Z.eqb x) l.
Definition set_add (x : Z) (s : list Z) : list Z := if mem_z x s then s else s ++ [x].
Definition set_union (s ids : list Z) : list Z := fold_left (fun s x => set_add x s) ids s.

(* if _, ok := merged[key]; !ok { merged[key] = {} };  for id := range ids { merged[key][id] = {} } *)
Fixpoint m_union (key : bytes) (ids : list Z) (m : merged_t) : merged_t :=
  match m with
  | [] => [(key, set_union [] ids)]
  | (k, s) :: m' => if beq key k then (k, set_union s ids) :: m' else (k, s) :: m_union key ids m'
  end.

Fixpoint m_get (m : merged_t) (key : bytes) : option (list Z) :=
  match m with
  | [] => None
  | (k, s) :: m' => if beq key k then Some s else m_get m' key
  end.

Definition is_nil {A} (l : list A) : bool := match l with [] => true | _ => false end.

Section Partition.
  Variable it : iter.
  Variable d : list entry.
  Variables pk ch : bytes.
  Variable norm : bytes -> option bytes.     (* opts.normalizeBucket; None = a normaliser that panics (none of charts()'s does) *)

  (* the inner loop over the configured buckets, for one week; None = panic *)
  Fixpoint bucket_loop (wk : bytes) (buckets seen : list bytes) (m : merged_t) (empty : bool)
    : option (merged_t * bool) :=
    match buckets with
    | [] => Some (m, empty)
    | b :: bs =>
        if mem_b b seen then bucket_loop wk bs seen m empty
        else match norm b with
             | None => None
             | Some key =>
                 let ids := ord_ids it (cell d wk pk ch b) in
                 bucket_loop wk bs (b :: seen) (m_union key ids m) (empty && is_nil ids)
             end
    end.

  Fixpoint week_loop (buckets : list bytes) (ws : list bytes) (m : merged_t) (empty : bool) (end_ : bytes)
    : option (merged_t * bool * bytes) :=
    match ws with
    | [] => Some (m, empty, end_)
    | wk :: ws' =>
        let end' := if bleb end_ wk then wk else end_ in      (* if wk >= end { end = wk } *)
        match bucket_loop wk buckets [] m empty with
        | None => None
        | Some (m', empty') => week_loop buckets ws' m' empty' end'
        end
    end.
End Partition.

Definition charts_prefix : bytes := ([99%N; 104%N; 97%N; 114%N; 116%N; 115%N; 58%N] (* "charts:" *)).
Definition partition_type : bytes := ([112%N; 97%N; 114%N; 116%N; 105%N; 116%N; 105%N; 111%N; 110%N] (* "partition" *)).

Definition keep_datum (ignore_empty : bool) (ks : bytes * list Z) : bool :=
  negb (is_nil (snd ks)) || negb ignore_empty.

(* None = panic; Some None = nil chart *)
Definition partition (it : iter) (d : list entry) (pk ch : bytes) (buckets : list bytes)
    (ignore_empty : bool) (norm : bytes -> option bytes) (lt : bytes -> bytes -> bool)
  : option (option chart) :=
  match week_loop it d pk ch norm buckets (ord_weeks it (weeks d)) [] true [] with
  | None => None
  | Some (m, empty, end_) =>
      if empty then Some None
      else
        let data := map (fun ks => (end_, fst ks, Z.of_nat (length (snd ks))))
                        (filter (keep_datum ignore_empty) (ord_merged it m)) in
        Some (Some (mkChart (charts_prefix ++ pk ++ colon_b ++ ch) ch partition_type (go_sort it lt data)))
  end.

(* ------------------------------------------------------------------ *)
(* 4. goMajorMinor, Expand, charts *)

Fixpoint count_digits (x : bytes) : nat :=
  match x with
  | c :: x' => if is_digit c then S (count_digits x') else O
  | [] => O
  end.

(* cutInt *)
Definition cut_int (x : bytes) : option (bytes * bytes) :=
  let i := count_digits x in
  if Nat.eqb i 0 || (N.eqb (nth 0 x 0%N) 48 && negb (Nat.eqb i 1)) then None
  else Some (firstn i x, skipn i x).

Definition go_b : bytes := ([103%N; 111%N] (* "go" *)).
Definition dot_b : bytes := [46%N].

(* goMajorMinor (after fix 48ba0d4: "" for a string shorter than two bytes and
   for goN with nothing after the major number, where it used to panic) *)
Definition go_major_minor (v : bytes) : bytes :=
  if Nat.ltb (length v) 2 then [] else
  match cut_int (skipn 2 v) with
  | None => []
  | Some (maj, x) =>
      match x with
      | [] => []
      | _ :: x' =>
          match cut_int x' with
          | None => []
          | Some (mn, _) => go_b ++ maj ++ dot_b ++ mn
          end
      end
  end.

(* internal/config.Expand *)
Definition expand (counter : bytes) : list bytes :=
  let '(prefix, rest, has) := cut counter [123%N] in
  if has then map (fun b => prefix ++ b) (split_byte (trim_suffix rest [125%N]) 44%N) else [prefix].

Definition cmd_slash : bytes := ([99%N; 109%N; 100%N; 47%N] (* "cmd/" *)).
Definition is_toolchain (name : bytes) : bool := has_prefix name cmd_slash.

Record program_cfg := mkPC { pc_name : bytes; pc_versions : list bytes; pc_counters : list bytes }.
Record config := mkCfg { cf_goos : list bytes; cf_goarch : list bytes; cf_goversion : list bytes;
                         cf_programs : list program_cfg }.

(* one partition request of charts(): chart name, buckets, ignoreEmptyBuckets, normaliser, less *)
Record preq := mkReq { q_chart : bytes; q_buckets : list bytes; q_ignore : bool;
                       q_norm : bytes -> option bytes; q_lt : bytes -> bytes -> bool }.

Record prog_out := mkPO { po_id : bytes; po_name : bytes; po_charts : list chart }.
Record chartdata := mkCD { cd_start : bytes; cd_end : bytes; cd_programs : list prog_out; cd_num : nat }.

Inductive read_result := RNotFound | RErr | ROk (rs : list report).
Inductive chart_result :=
| ChartOk (object_name : bytes) (cd : chartdata)
| ChartBadRequest | ChartNotFound | ChartReadErr | ChartPanic.

Section Charts.
  Variable it : iter.
  Variables lt_semver lt_gover : bytes -> bytes -> bool.   (* compareSemver(x,y) < 0, version.Compare(x,y) < 0 *)

  Definition counter_req (c : bytes) : preq :=
    mkReq (fst (split_counter_name c)) (map (fun x => snd (split_counter_name x)) (expand c)) false Some bltb.

  (* the partition calls charts() makes for one configured program, in order *)
  Definition program_reqs (cfg : config) (p : program_cfg) : list preq :=
    (if is_toolchain (pc_name p) then []
     else [mkReq c_versionCounter (pc_versions p) true Some lt_semver])
    ++ [ mkReq c_goosCounter (cf_goos cfg) false Some bltb;
         mkReq c_goarchCounter (cf_goarch cfg) false Some bltb;
         mkReq c_goversionCounter (cf_goversion cfg) true (fun v => Some (go_major_minor v)) lt_gover ]
    ++ map counter_req (pc_counters p).

  Definition run_req (d : list entry) (pk : bytes) (q : preq) : option (option chart) :=
    partition it d pk (q_chart q) (q_buckets q) (q_ignore q) (q_norm q) (q_lt q).

  (* None = panic; nil charts are dropped *)
  Fixpoint run_reqs (d : list entry) (pk : bytes) (qs : list preq) : option (list chart) :=
    match qs with
    | [] => Some []
    | q :: qs' =>
        match run_req d pk q with
        | None => None
        | Some oc =>
            match run_reqs d pk qs' with
            | None => None
            | Some cs => Some (match oc with Some c => c :: cs | None => cs end)
            end
        end
    end.

  Fixpoint run_programs (cfg : config) (d : list entry) (ps : list program_cfg) : option (list prog_out) :=
    match ps with
    | [] => Some []
    | p :: ps' =>
        match run_reqs d (pc_name p) (program_reqs cfg p) with
        | None => None
        | Some cs =>
            match run_programs cfg d ps' with
            | None => None
            | Some os => Some (mkPO (charts_prefix ++ pc_name p) (pc_name p) cs :: os)
            end
        end
    end.

  Definition charts (cfg : config) (start end_ : bytes) (d : list entry) (xs : list Z) : option chartdata :=
    match run_programs cfg d (cf_programs cfg) with
    | None => None
    | Some ps => Some (mkCD start end_ ps (length xs))
    end.

  (* ---------------------------------------------------------------- *)
  (* 5. handleChart over the merge bucket *)

  (* the loop over the days of the range: first failure wins *)
  Fixpoint read_days (read : Z -> read_result) (day : Z) (n : nat) : read_result :=
    match n with
    | O => ROk []
    | S n' =>
        match read day with
        | ROk rs => match read_days read (day + 1) n' with ROk rest => ROk (rs ++ rest) | e => e end
        | e => e
        end
    end.

  Definition json_ext : bytes := ([46%N; 106%N; 115%N; 111%N; 110%N] (* ".json" *)).
  (* fileName *)
  Definition chart_object_name (start end_ : Z) : bytes :=
    if Z.eqb start end_ then fmt_date end_ ++ json_ext
    else fmt_date start ++ [95%N] ++ fmt_date end_ ++ json_ext.

  Definition handle_chart (cfg : config) (read : Z -> read_result) (start end_ : Z) : chart_result :=
    if Z.ltb end_ start then ChartBadRequest else
    match read_days read start (Z.to_nat (end_ - start + 1)) with
    | RNotFound => ChartNotFound
    | RErr => ChartReadErr
    | ROk reports =>
        match charts cfg (fmt_date start) (fmt_date end_) (group reports) (map r_x reports) with
        | None => ChartPanic
        | Some cd => ChartOk (chart_object_name start end_) cd
        end
    end.
  (* a read fault: the reader of day fd's merged object fails (connection
     reset, reader bound to a done context) after delivering k records.  Since
     fix 0ab09db readMergedReports decodes until io.EOF and returns any other
     error, so the day reads as an error whatever k is; a missing object is
     still "not found" (NewReader fails before anything is read). *)
  Definition read_with_fault (fault : option (Z * nat)) (read : Z -> read_result) (d : Z) : read_result :=
    match fault with
    | Some (fd, _) => if Z.eqb d fd then match read d with RNotFound => RNotFound | _ => RErr end else read d
    | None => read d
    end.

  Definition handle_chart_fault (fault : option (Z * nat)) (cfg : config) (read : Z -> read_result)
      (start end_ : Z) : chart_result :=
    handle_chart cfg (read_with_fault fault read) start end_.

  (* the request context (live, or done once `done_after` objects have been
     opened: Timeout middleware, client disconnect).  The file-system store
     ignores it and handleChart never consults it: the request is served in
     full whatever the context does. *)
  Definition handle_chart_ctx (done_after : option nat) (cfg : config) (read : Z -> read_result)
      (start end_ : Z) : chart_result :=
    handle_chart cfg read start end_.
End Charts.

(* readMergedReports on the merge bucket: day -> stored object, if any *)
Definition read_day (dec : bytes -> option report) (bucket : Z -> option bytes) (day : Z) : read_result :=
  match bucket day with
  | None => RNotFound
  | Some file => match read_merged report dec file with None => RErr | Some rs => ROk rs end
  end.

(* ------------------------------------------------------------------ *)
(* 6. the set-based specification, executable (used as oracle on the
      implementation's chart) *)

(* does program report p carry (ch, b) *)
Definition carries (p : progrep) (ch b : bytes) : bool :=
  existsb (fun cb => beq ch (fst cb) && beq b (snd cb)) (prog_cells p).

(* report r counts for key: it has a program report of pk carrying a configured bucket that normalises to key *)
Definition counts_for (pk ch : bytes) (buckets : list bytes) (norm : bytes -> option bytes) (key : bytes)
    (r : report) : bool :=
  existsb (fun p => beq (pr_prog p) pk &&
                    existsb (fun b => match norm b with Some k => beq k key | None => false end && carries p ch b)
                            buckets)
          (r_progs r).

(* number of distinct X among the reports counting for key *)
Definition spec_count (reports : list report) pk ch buckets norm key : Z :=
  Z.of_nat (length (nodup Z.eq_dec (map r_x (filter (counts_for pk ch buckets norm key) reports)))).

Definition has_progs (r : report) : bool := negb (is_nil (r_progs r)).

(* latest week among the reports that have at least one program report ("" if none) *)
Definition max_week (reports : list report) : bytes :=
  fold_left (fun e wk => if bleb e wk then wk else e) (map r_week (filter has_progs reports)) [].

Definition norm_keys (norm : bytes -> option bytes) (buckets : list bytes) : list bytes :=
  flat_map (fun b => match norm b with Some k => [k] | None => [] end) buckets.

Fixpoint nodupb (l : list bytes) : bool :=
  match l with [] => true | x :: l' => negb (mem_b x l') && nodupb l' end.

Definition chart_nonempty (reports : list report) pk ch buckets norm : bool :=
  existsb (fun k => 0 <? spec_count reports pk ch buckets norm k)%Z (norm_keys norm buckets).

(* partition_ok: the chart the implementation produced for one request is
   the one the specification describes *)
Definition partition_ok (reports : list report) (pk : bytes) (q : preq) (oc : option chart) : bool :=
  let cnt := spec_count reports pk (q_chart q) (q_buckets q) (q_norm q) in
  match oc with
  | None => negb (chart_nonempty reports pk (q_chart q) (q_buckets q) (q_norm q))
  | Some c =>
      chart_nonempty reports pk (q_chart q) (q_buckets q) (q_norm q)
      && beq (c_id c) (charts_prefix ++ pk ++ colon_b ++ q_chart q)
      && beq (c_name c) (q_chart q) && beq (c_type c) partition_type
      && nodupb (map d_key (c_data c))
      && wsortedb d_key (q_lt q) (c_data c)
      && forallb (fun x : datum =>
                    let '(wk, key, v) := x in
                    beq wk (max_week reports) && mem_b key (norm_keys (q_norm q) (q_buckets q))
                    && Z.eqb v (cnt key) && ((0 <? v)%Z || negb (q_ignore q)))
                 (c_data c)
      && forallb (fun k => mem_b k (map d_key (c_data c)) || negb ((0 <? cnt k)%Z || negb (q_ignore q)))
                 (norm_keys (q_norm q) (q_buckets q))
  end.

(* pairs each request with the chart that answers it: nil charts are absent from the output *)
Fixpoint reqs_ok (reports : list report) (pk : bytes) (qs : list preq) (cs : list chart) : bool :=
  match qs with
  | [] => is_nil cs
  | q :: qs' =>
      if chart_nonempty reports pk (q_chart q) (q_buckets q) (q_norm q) then
        match cs with
        | c :: cs' => partition_ok reports pk q (Some c) && reqs_ok reports pk qs' cs'
        | [] => false
        end
      else reqs_ok reports pk qs' cs
  end.

Fixpoint programs_ok lt_semver lt_gover (cfg : config) (reports : list report)
    (ps : list program_cfg) (os : list prog_out) : bool :=
  match ps, os with
  | [], [] => true
  | p :: ps', o :: os' =>
      beq (po_id o) (charts_prefix ++ pc_name p) && beq (po_name o) (pc_name p)
      && reqs_ok reports (pc_name p) (program_reqs lt_semver lt_gover cfg p) (po_charts o)
      && programs_ok lt_semver lt_gover cfg reports ps' os'
  | _, _ => false
  end.

(* chart_ok cfg reports chart *)
Definition chart_ok lt_semver lt_gover (cfg : config) (start end_ : bytes) (reports : list report)
    (cd : chartdata) : bool :=
  beq (cd_start cd) start && beq (cd_end cd) end_
  && Nat.eqb (cd_num cd) (length reports)
  && programs_ok lt_semver lt_gover cfg reports (cf_programs cfg) (cd_programs cd).

(* comparator from a rank table (the harness sends the real comparator's ranking of the keys) *)
Fixpoint rank_of (tbl : list (bytes * Z)) (k : bytes) : Z :=
  match tbl with
  | [] => (-1)%Z
  | (k', r) :: t => if beq k k' then r else rank_of t k
  end.
Definition rank_lt (tbl : list (bytes * Z)) (x y : bytes) : bool := Z.ltb (rank_of tbl x) (rank_of tbl y).

(* compareSemver: semver.Compare, ties broken lexically *)
Definition semver_lt (semver_compare : bytes -> bytes -> comparison) (x y : bytes) : bool :=
  match semver_compare x y with Lt => true | Eq => bltb x y | Gt => false end.
