(* Model/StackConc: StackCounter.Inc under concurrency.
   Inc takes c.mu for the whole of  lookup - EncodeStack - append - ctr.Inc
   (internal/counter/stackcounter.go: c.mu.Lock(); defer c.mu.Unlock()), so at
   the granularity of the mutex one Inc is ONE atomic find-or-append-and-add on
   the association list c.stacks.  A concurrent execution of any number of
   goroutines is then an interleaving of their sequences of atomic Incs.
   State: (key = pcs of the call stack, value of the counter) in creation order.
   Executable definitions only. *)
From Coq Require Import List NArith Bool.
From Tele Require Import Lib.Bytes.
Import ListNotations.
Open Scope N_scope.

Definition cstate := list (list N * N).

(* one Inc from the call stack k, atomically *)
Fixpoint inc_atomic (k : list N) (st : cstate) : cstate :=
  match st with
  | [] => [(k, 1)]
  | (k', v) :: st' => if beq k' k then (k', v + 1) :: st' else (k', v) :: inc_atomic k st'
  end.

Definition run_atomic (hist : list (list N)) : cstate :=
  fold_left (fun st k => inc_atomic k st) hist [].

(* observations: how many counters a call stack owns, and their total *)
Fixpoint entries (k : list N) (st : cstate) : nat :=
  match st with
  | [] => O
  | (k', _) :: st' => if beq k' k then S (entries k st') else entries k st'
  end.
Fixpoint total (k : list N) (st : cstate) : N :=
  match st with
  | [] => 0
  | (k', v) :: st' => if beq k' k then v + total k st' else total k st'
  end.

(* interleavings of the threads' own sequences of Incs *)
Inductive interleaving : list (list (list N)) -> list (list N) -> Prop :=
| il_done : forall ths, Forall (fun t => t = []) ths -> interleaving ths []
| il_step : forall pre k t post h,
    interleaving (pre ++ t :: post) h -> interleaving (pre ++ (k :: t) :: post) (k :: h).

(* the two halves of an Inc that does NOT hold the lock across them (what the
   code must not do): a lookup that found nothing, later an append *)
Definition append_new (k : list N) (st : cstate) : cstate := st ++ [(k, 1)].
