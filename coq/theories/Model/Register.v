(* Model/Register: the lock-free registration of counters in the file's
   linked list (internal/counter/file.go: file.register), one step per atomic
   operation.  Any number of threads, several of which may register the same
   counter.  Executable definitions only. *)
From Coq Require Import List Arith Bool.
Import ListNotations.

(* a list pointer: nil, the end marker &f.end, or a counter *)
Inductive ptr := PNil | PEnd | PCtr (c : nat).

Definition ptr_eqb (a b : ptr) : bool :=
  match a, b with
  | PNil, PNil | PEnd, PEnd => true
  | PCtr x, PCtr y => Nat.eqb x y
  | _, _ => false
  end.

Record rshared := mkR {
  r_head : ptr;            (* f.counters: PNil or a counter *)
  r_next : list ptr        (* c.next per counter id *)
}.

Inductive rpc :=
  | RIdle                  (* register not called yet *)
  | RTest                  (* loop test: c.next.Load() == nil  (only while !wroteNext) *)
  | RHead                  (* head := f.counters.Load() *)
  | RNext                  (* c.next.CompareAndSwap(nil, next)  or  c.next.Store(next) *)
  | RLink                  (* f.counters.CompareAndSwap(head, c) *)
  | RDbgNext               (* c.next.Load() evaluated as a debugPrintf argument after a failed next CAS *)
  | RDbgFail               (* f.counters.Load() evaluated as a debugPrintf argument after a failed head CAS *)
  | RDbgOk                 (* f.counters.Load() evaluated as a debugPrintf argument after a successful head CAS *)
  | RInv | RRef            (* fix f518e0b: the goroutine that linked c runs c.invalidate() and c.refresh():
                              their loads of c's state word (the word itself is Model/CounterConc's subject) *)
  | RDone.

Record rthread := mkRT {
  rt_pc : rpc;
  rt_c : nat;              (* the counter being registered *)
  rt_wrote : bool;         (* wroteNext *)
  rt_head : ptr            (* saved head *)
}.

Definition rstate := (rshared * list rthread)%type.

Fixpoint rupd {A} (l : list A) (i : nat) (x : A) : list A :=
  match l, i with
  | [], _ => []
  | _ :: l', O => x :: l'
  | y :: l', S i' => y :: rupd l' i' x
  end.

Definition next_of (s : rshared) (c : nat) : ptr := nth c (r_next s) PNil.
Definition as_next (h : ptr) : ptr := match h with PNil => PEnd | p => p end.

Definition rstep_thread (s : rshared) (t : rthread) : rshared * rthread :=
  match rt_pc t with
  | RIdle => (s, mkRT RTest (rt_c t) false PNil)
  | RTest =>
      match next_of s (rt_c t) with
      | PNil => (s, mkRT RHead (rt_c t) (rt_wrote t) (rt_head t))
      | _ => (s, mkRT RDone (rt_c t) (rt_wrote t) (rt_head t))
      end
  | RHead => (s, mkRT RNext (rt_c t) (rt_wrote t) (r_head s))
  | RNext =>
      let nx := as_next (rt_head t) in
      if rt_wrote t then
        (mkR (r_head s) (rupd (r_next s) (rt_c t) nx), mkRT RLink (rt_c t) true (rt_head t))
      else
        match next_of s (rt_c t) with
        | PNil => (mkR (r_head s) (rupd (r_next s) (rt_c t) nx), mkRT RLink (rt_c t) true (rt_head t))
        | _ => (s, mkRT RDbgNext (rt_c t) false (rt_head t))
        end
  | RLink =>
      if ptr_eqb (r_head s) (rt_head t)
      then (mkR (PCtr (rt_c t)) (r_next s), mkRT RDbgOk (rt_c t) (rt_wrote t) (rt_head t))
      else (s, mkRT RDbgFail (rt_c t) (rt_wrote t) (rt_head t))
  | RDbgNext => (s, mkRT RTest (rt_c t) (rt_wrote t) (rt_head t))
  | RDbgFail => (s, mkRT RHead (rt_c t) (rt_wrote t) (rt_head t))
  | RDbgOk => (s, mkRT RInv (rt_c t) (rt_wrote t) (rt_head t))
  | RInv => (s, mkRT RRef (rt_c t) (rt_wrote t) (rt_head t))
  | RRef => (s, mkRT RDone (rt_c t) (rt_wrote t) (rt_head t))
  | RDone => (s, t)
  end.

Definition rstep (st : rstate) (i : nat) : rstate :=
  let '(s, ts) := st in
  match nth_error ts i with
  | Some t => let '(s', t') := rstep_thread s t in (s', rupd ts i t')
  | None => st
  end.

Definition rrun (sched : list nat) (st : rstate) : rstate := fold_left rstep sched st.

Definition rinit (ncounters : nat) (who : list nat) : rstate :=
  (mkR PNil (repeat PNil ncounters), map (fun c => mkRT RIdle c false PNil) who).

(* the chain reachable from a pointer, with fuel; None = fuel exhausted or a
   nil link inside the chain (malformed) *)
Fixpoint chain (fuel : nat) (s : rshared) (p : ptr) : option (list nat) :=
  match fuel with
  | O => None
  | S f =>
      match p with
      | PEnd => Some []
      | PNil => None
      | PCtr c => match chain f s (next_of s c) with Some l => Some (c :: l) | None => None end
      end
  end.

Definition chain_from_head (s : rshared) : option (list nat) :=
  match r_head s with
  | PNil => Some []
  | p => chain (S (length (r_next s))) s p
  end.

Definition rdone (t : rthread) : bool := match rt_pc t with RDone => true | _ => false end.
Definition rbegun (t : rthread) : bool := match rt_pc t with RIdle => false | _ => true end.

Fixpoint mem (x : nat) (l : list nat) : bool :=
  match l with [] => false | y :: l' => Nat.eqb x y || mem x l' end.
Fixpoint nodupb (l : list nat) : bool :=
  match l with [] => true | x :: l' => negb (mem x l') && nodupb l' end.

(* oracle: the list is well formed; at quiescence every counter somebody
   registered is in it exactly once *)
Definition list_ok (s : rshared) : bool :=
  match chain_from_head s with Some l => nodupb l | None => false end.
Definition quiescent_ok (s : rshared) (ts : list rthread) : bool :=
  match chain_from_head s with
  | Some l => nodupb l && forallb (fun t => negb (rdone t) || mem (rt_c t) l) ts
  | None => false
  end.
