(* Model/LayoutMulti: two extensions of the single-writer model of
   Model/Layout.v.

   1. Failing file growth.  newCounter and extend reach the file system only
      when the file has to grow: extend = Stat, [WriteAt of four zero bytes
      when the file is shorter], then openMapped = OpenFile, Stat, mmap (whose
      first action is a Stat).  A fault plan names the index of the call of
      that sequence that fails (errno, no partial effect); the operation then
      returns the error.  The allocation limit is written only AFTER a
      successful extension, so a failed operation leaves the file as it was, or
      grown by zero bytes when the call that failed came after the WriteAt.

   2. Several writers starting on the same, possibly not yet existing file.
      openMapped of each writer is split at its file-system calls: OpenFile,
      Stat, [WriteAt(header, 0), WriteAt(4 zero bytes, 16380), Stat], mmap's
      Stat with everything up to the writer's next file-system call.  A
      schedule is a list of writer indices.  (The operations a writer performs
      after its creation sequence are single steps here; their interleaving at
      atomic-operation granularity is the subject of C04.) *)
From Coq Require Import List NArith Bool.
From Tele Require Import Lib.Bytes Lib.BytesN Gen.Consts Model.DecodeStack Model.Layout.
Import ListNotations.
Open Scope N_scope.

(* ------------------------------------------------------------------ *)
(* 1. failing growth                                                    *)

(* Some e: newCounter(name) on this file calls extend(e) *)
Definition growth_end (hdr : N) (bs name : bytes) : option N :=
  if (len name =? 0) || (c_maxNameLen <? len name) then None else
  match lookup bs hdr name with
  | LMissing =>
      let limit := load32 bs (hdr + c_limitOff) in
      let '(s, e) := place hdr limit (len name) in
      if (s <? limit) || (e <? s) || (round_u32 e c_pageSize <? e) then None else
      if len bs <? e then Some e else None
  | _ => None
  end.

(* the file after extend's WriteAt *)
Definition extend_written (bs : bytes) (e : N) : bytes :=
  let e' := round_u32 e c_pageSize in
  if len bs <? e' then write_at bs (e' - 4) [0; 0; 0; 0] else bs.

(* extend(e) with the k-th file-system call failing: Some bs' = the file it
   leaves when the fault is reached, None = the plan is beyond the calls made *)
Definition extend_fault (bs : bytes) (e k : N) : option bytes :=
  let e' := round_u32 e c_pageSize in
  if len bs <? e' then
    (* Stat, WriteAt, OpenFile, Stat, Stat(mmap) *)
    if k <? 2 then Some bs else if k <? 5 then Some (extend_written bs e) else None
  else
    (* Stat, OpenFile, Stat, Stat(mmap) *)
    if k <? 4 then Some bs else None.

Definition with_bs (s : wstate) (bs : bytes) : wstate :=
  {| w_meta := w_meta s; w_hdr := w_hdr s; w_bs := bs |}.

(* an operation with an optional fault plan (index of the failing call among
   the file-system calls the operation makes) *)
Definition step_f (s : wstate) (o : op) (plan : option N) : op_result * wstate :=
  match plan with
  | None => step s o
  | Some k =>
      match o with
      | OpNew name | OpAdd name _ =>
          match growth_end (w_hdr s) (w_bs s) name with
          | Some e =>
              match extend_fault (w_bs s) e k with
              | Some bs' => (RFail, with_bs s bs')
              | None => step s o
              end
          | None => step s o
          end
      | OpExtend e =>
          match extend_fault (w_bs s) e k with
          | Some bs' => (RFail, with_bs s bs')
          | None => step s o
          end
      | OpReopen _ => step s o
      end
  end.

Fixpoint run_fops (s : wstate) (ops : list (op * option N)) : list op_result * wstate :=
  match ops with
  | [] => ([], s)
  | (o, p) :: t => let '(r, s1) := step_f s o p in
                   let '(rs, s2) := run_fops s1 t in (r :: rs, s2)
  end.

(* ------------------------------------------------------------------ *)
(* 2. several writers creating one file                                 *)

Inductive cpc :=
  | CStart            (* before OpenFile *)
  | CStat             (* before the first Stat *)
  | CWriteHdr         (* before WriteAt(hdr, 0) *)
  | CWriteTail        (* before WriteAt(zero[:], minFileLen-4) *)
  | CStat2            (* before the second Stat *)
  | CMap              (* before mmap's Stat; the rest of openMapped and the writer's operations follow *)
  | CDone
  | CFailed.          (* header mismatch *)

Record cwriter := { c_pc : cpc; c_ops : list op; c_res : list op_result }.

Record cstate := { c_file : bytes; c_ws : list cwriter }.

Definition set_pc (w : cwriter) (pc : cpc) : cwriter :=
  {| c_pc := pc; c_ops := c_ops w; c_res := c_res w |}.

(* one step of one writer on the shared file; all writers use metadata meta
   (header h) *)
Definition cstep_w (meta h : bytes) (file : bytes) (w : cwriter) : bytes * cwriter :=
  match c_pc w with
  | CStart => (file, set_pc w CStat)
  | CStat => (file, set_pc w (if len file <? c_minFileLen then CWriteHdr else CMap))
  | CWriteHdr => (write_at file 0 h, set_pc w CWriteTail)
  | CWriteTail => (write_at file (c_minFileLen - 4) [0; 0; 0; 0], set_pc w CStat2)
  | CStat2 => (file, set_pc w CMap)
  | CMap =>
      if has_prefix file h then
        let '(rs, s) := run_ops {| w_meta := meta; w_hdr := u32 (len h); w_bs := file |} (c_ops w) in
        (w_bs s, {| c_pc := CDone; c_ops := c_ops w; c_res := rs |})
      else (file, set_pc w CFailed)
  | CDone | CFailed => (file, w)
  end.

Fixpoint upd_nth {A} (l : list A) (i : nat) (x : A) : list A :=
  match l, i with
  | [], _ => []
  | _ :: t, O => x :: t
  | y :: t, S j => y :: upd_nth t j x
  end.

Definition cstep (meta h : bytes) (st : cstate) (i : nat) : cstate :=
  match nth_error (c_ws st) i with
  | None => st
  | Some w => let '(f, w') := cstep_w meta h (c_file st) w in
              {| c_file := f; c_ws := upd_nth (c_ws st) i w' |}
  end.

Definition crun (meta h : bytes) (st : cstate) (sched : list nat) : cstate :=
  fold_left (cstep meta h) sched st.

Definition cinit (file : bytes) (progs : list (list op)) : cstate :=
  {| c_file := file; c_ws := map (fun p => {| c_pc := CStart; c_ops := p; c_res := [] |}) progs |}.

(* run a race from its description; None: the metadata has no header *)
Definition race (meta file : bytes) (progs : list (list op)) (sched : list nat) : option cstate :=
  match mapped_header meta with
  | Some h => Some (crun meta h (cinit file progs) sched)
  | None => None
  end.

Definition pc_tag (pc : cpc) : N :=
  match pc with
  | CStart => 0 | CStat => 1 | CWriteHdr => 2 | CWriteTail => 3 | CStat2 => 4 | CMap => 5
  | CDone => 6 | CFailed => 7
  end.
