(* Model/CounterConc: the in-process protocol of one counter
   (internal/counter/counter.go: Add, releaseReader, releaseLock, add,
   invalidate, refresh; internal/counter/file.go: lookup, the mapping
   changers rotate1 / newCounter1's cleanup) as a transition system at the
   granularity of individual atomic operations.  Any number of threads.

   The state word is a Z in [0, 2^64): readers in bits 0..29 (all ones =
   locked), havePtr bit 30, extra in bits 31..63; operations are the Go
   ones written arithmetically with the generated constants.

   Executable definitions only. *)
From Coq Require Import List ZArith NArith Bool.
From Tele Require Import Gen.Consts.
Import ListNotations.
Open Scope Z_scope.

(* ---- the state word ---- *)
Definition LOCKED : Z := Z.of_N c_stateLocked.          (* 2^30 - 1 *)
Definition HAVE : Z := Z.of_N c_stateHavePtr.           (* 2^30 *)
Definition XUNIT : Z := 2 ^ Z.of_N c_stateExtraShift.   (* 2^31 *)
Definition MAXEXTRA : Z := Z.of_N c_maxExtra.           (* 2^33 - 1 *)
Definition W64 : Z := 2 ^ 64.

Definition w_readers (w : Z) : Z := w mod HAVE.
Definition w_have (w : Z) : bool := Z.odd (w / HAVE).
Definition w_extra (w : Z) : Z := w / XUNIT.
Definition w_locked (w : Z) : bool := w_readers w =? LOCKED.

Definition w_inc_reader (w : Z) : Z := (w + 1) mod W64.
Definition w_dec_reader (w : Z) : Z := (w - 1) mod W64.
Definition w_set_locked (w : Z) : Z := w - w_readers w + LOCKED.
Definition w_clear_locked (w : Z) : Z := w - w_readers w.
Definition w_set_have (w : Z) : Z := if w_have w then w else w + HAVE.
Definition w_clear_have (w : Z) : Z := if w_have w then w - HAVE else w.
Definition w_clear_extra (w : Z) : Z := w mod XUNIT.
(* addExtra: n is a uint64; x+n < x is the 64-bit overflow test *)
Definition w_add_extra (w n : Z) : Z :=
  let x := w_extra w in
  let x' := if (W64 <=? x + n) || (MAXEXTRA <? x + n) then MAXEXTRA else x + n in
  w_clear_extra w + x' * XUNIT.
Definition add_extra_saturates (w n : Z) : bool :=
  (W64 <=? w_extra w + n) || (MAXEXTRA <? w_extra w + n).

(* Counter.add on the mapped cell: saturating 64-bit add *)
Definition cell_add (old n : Z) : Z := if W64 <=? old + n then W64 - 1 else old + n.

(* ---- threads ---- *)
Inductive kind := Adder | Changer.

(* what a changer installs: a mapping of a new file (rotation / first open),
   a new mapping of the current file (extension), nothing (failed open), or
   a mapping of a file that exists already and has no room left (first open,
   in a process started later the same day, of a file another process filled) *)
Inductive target := NewFile | SameFile | NoFile | FullFile.

Inductive pc :=
  | AIdle                         (* Add not called yet *)
  | ALoad                         (* state = c.state.load() *)
  | ACas                          (* switch on state; the matching CAS *)
  | AXCas | AXLoad                (* reader with nil ptr: add to extra, retry loop *)
  | ACellLoad | ACellCas          (* reader: c.add(n) *)
  | RCas | RLoad                  (* releaseReader *)
  | LCas | LLoad                  (* releaseLock: the three CASes, chosen on saved state *)
  | LLook1 | LLook2               (* file.lookup: f.current.Load(); newCounter1 under f.mu *)
  | GIvLoad | GIvCas              (* lookup extended the file itself: cleanup's Counter.invalidate ... *)
  | GRfLoad | GClose              (* ... Counter.refresh (sees the lock), current.close() and c.ptr = <returned> *)
  | LCellLoad | LCellCas          (* releaseLock: c.add(extra) *)
  | CIdle | CPre | CStore         (* changer: [f.current.Load() in file.lookup;] store f.current under f.mu *)
  | CNop (k : nat)                (* k operations that do not touch the modelled state *)
  | IvLoad | IvCas                (* Counter.invalidate *)
  | RfLoad | RfCas                (* Counter.refresh *)
  | CClose                        (* previous.close() *)
  | Crash                         (* nil pointer dereference in Counter.add *)
  | Done.

Record thread := mkT {
  t_pc : pc; t_kind : kind;
  t_st : Z;            (* saved state word *)
  t_amt : Z;           (* Add's n, or the extra being flushed *)
  t_old : Z;           (* cell value read *)
  t_prev : option nat; (* changer: previous mapping *)
  t_prev2 : option nat; (* any thread: the mapping its own lookup replaced when it extended the file *)
  t_tgt : target;
  t_after : pc         (* changer: continuation after a CNop run *)
}.

Record shared := mkS {
  s_word : Z;
  s_ptr : option nat;        (* mapping the counter's pointer refers to *)
  s_cur : option nat;        (* f.current *)
  s_maps : list nat;         (* mapping id -> file id *)
  s_closed : list nat;       (* closed mapping ids *)
  s_cells : list Z;          (* file id -> persisted value of this counter *)
  s_faults : Z;              (* accesses through a closed mapping *)
  s_sat : bool;              (* some add saturated *)
  s_full : bool;             (* the current file has no room for this counter's record: the first
                                lookup that has to create it extends the file (newCounter1's newM) *)
  s_new : option nat;        (* lock holder only: the mapping lookup returned a pointer into,
                                not yet assigned to c.ptr (cleanup runs in between) *)
  s_tight : bool             (* the current file has no room for the (large) record another counter's
                                lookup creates: that lookup extends the file (changer SameFile) *)
}.

Definition state := (shared * list thread)%type.

Fixpoint upd {A} (l : list A) (i : nat) (x : A) : list A :=
  match l, i with
  | [], _ => []
  | _ :: l', O => x :: l'
  | y :: l', S i' => y :: upd l' i' x
  end.

Definition file_of (s : shared) (g : nat) : nat := nth g (s_maps s) 0%nat.
Definition cell_of (s : shared) (g : nat) : Z := nth (file_of s g) (s_cells s) 0.
Definition is_closed (s : shared) (g : nat) : bool := existsb (Nat.eqb g) (s_closed s).

Definition set_word (s : shared) (w : Z) : shared :=
  mkS w (s_ptr s) (s_cur s) (s_maps s) (s_closed s) (s_cells s) (s_faults s) (s_sat s) (s_full s) (s_new s) (s_tight s).
Definition set_sat (s : shared) (b : bool) : shared :=
  mkS (s_word s) (s_ptr s) (s_cur s) (s_maps s) (s_closed s) (s_cells s) (s_faults s) (s_sat s || b) (s_full s) (s_new s) (s_tight s).
Definition set_ptr (s : shared) (p : option nat) : shared :=
  mkS (s_word s) p (s_cur s) (s_maps s) (s_closed s) (s_cells s) (s_faults s) (s_sat s) (s_full s) (s_new s) (s_tight s).
Definition touch (s : shared) (g : nat) : shared :=   (* an access through mapping g *)
  mkS (s_word s) (s_ptr s) (s_cur s) (s_maps s) (s_closed s) (s_cells s)
      (if is_closed s g then s_faults s + 1 else s_faults s) (s_sat s) (s_full s) (s_new s) (s_tight s).
Definition set_cell (s : shared) (g : nat) (v : Z) : shared :=
  mkS (s_word s) (s_ptr s) (s_cur s) (s_maps s) (s_closed s)
      (upd (s_cells s) (file_of s g) v) (s_faults s) (s_sat s) (s_full s) (s_new s) (s_tight s).

Definition with_pc (t : thread) (p : pc) : thread :=
  mkT p (t_kind t) (t_st t) (t_amt t) (t_old t) (t_prev t) (t_prev2 t) (t_tgt t) (t_after t).
Definition with_st (t : thread) (p : pc) (w : Z) : thread :=
  mkT p (t_kind t) w (t_amt t) (t_old t) (t_prev t) (t_prev2 t) (t_tgt t) (t_after t).
Definition with_old (t : thread) (p : pc) (v : Z) : thread :=
  mkT p (t_kind t) (t_st t) (t_amt t) v (t_prev t) (t_prev2 t) (t_tgt t) (t_after t).
(* the inline invalidate keeps its own copy of the word in t_old: t_st is
   releaseLock's saved state, used again by the CAS after lookup returns *)
Definition with_st2 (t : thread) (p : pc) (w : Z) : thread :=
  mkT p (t_kind t) (t_st t) (t_amt t) w (t_prev t) (t_prev2 t) (t_tgt t) (t_after t).
Definition with_amt (t : thread) (p : pc) (w a : Z) : thread :=
  mkT p (t_kind t) w a (t_old t) (t_prev t) (t_prev2 t) (t_tgt t) (t_after t).

(* numbers of scheduler steps the real code spends on operations that do not
   touch the modelled state (list traversal, f.current reloads, sync.Once);
   they are parameters of the thread programs so that the model can be run in
   lock step with the instrumented implementation. *)
Record nops := mkN { n_after_store_rotate : nat; n_after_store_extend : nat }.
Definition default_nops : nops := mkN 1 0.

Definition goto_nops (t : thread) (k : nat) (after : pc) : thread :=
  match k with
  | O => with_pc t IvLoad
  | S k' => with_pc t (CNop k')
  end.

(* after releaseLock returns *)
Definition to_close (t : thread) : thread :=
  match t_prev t with Some _ => with_pc t CClose | None => with_pc t Done end.
Definition after_release (np : nops) (t : thread) : thread :=
  match t_kind t with
  | Adder => with_pc t Done
  | Changer => to_close t
  end.

(* one step of thread t on shared s *)
Definition step_thread (np : nops) (s : shared) (t : thread) : shared * thread :=
  let w := s_word s in
  match t_pc t with
  | AIdle => (s, with_pc t ALoad)
  | ALoad => (s, with_st t ACas w)
  | ACas =>
      let st := t_st t in
      if negb (w_locked st) && w_have st then
        (* reader path: incReader *)
        if w =? st then
          let w' := w_inc_reader st in
          match s_ptr s with
          | None => (set_word s w', with_st t AXCas w')
          | Some _ => (set_word s w', with_st t ACellLoad w')
          end
        else (s, with_pc t ALoad)
      else if w_locked st then
        if w =? st then
          (set_sat (set_word s (w_add_extra st (t_amt t))) (add_extra_saturates st (t_amt t)), with_pc t Done)
        else (s, with_pc t ALoad)
      else (* no pointer *)
        if 0 <? w_readers st then
          if w =? st then
            (set_sat (set_word s (w_add_extra st (t_amt t))) (add_extra_saturates st (t_amt t)), with_pc t Done)
          else (s, with_pc t ALoad)
        else
          if w =? st then
            let w' := w_set_locked (w_add_extra st (t_amt t)) in
            (set_sat (set_word s w') (add_extra_saturates st (t_amt t)), with_st t LCas w')
          else (s, with_pc t ALoad)
  | AXCas =>
      let st := t_st t in
      if w =? st then
        let w' := w_add_extra st (t_amt t) in
        (set_sat (set_word s w') (add_extra_saturates st (t_amt t)), with_st t RCas w')
      else (s, with_pc t AXLoad)
  | AXLoad => (s, with_st t AXCas w)
  | ACellLoad =>
      match s_ptr s with
      | Some g => (touch s g, with_old t ACellCas (cell_of s g))
      | None => (s, with_pc t Crash) (* c.ptr.count is nil: proved unreachable *)
      end
  | ACellCas =>
      match s_ptr s with
      | Some g =>
          if cell_of s g =? t_old t then
            let v := cell_add (t_old t) (t_amt t) in
            (set_sat (set_cell (touch s g) g v) (W64 <=? t_old t + t_amt t), with_pc t RCas)
          else (touch s g, with_pc t ACellLoad)
      | None => (s, with_pc t Crash)
      end
  | RCas =>
      let st := t_st t in
      if (w_readers st =? 1) && negb (w_have st) then
        if w =? st then let w' := w_set_locked st in (set_word s w', with_st t LCas w')
        else (s, with_pc t RLoad)
      else
        if w =? st then (set_word s (w_dec_reader st), with_pc t Done)
        else (s, with_pc t RLoad)
  | RLoad => (s, with_st t RCas w)
  | LCas =>
      let st := t_st t in
      if negb (w_have st) then
        if w =? st then let w' := w_set_have st in (set_word s w', with_st t LLook1 w')
        else (s, with_pc t LLoad)
      else
        match (if w_extra st =? 0 then None else s_ptr s) with
        | Some _ =>
            if w =? st then
              let w' := w_clear_extra st in (set_word s w', with_amt t LCellLoad w' (w_extra st))
            else (s, with_pc t LLoad)
        | None =>
            if w =? st then (set_word s (w_clear_locked st), after_release np t)
            else (s, with_pc t LLoad)
        end
  | LLoad => (s, with_st t LCas w)
  | LLook1 =>
      match s_cur s with
      | None => (set_ptr s None, with_pc t LCas)
      | Some _ => (s, with_pc t LLook2)
      end
  | LLook2 =>
      match s_cur s, t_prev2 t with
      | Some g0, None =>
          if s_full s then
            (* the record does not fit: newCounter1 extends the file, stores the new
               mapping, and returns a pointer into it; the cleanup (invalidate and
               refresh every counter, close the previous mapping) runs before
               lookup returns *)
            let g := length (s_maps s) in
            (mkS w (s_ptr s) (Some g) (s_maps s ++ [file_of s g0]) (s_closed s) (s_cells s) (s_faults s) (s_sat s) false (Some g) false,
             mkT GIvLoad (t_kind t) (t_st t) (t_amt t) (t_old t) (t_prev t) (Some g0) (t_tgt t) (t_after t))
          else (set_ptr s (s_cur s), with_pc t LCas)
      | _, _ => (set_ptr s (s_cur s), with_pc t LCas)
      end
  | GIvLoad =>
      if w_have w then (s, with_st2 t GIvCas w) else (s, with_pc t GRfLoad)
  | GIvCas =>
      if w =? t_old t then (set_word s (w_clear_have (t_old t)), with_pc t GRfLoad)
      else (s, with_pc t GIvLoad)
  | GRfLoad =>
      if w_have w || (0 <? w_readers w) || (w_extra w =? 0)
      then (s, with_pc t GClose)
      else (s, with_pc t Crash)   (* refresh would take the lock the thread already holds: proved unreachable *)
  | GClose =>
      match t_prev2 t with
      | Some g =>
          (mkS w (s_new s) (s_cur s) (s_maps s) (g :: s_closed s) (s_cells s) (s_faults s) (s_sat s) (s_full s) (s_new s) (s_tight s),
           with_pc t LCas)
      | None => (set_ptr s (s_new s), with_pc t LCas)
      end
  | LCellLoad =>
      match s_ptr s with
      | Some g => (touch s g, with_old t LCellCas (cell_of s g))
      | None => (s, with_pc t Crash)
      end
  | LCellCas =>
      match s_ptr s with
      | Some g =>
          if cell_of s g =? t_old t then
            let v := cell_add (t_old t) (t_amt t) in
            (set_sat (set_cell (touch s g) g v) (W64 <=? t_old t + t_amt t), with_amt t LCas (t_st t) 0)
          else (touch s g, with_pc t LCellLoad)
      | None => (s, with_pc t Crash)
      end
  | CIdle => (s, with_pc t (match t_tgt t with SameFile => CPre | _ => CStore end))
  | CPre => (s, with_pc t CStore)
  | CStore =>
      let g := length (s_maps s) in
      let t' := mkT Done Changer (t_st t) (t_amt t) (t_old t) (s_cur s) (t_prev2 t) (t_tgt t) Done in
      match t_tgt t with
      | NewFile =>
          (mkS w (s_ptr s) (Some g) (s_maps s ++ [length (s_cells s)]) (s_closed s) (s_cells s ++ [0]) (s_faults s) (s_sat s) false (s_new s) false,
           goto_nops t' (n_after_store_rotate np) IvLoad)
      | SameFile =>
          match s_cur s with
          | Some g0 =>
              if s_tight s then
                (mkS w (s_ptr s) (Some g) (s_maps s ++ [file_of s g0]) (s_closed s) (s_cells s) (s_faults s) (s_sat s) false (s_new s) false,
                 goto_nops t' (n_after_store_extend np) IvLoad)
              else (s, with_pc t Done)   (* the record fits: nothing changes for this counter *)
          | None => (s, with_pc t Done)
          end
      | NoFile =>
          (mkS w (s_ptr s) None (s_maps s) (s_closed s) (s_cells s) (s_faults s) (s_sat s) (s_full s) (s_new s) (s_tight s),
           goto_nops t' (n_after_store_rotate np) IvLoad)
      | FullFile =>
          (mkS w (s_ptr s) (Some g) (s_maps s ++ [length (s_cells s)]) (s_closed s) (s_cells s ++ [0]) (s_faults s) (s_sat s) true (s_new s) true,
           goto_nops t' (n_after_store_rotate np) IvLoad)
      end
  | CNop k =>
      (s, match k with O => with_pc t IvLoad | S k' => with_pc t (CNop k') end)
  | IvLoad =>
      if w_have w then (s, with_st t IvCas w) else (s, with_st t RfLoad w)
  | IvCas =>
      if w =? t_st t then (set_word s (w_clear_have (t_st t)), with_pc t RfLoad)
      else (s, with_pc t IvLoad)
  | RfLoad =>
      if w_have w || (0 <? w_readers w) || (w_extra w =? 0)
      then (s, to_close (with_st t RfLoad w))
      else (s, with_st t RfCas w)
  | RfCas =>
      if w =? t_st t then let w' := w_set_locked (t_st t) in (set_word s w', with_st t LCas w')
      else (s, with_pc t RfLoad)
  | CClose =>
      match t_prev t with
      | Some g =>
          (mkS w (s_ptr s) (s_cur s) (s_maps s) (g :: s_closed s) (s_cells s) (s_faults s) (s_sat s) (s_full s) (s_new s) (s_tight s),
           with_pc t Done)
      | None => (s, with_pc t Done)
      end
  | Crash => (s, t)
  | Done => (s, t)
  end.

Definition step (np : nops) (st : state) (i : nat) : state :=
  let '(s, ts) := st in
  match nth_error ts i with
  | Some t => let '(s', t') := step_thread np s t in (s', upd ts i t')
  | None => st
  end.

Definition run (np : nops) (sched : list nat) (st : state) : state := fold_left (step np) sched st.

Definition adder (n : Z) : thread := mkT AIdle Adder 0 n 0 None None NoFile Done.
Definition changer (tg : target) : thread := mkT CIdle Changer 0 0 0 None None tg Done.

Definition init_shared : shared := mkS 0 None None [] [] [] 0 false false None false.

(* ---- quantities the theorems speak about ---- *)
Definition persisted (s : shared) : Z := fold_right Z.add 0 (s_cells s).

Definition started (t : thread) : bool :=
  match t_pc t with AIdle | CIdle => false | _ => true end.
Definition is_done (t : thread) : bool := match t_pc t with Done => true | _ => false end.


(* ---- observations compared with the instrumented implementation ---- *)
Definition code (o : option nat) : Z := match o with None => 0 | Some g => Z.of_nat g + 1 end.
Definition obs_of (s : shared) : Z * Z * Z * Z * Z :=
  (s_word s, code (s_ptr s), code (s_cur s), persisted s, Z.of_nat (length (s_closed s))).

Definition init_of (w ptrc curc pers : Z) (full tight : bool) : shared :=
  let opt c := if c =? 0 then None else Some (Z.to_nat (c - 1)) in
  match opt curc with
  | None => mkS w (opt ptrc) None [] [] [] 0 false false None false
  | Some _ => mkS w (opt ptrc) (Some 0%nat) [0%nat] [] [pers] 0 false full None tight
  end.

Definition all_done (ts : list thread) : bool := forallb is_done ts.

(* ---- executable oracles (the specification side, evaluated on what the
        implementation did) ---- *)
(* at every instant: fields in range, readers never exceeds the number of
   threads unless it is the lock value, persisted + pending <= begun *)
Definition instant_ok (nthreads begun w pers : Z) : bool :=
  (0 <=? w) && (w <? W64) && ((w_readers w <=? nthreads) || w_locked w)
  && (w_extra w <=? MAXEXTRA) && (pers + w_extra w <=? begun).
(* once all calls have returned *)
Definition final_ok (total : Z) (may_saturate cur_open : bool) (w pers : Z) : bool :=
  (may_saturate || (pers + w_extra w =? total))
  && (negb cur_open || (w_extra w =? 0))
  && (w_readers w =? 0).

(* ---- replay inside Coq (no extraction, no OCaml): the observations the
        instrumented implementation made after every model-visible step are
        compared with the model evaluated by the kernel's VM ---- *)
Definition obs_eqb (a b : Z * Z * Z * Z * Z) : bool :=
  let '(a1, a2, a3, a4, a5) := a in
  let '(b1, b2, b3, b4, b5) := b in
  (a1 =? b1) && (a2 =? b2) && (a3 =? b3) && (a4 =? b4) && (a5 =? b5).
Fixpoint lockstep (st : state) (steps : list (nat * (Z * Z * Z * Z * Z))) : bool :=
  match steps with
  | [] => true
  | (tid, o) :: rest =>
      let st' := step default_nops st tid in
      if obs_eqb (obs_of (fst st')) o then lockstep st' rest else false
  end.
Fixpoint failing_from {A} (f : A -> bool) (i : nat) (l : list A) : list nat :=
  match l with
  | [] => []
  | x :: l' => if f x then failing_from f (S i) l' else i :: failing_from f (S i) l'
  end.
Definition lockstep_failures (cases : list (state * list (nat * (Z * Z * Z * Z * Z)))) : list nat :=
  failing_from (fun c => lockstep (fst c) (snd c)) 0 cases.
