(* Model/Stack: stack-counter names (internal/counter/stackcounter.go).
     EncodeStack  -> encode_frames   (ditto compression, %+d / =%d renderings,
                                      join with "\n", truncation with marker)
     DecodeStack  -> decode_stack
     cutLastDot   -> cut_last_dot
     IsStackCounter -> is_stack
     StackCounter.Inc's per-pc-slice cache -> cache / inc / run
   A frame is what the loop of EncodeStack reads from one runtime.Frame:
   Function, Func != nil, the line it prints (Line - entryLine when Func != nil,
   else Line) and PC - Entry (uintptr arithmetic, so a natural < 2^64).
   The runtime symboliser (pcs -> frames) is a parameter, never modelled.
   Executable definitions only. *)
From Coq Require Import List NArith ZArith Bool.
From Tele Require Import Lib.Bytes Lib.Digits Gen.Consts.
Import ListNotations.
Open Scope N_scope.

Record frame := mkFrame {
  fr_func : bytes;      (* runtime.Frame.Function *)
  fr_hasfunc : bool;    (* runtime.Frame.Func != nil *)
  fr_line : Z;          (* Line - entryLine if fr_hasfunc, else Line (Go int) *)
  fr_off : N            (* PC - Entry (uintptr) *)
}.

(* cutLastDot: strings.LastIndex(x, "."); no dot -> ("", x) *)
Fixpoint cut_last_dot_aux (x : bytes) : option (bytes * bytes) :=
  match x with
  | [] => None
  | c :: x' =>
      match cut_last_dot_aux x' with
      | Some (p, r) => Some (c :: p, r)
      | None => if c =? 46 then Some ([], x') else None
      end
  end.
Definition cut_last_dot (x : bytes) : bytes * bytes :=
  match cut_last_dot_aux x with
  | Some pr => pr
  | None => ([], x)
  end.

(* fmt.Sprintf("%s.%s:%+d,+0x%x", ...) / fmt.Sprintf("%s.%s:=%d,+0x%x", ...) *)
Definition render_tail (f : frame) : bytes :=
  (if fr_hasfunc f then [58] ++ fmt_plus_d (fr_line f) else [58; 61] ++ fmt_d (fr_line f))
  ++ [44; 43; 48; 120] ++ fmt_hex (fr_off f).
Definition render_loc (path fname : bytes) (f : frame) : bytes :=
  path ++ [46] ++ fname ++ render_tail f.

(* the loop of EncodeStack; last = lastImport *)
Fixpoint encode_locs (last : bytes) (frames : list frame) : list bytes :=
  match frames with
  | [] => []
  | f :: fs =>
      let '(path, fname) := cut_last_dot (fr_func f) in
      if beq path last && negb (beq path [])        (* path == lastImport && path != "" *)
      then render_loc [34] fname f :: encode_locs last fs
      else render_loc path fname f :: encode_locs path fs
  end.

Definition encode_raw (prefix : bytes) (frames : list frame) : bytes :=
  prefix ++ [10] ++ join (encode_locs [] frames) [10].

Definition truncate_name (name : bytes) : bytes :=
  if c_maxNameLen <? N.of_nat (length name)
  then firstn (N.to_nat c_maxNameLen - length c_truncated_marker) name ++ c_truncated_marker
  else name.

Definition encode_frames (prefix : bytes) (frames : list frame) : bytes :=
  truncate_name (encode_raw prefix frames).

Definition is_truncated (prefix : bytes) (frames : list frame) : bool :=
  c_maxNameLen <? N.of_nat (length (encode_raw prefix frames)).

(* the uncompressed rendering of the same frames *)
Definition plain_loc (f : frame) : bytes :=
  let '(path, fname) := cut_last_dot (fr_func f) in render_loc path fname f.
Definition render_plain (prefix : bytes) (frames : list frame) : bytes :=
  prefix ++ [10] ++ join (map plain_loc frames) [10].

(* IsStackCounter: strings.Contains(name, "\n") *)
Definition is_stack (name : bytes) : bool := existsb (N.eqb 10) name.

(* the loop of DecodeStack; last = lastPath *)
Fixpoint decode_lines (last : bytes) (lines : list bytes) : list bytes :=
  match lines with
  | [] => []
  | l :: ls =>
      let '(path, rest) := cut_last_dot l in
      match path with
      | [] => l :: decode_lines last ls
      | _ => if beq path [34]
             then (last ++ rest) :: decode_lines last ls
             else l :: decode_lines (path ++ [46]) ls
      end
  end.

Definition decode_stack (ename : bytes) : bytes :=
  if is_stack ename then join (decode_lines [] (split_byte ename 10)) [10] else ename.

(* ---- StackCounter.Inc: the per-pc-slice cache -------------------------- *)

Definition cache := list (list N * bytes).    (* c.stacks: (pcs, counter name) in creation order *)

Fixpoint lookup_from (i : nat) (pcs : list N) (st : cache) : option nat :=
  match st with
  | [] => None
  | (k, _) :: st' => if beq k pcs then Some i else lookup_from (S i) pcs st'
  end.
Definition lookup (pcs : list N) (st : cache) : option nat := lookup_from 0 pcs st.

Section WithSymboliser.
  Variable symb : list N -> list frame.      (* runtime.CallersFrames, as read by EncodeStack's loop *)

  Definition encode_stack (pcs : list N) (prefix : bytes) : bytes :=
    encode_frames prefix (symb pcs).

  (* one Inc with the pcs runtime.Callers returned: (new cache, index of the counter incremented) *)
  Definition inc (name : bytes) (st : cache) (pcs : list N) : cache * nat :=
    match lookup pcs st with
    | Some i => (st, i)
    | None => (st ++ [(pcs, encode_stack pcs name)], length st)
    end.

  Fixpoint run (name : bytes) (st : cache) (hist : list (list N)) : cache * list nat :=
    match hist with
    | [] => (st, [])
    | pcs :: h =>
        let '(st1, i) := inc name st pcs in
        let '(st2, hits) := run name st1 h in
        (st2, i :: hits)
    end.
End WithSymboliser.

(* executable class predicates used by the theorems and the oracle *)
Definition no_nl (s : bytes) : bool := negb (is_stack s).
Definition path_of (s : bytes) : bytes := fst (cut_last_dot s).
Definition is_ditto (p : bytes) : bool := beq p [34].
(* a function name the decoder can restore: no newline, package path not a
   lone ditto mark (the path may be empty) *)
Definition fn_roundtrips (fn : bytes) : bool :=
  no_nl fn && negb (is_ditto (path_of fn)).
(* a function name the rendering identifies: no newline, path not a lone
   ditto mark, no leading dot (".f" and "f" both render as ".f") *)
Definition fn_identified (fn : bytes) : bool :=
  no_nl fn && negb (is_ditto (path_of fn)) && negb (has_prefix fn [46]).
(* a counter name (prefix) the decoder leaves alone: none of its lines has a
   lone ditto mark before its last dot (newlines in the prefix are allowed) *)
Definition prefix_ok (p : bytes) : bool :=
  forallb (fun l => negb (is_ditto (path_of l))) (split_byte p 10).
