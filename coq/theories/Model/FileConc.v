(* Model/FileConc: several processes sharing one counter file
   (internal/counter/file.go: mappedFile.lookup, newCounter with its remap
   loop, place, the limit CAS, extend, writeEntryAt, the link loop with the
   duplicate walk after a lost CAS, entryAt; internal/counter/counter.go:
   Counter.add on the mapped cell) as a transition system over the shared
   FILE.  One program point per atomic operation; file-system calls (Stat,
   WriteAt, mmap in openMapped) and the non-atomic name copy are program
   points of their own ("internal": the instrumented implementation executes
   them inside the step of the preceding atomic operation, see macro_step).
   Any number of processes; a killed process is one that never steps again.

   The file is kept abstract: size, allocation limit, per-bucket chains and a
   record store; offsets are byte offsets (N).  Names are identified with
   numbers; the hash bucket and the byte length of a name are parameters
   (bucket, nlen), the header length is the parameter H.

   Executable definitions only. *)
From Coq Require Import List NArith Bool.
From Tele Require Import Gen.Consts.
Import ListNotations.
Open Scope N_scope.

Definition name := N.

Definition UNIT : N := c_recordUnit.
Definition PAGE : N := c_pageSize.
Definition DEAD : N := 4294967295.          (* ^uint32(0) *)
Definition MAX64 : N := 18446744073709551615.
Definition W32 : N := 4294967296.

(* round(x, unit) of file.go, unit a power of two *)
Definition round (x u : N) : N := (x + u - 1) / u * u.

(* Counter.add: saturating 64-bit add (old <= MAX64, k a uint64) *)
Definition cell_add (old k : N) : N := N.min (old + k) MAX64.
Definition sat (x : N) : N := N.min x MAX64.

(* ---- the shared file ---- *)
Record rec := mkR {
  r_off : N;          (* byte offset of the record *)
  r_name : name;      (* the name the reserving process writes *)
  r_owner : nat;      (* ghost: process that reserved it *)
  r_copied : bool;    (* name bytes copied *)
  r_lenw : bool;      (* length word stored *)
  r_next : N;         (* next field *)
  r_val : N;          (* value field *)
  r_init : N          (* ghost: value at the initial state *)
}.

Record file := mkF {
  f_size : N;                 (* file length *)
  f_limit : N;                (* allocation limit word *)
  f_chain : N -> list N;      (* bucket -> offsets reachable from the head word, head first *)
  f_recs : list rec;          (* reserved regions, in reservation order *)
  f_damaged : bool            (* an extension write hit a record *)
}.

Fixpoint find_rec (off : N) (rs : list rec) : option rec :=
  match rs with
  | [] => None
  | r :: tl => if r_off r =? off then Some r else find_rec off tl
  end.
Definition upd_rec (off : N) (g : rec -> rec) (rs : list rec) : list rec :=
  map (fun r => if r_off r =? off then g r else r) rs.

Definition r_set_copied (r : rec) := mkR (r_off r) (r_name r) (r_owner r) true (r_lenw r) (r_next r) (r_val r) (r_init r).
Definition r_set_lenw (r : rec) := mkR (r_off r) (r_name r) (r_owner r) (r_copied r) true (r_next r) (r_val r) (r_init r).
Definition r_set_next (v : N) (r : rec) := mkR (r_off r) (r_name r) (r_owner r) (r_copied r) (r_lenw r) v (r_val r) (r_init r).
Definition r_set_val (v : N) (r : rec) := mkR (r_off r) (r_name r) (r_owner r) (r_copied r) (r_lenw r) (r_next r) v (r_init r).

Definition head_of (f : file) (b : N) : N := hd 0 (f_chain f b).

Inductive op := OpNew (nm : name) | OpAdd (k : N).

Inductive fail :=
  | FEmpty          (* "counter name empty" *)
  | FTooLong        (* "counter name too long" *)
  | FTries          (* errCorrupt: 10 remaps did not help *)
  | FLimitWithin    (* errCorrupt: limit within the mapping although lookup failed *)
  | FTrunc          (* errCorrupt: limit beyond the re-mapped file *)
  | FExtend         (* errCorrupt: file not extended *)
  | FWrite          (* errCorrupt: writeEntryAt bounds *)
  | FBeyond         (* errCorrupt: duplicate walk met an entry it cannot read *)
  | FCycle          (* errCorrupt: duplicate walk exceeded its bound *)
  | FRange.         (* errCorrupt: the reservation would pass 4 GiB (uint32 overflow, fix 633eed3) *)

Inductive result := RCell (off : N) | RFail (e : fail).

Inductive pc :=
  | LHead | LLen | LNext            (* mappedFile.lookup: load head; per entry: load length, load next (+ name compare) *)
  | RLimit | RMap                   (* remap loop: load limit; openMapped *)
  | PLimit | EStat | EWrite | EMap  (* reservation loop: load limit + place; extend: Stat, WriteAt, openMapped *)
  | PCas                            (* CAS limit *)
  | WCopy | WLen                    (* writeEntryAt: copy name; store length *)
  | KNext | KCas                    (* link loop: store next; CAS head *)
  | DHead | DLen | DNext | DDead    (* duplicate walk: reload head; per entry loads; mark ours dead *)
  | ALoad | ACas                    (* Counter.add on the cell *)
  | Done.

Definition is_internal (p : pc) : bool :=
  match p with RMap | EStat | EWrite | EMap | WCopy => true | _ => false end.

Record thread := mkT {
  t_pc : pc;
  t_ops : list op;
  t_nm : name;
  t_cell : N;
  t_amt : N;
  t_old : N;
  t_map0 : N;
  t_map : N;
  t_head : N;
  t_off : N;
  t_n : N;
  t_lim : N;
  t_start : N;
  t_end : N;
  t_tries : N;
  t_oldh : N;
  t_sz : N;
  t_res : list result;
  t_begun : list (N * N);
  t_succ : list (N * N)
}.
Definition set_pc (v : pc) (t : thread) : thread :=
  mkT v (t_ops t) (t_nm t) (t_cell t) (t_amt t) (t_old t) (t_map0 t) (t_map t) (t_head t) (t_off t) (t_n t) (t_lim t) (t_start t) (t_end t) (t_tries t) (t_oldh t) (t_sz t) (t_res t) (t_begun t) (t_succ t).
Definition set_ops (v : list op) (t : thread) : thread :=
  mkT (t_pc t) v (t_nm t) (t_cell t) (t_amt t) (t_old t) (t_map0 t) (t_map t) (t_head t) (t_off t) (t_n t) (t_lim t) (t_start t) (t_end t) (t_tries t) (t_oldh t) (t_sz t) (t_res t) (t_begun t) (t_succ t).
Definition set_nm (v : name) (t : thread) : thread :=
  mkT (t_pc t) (t_ops t) v (t_cell t) (t_amt t) (t_old t) (t_map0 t) (t_map t) (t_head t) (t_off t) (t_n t) (t_lim t) (t_start t) (t_end t) (t_tries t) (t_oldh t) (t_sz t) (t_res t) (t_begun t) (t_succ t).
Definition set_cell (v : N) (t : thread) : thread :=
  mkT (t_pc t) (t_ops t) (t_nm t) v (t_amt t) (t_old t) (t_map0 t) (t_map t) (t_head t) (t_off t) (t_n t) (t_lim t) (t_start t) (t_end t) (t_tries t) (t_oldh t) (t_sz t) (t_res t) (t_begun t) (t_succ t).
Definition set_amt (v : N) (t : thread) : thread :=
  mkT (t_pc t) (t_ops t) (t_nm t) (t_cell t) v (t_old t) (t_map0 t) (t_map t) (t_head t) (t_off t) (t_n t) (t_lim t) (t_start t) (t_end t) (t_tries t) (t_oldh t) (t_sz t) (t_res t) (t_begun t) (t_succ t).
Definition set_old (v : N) (t : thread) : thread :=
  mkT (t_pc t) (t_ops t) (t_nm t) (t_cell t) (t_amt t) v (t_map0 t) (t_map t) (t_head t) (t_off t) (t_n t) (t_lim t) (t_start t) (t_end t) (t_tries t) (t_oldh t) (t_sz t) (t_res t) (t_begun t) (t_succ t).
Definition set_map0 (v : N) (t : thread) : thread :=
  mkT (t_pc t) (t_ops t) (t_nm t) (t_cell t) (t_amt t) (t_old t) v (t_map t) (t_head t) (t_off t) (t_n t) (t_lim t) (t_start t) (t_end t) (t_tries t) (t_oldh t) (t_sz t) (t_res t) (t_begun t) (t_succ t).
Definition set_map (v : N) (t : thread) : thread :=
  mkT (t_pc t) (t_ops t) (t_nm t) (t_cell t) (t_amt t) (t_old t) (t_map0 t) v (t_head t) (t_off t) (t_n t) (t_lim t) (t_start t) (t_end t) (t_tries t) (t_oldh t) (t_sz t) (t_res t) (t_begun t) (t_succ t).
Definition set_head (v : N) (t : thread) : thread :=
  mkT (t_pc t) (t_ops t) (t_nm t) (t_cell t) (t_amt t) (t_old t) (t_map0 t) (t_map t) v (t_off t) (t_n t) (t_lim t) (t_start t) (t_end t) (t_tries t) (t_oldh t) (t_sz t) (t_res t) (t_begun t) (t_succ t).
Definition set_off (v : N) (t : thread) : thread :=
  mkT (t_pc t) (t_ops t) (t_nm t) (t_cell t) (t_amt t) (t_old t) (t_map0 t) (t_map t) (t_head t) v (t_n t) (t_lim t) (t_start t) (t_end t) (t_tries t) (t_oldh t) (t_sz t) (t_res t) (t_begun t) (t_succ t).
Definition set_n (v : N) (t : thread) : thread :=
  mkT (t_pc t) (t_ops t) (t_nm t) (t_cell t) (t_amt t) (t_old t) (t_map0 t) (t_map t) (t_head t) (t_off t) v (t_lim t) (t_start t) (t_end t) (t_tries t) (t_oldh t) (t_sz t) (t_res t) (t_begun t) (t_succ t).
Definition set_lim (v : N) (t : thread) : thread :=
  mkT (t_pc t) (t_ops t) (t_nm t) (t_cell t) (t_amt t) (t_old t) (t_map0 t) (t_map t) (t_head t) (t_off t) (t_n t) v (t_start t) (t_end t) (t_tries t) (t_oldh t) (t_sz t) (t_res t) (t_begun t) (t_succ t).
Definition set_start (v : N) (t : thread) : thread :=
  mkT (t_pc t) (t_ops t) (t_nm t) (t_cell t) (t_amt t) (t_old t) (t_map0 t) (t_map t) (t_head t) (t_off t) (t_n t) (t_lim t) v (t_end t) (t_tries t) (t_oldh t) (t_sz t) (t_res t) (t_begun t) (t_succ t).
Definition set_end (v : N) (t : thread) : thread :=
  mkT (t_pc t) (t_ops t) (t_nm t) (t_cell t) (t_amt t) (t_old t) (t_map0 t) (t_map t) (t_head t) (t_off t) (t_n t) (t_lim t) (t_start t) v (t_tries t) (t_oldh t) (t_sz t) (t_res t) (t_begun t) (t_succ t).
Definition set_tries (v : N) (t : thread) : thread :=
  mkT (t_pc t) (t_ops t) (t_nm t) (t_cell t) (t_amt t) (t_old t) (t_map0 t) (t_map t) (t_head t) (t_off t) (t_n t) (t_lim t) (t_start t) (t_end t) v (t_oldh t) (t_sz t) (t_res t) (t_begun t) (t_succ t).
Definition set_oldh (v : N) (t : thread) : thread :=
  mkT (t_pc t) (t_ops t) (t_nm t) (t_cell t) (t_amt t) (t_old t) (t_map0 t) (t_map t) (t_head t) (t_off t) (t_n t) (t_lim t) (t_start t) (t_end t) (t_tries t) v (t_sz t) (t_res t) (t_begun t) (t_succ t).
Definition set_sz (v : N) (t : thread) : thread :=
  mkT (t_pc t) (t_ops t) (t_nm t) (t_cell t) (t_amt t) (t_old t) (t_map0 t) (t_map t) (t_head t) (t_off t) (t_n t) (t_lim t) (t_start t) (t_end t) (t_tries t) (t_oldh t) v (t_res t) (t_begun t) (t_succ t).
Definition set_res (v : list result) (t : thread) : thread :=
  mkT (t_pc t) (t_ops t) (t_nm t) (t_cell t) (t_amt t) (t_old t) (t_map0 t) (t_map t) (t_head t) (t_off t) (t_n t) (t_lim t) (t_start t) (t_end t) (t_tries t) (t_oldh t) (t_sz t) v (t_begun t) (t_succ t).
Definition set_begun (v : list (N * N)) (t : thread) : thread :=
  mkT (t_pc t) (t_ops t) (t_nm t) (t_cell t) (t_amt t) (t_old t) (t_map0 t) (t_map t) (t_head t) (t_off t) (t_n t) (t_lim t) (t_start t) (t_end t) (t_tries t) (t_oldh t) (t_sz t) (t_res t) v (t_succ t).
Definition set_succ (v : list (N * N)) (t : thread) : thread :=
  mkT (t_pc t) (t_ops t) (t_nm t) (t_cell t) (t_amt t) (t_old t) (t_map0 t) (t_map t) (t_head t) (t_off t) (t_n t) (t_lim t) (t_start t) (t_end t) (t_tries t) (t_oldh t) (t_sz t) (t_res t) (t_begun t) v.

Definition push_res (r : result) (t : thread) : thread := set_res (t_res t ++ [r]) t.

(* what one step writes to the file *)
Inductive act :=
  | AExtend (e : N)                          (* WriteAt(4 zero bytes, e-4): grows the file to e *)
  | AReserve (me : nat) (s e : N) (nm : name) (* successful limit CAS: limit := e, region [s,e) is this process's *)
  | ACopy (off : N)
  | ALen (off : N)
  | ANext (off v : N)
  | ALink (b off : N)                        (* successful head CAS *)
  | AVal (off v : N).                        (* successful cell CAS *)

Section Model.
Variable bucket : name -> N.   (* hash(name) *)
Variable nlen : name -> N.     (* len(name) *)
Variable H : N.                (* hdrLen *)

Definition rec_start : N := H + c_hashOff + 4 * c_numHash.
Definition rsize (nm : name) : N := round (16 + nlen nm) UNIT.

(* mappedFile.place *)
Definition place (limit : N) (nm : name) : N * N :=
  let limit := if limit =? 0 then rec_start else limit in
  let n := rsize nm in
  let start := round limit UNIT in
  let start := if start / PAGE =? (start + n) / PAGE then start else round limit PAGE in
  (start, start + n).

Definition overlaps_tail (e : N) (r : rec) : bool :=
  (r_off r <? e) && (e - 4 <? r_off r + rsize (r_name r)).

Definition apply_act (a : act) (f : file) : file :=
  match a with
  | AExtend e =>
      mkF (N.max (f_size f) e) (f_limit f) (f_chain f) (f_recs f)
          (f_damaged f || existsb (overlaps_tail e) (f_recs f))
  | AReserve me s e nm =>
      mkF (f_size f) e (f_chain f) (f_recs f ++ [mkR s nm me false false 0 0 0]) (f_damaged f)
  | ACopy off => mkF (f_size f) (f_limit f) (f_chain f) (upd_rec off r_set_copied (f_recs f)) (f_damaged f)
  | ALen off => mkF (f_size f) (f_limit f) (f_chain f) (upd_rec off r_set_lenw (f_recs f)) (f_damaged f)
  | ANext off v => mkF (f_size f) (f_limit f) (f_chain f) (upd_rec off (r_set_next v) (f_recs f)) (f_damaged f)
  | ALink b off =>
      mkF (f_size f) (f_limit f) (fun b' => if b' =? b then off :: f_chain f b' else f_chain f b')
          (f_recs f) (f_damaged f)
  | AVal off v => mkF (f_size f) (f_limit f) (f_chain f) (upd_rec off (r_set_val v) (f_recs f)) (f_damaged f)
  end.

(* loads through a mapping (the bounds tests of load32 never apply below: see
   the callers' own tests) *)
Definition load_len (f : file) (off : N) : N :=
  match find_rec off (f_recs f) with
  | Some r => if r_lenw r then nlen (r_name r) mod 16777216 else 0
  | None => 0
  end.
Definition load_next (f : file) (off : N) : N :=
  match find_rec off (f_recs f) with Some r => r_next r | None => 0 end.
Definition load_val (f : file) (off : N) : N :=
  match find_rec off (f_recs f) with Some r => r_val r | None => 0 end.
Definition name_eq (f : file) (off : N) (nm : name) : bool :=
  match find_rec off (f_recs f) with Some r => r_copied r && (r_name r =? nm) | None => false end.

(* start the next operation of the program (local computation) *)
Fixpoint dispatch (ops : list op) (t : thread) : thread :=
  match ops with
  | [] => set_pc Done (set_ops [] t)
  | OpNew nm :: ops' =>
      if nlen nm =? 0
      then dispatch ops' (push_res (RFail FEmpty) (set_cell 0 t))
      else if c_maxNameLen <? nlen nm
      then dispatch ops' (push_res (RFail FTooLong) (set_cell 0 t))
      else set_pc LHead (set_ops ops' (set_nm nm (set_tries 0 (set_map (t_map0 t) (set_cell 0 t)))))
  | OpAdd k :: ops' =>
      if t_cell t =? 0 then dispatch ops' t
      else set_pc ALoad (set_ops ops' (set_amt k (set_begun ((t_cell t, k) :: t_begun t) t)))
  end.

(* newCounter returns *)
Definition ret_cell (c : N) (t : thread) : thread :=
  dispatch (t_ops t) (push_res (RCell c) (set_cell c (set_map0 (t_map t) t))).
Definition ret_fail (e : fail) (t : thread) : thread :=
  dispatch (t_ops t) (push_res (RFail e) (set_cell 0 (set_map (t_map0 t) t))).

(* lookup said !ok: top of the remap loop *)
Definition look_fail (t : thread) : thread :=
  if 10 <=? t_tries t then ret_fail FTries t else set_pc RLimit t.

(* loop head of mappedFile.lookup, up to entryAt's first test (bounds and,
   since fix a01a83c, 8-byte alignment of the offset) *)
Definition look_at (t : thread) (off n : N) : thread :=
  if off =? 0 then set_pc PLimit t
  else if (t_map t / UNIT <? n) || (off <? H + c_hashOff) || negb (off mod 8 =? 0) || (t_map t <? off + 16)
       then look_fail t
       else set_pc LLen (set_off off (set_n n t)).

(* loop head of the duplicate walk *)
Definition dwalk (t : thread) (off n : N) : thread :=
  if off =? t_oldh t then set_pc KNext t
  else if (off <? H + c_hashOff) || negb (off mod 8 =? 0) || (t_map t <? off + 16)
       then ret_fail FBeyond t
       else set_pc DLen (set_off off (set_n n t)).

Definition step_thread (me : nat) (f : file) (t : thread) : option act * thread :=
  let b := bucket (t_nm t) in
  match t_pc t with
  | LHead => let h := head_of f b in (None, look_at (set_head h t) h 0)
  | LLen =>
      let nl := load_len f (t_off t) in
      if (nl =? 0) || (t_map t <? t_off t + 16 + nl) then (None, look_fail t)
      else (None, set_pc LNext t)
  | LNext =>
      let nx := load_next f (t_off t) in
      if name_eq f (t_off t) (t_nm t) then (None, ret_cell (t_off t) t)
      else (None, look_at t nx (t_n t + 1))
  | RLimit =>
      let lim := f_limit f in
      if lim <=? t_map t then (None, ret_fail FLimitWithin t)
      else (None, set_pc RMap (set_lim lim t))
  | RMap =>
      let nl := f_size f in
      if nl <? t_lim t then (None, ret_fail FTrunc t)
      else (None, set_pc LHead (set_map nl (set_tries (t_tries t + 1) t)))
  | PLimit =>
      let lim := f_limit f in
      let '(s, e) := place lim (t_nm t) in
      (* fix 633eed3: `start < limit || end < start || round(end, pageSize) < end` in uint32, i.e. the page
         end of the record, computed without wrap-around, does not fit 32 bits *)
      if W32 <=? round e PAGE then (None, ret_fail FRange t)
      else if t_map t <? e then (None, set_pc EStat (set_end e t))
      else (None, set_pc PCas (set_lim lim (set_start s (set_end e t))))
  | EStat => (None, set_pc EWrite (set_sz (f_size f) t))
  | EWrite =>
      let e := round (t_end t) PAGE in
      ((if t_sz t <? e then Some (AExtend e) else None), set_pc EMap t)
  | EMap =>
      let e := round (t_end t) PAGE in
      let nl := f_size f in
      if nl <? e then (None, ret_fail FExtend t) else (None, set_pc PLimit (set_map nl t))
  | PCas =>
      if f_limit f =? t_lim t
      then (Some (AReserve me (t_start t) (t_end t) (t_nm t)), set_pc WCopy t)
      else (None, set_pc PLimit t)
  | WCopy =>
      if (t_start t <? rec_start) || (t_map t <? t_start t + 16 + nlen (t_nm t))
      then (None, ret_fail FWrite t)
      else (Some (ACopy (t_start t)), set_pc WLen t)
  | WLen => (Some (ALen (t_start t)), set_pc KNext t)
  | KNext => (Some (ANext (t_start t) (t_head t)), set_pc KCas t)
  | KCas =>
      if head_of f b =? t_head t
      then (Some (ALink b (t_start t)), ret_cell (t_start t) t)
      else (None, set_pc DHead (set_oldh (t_head t) t))
  | DHead => let h := head_of f b in (None, dwalk (set_head h t) h 0)
  | DLen =>
      let nl := load_len f (t_off t) in
      if (nl =? 0) || (t_map t <? t_off t + 16 + nl) then (None, ret_fail FBeyond t)
      else (None, set_pc DNext t)
  | DNext =>
      let nx := load_next f (t_off t) in
      if t_map t / UNIT <? t_n t then (None, ret_fail FCycle t)
      else if name_eq f (t_off t) (t_nm t) then (None, set_pc DDead t)
      else (None, dwalk t nx (t_n t + 1))
  | DDead => (Some (ANext (t_start t) DEAD), ret_cell (t_off t) t)
  | ALoad => (None, set_pc ACas (set_old (load_val f (t_cell t)) t))
  | ACas =>
      if load_val f (t_cell t) =? t_old t
      then (Some (AVal (t_cell t) (cell_add (t_old t) (t_amt t))),
            dispatch (t_ops t) (set_succ ((t_cell t, t_amt t) :: t_succ t) t))
      else (None, set_pc ALoad t)
  | Done => (None, t)
  end.

Definition state := (file * list thread)%type.

Fixpoint upd {A} (l : list A) (i : nat) (x : A) : list A :=
  match l, i with
  | [], _ => []
  | _ :: l', O => x :: l'
  | y :: l', S i' => y :: upd l' i' x
  end.

Definition step (st : state) (i : nat) : state :=
  let '(f, ts) := st in
  match nth_error ts i with
  | Some t =>
      let '(oa, t') := step_thread i f t in
      ((match oa with Some a => apply_act a f | None => f end), upd ts i t')
  | None => st
  end.

(* a schedule is a list of process indices; a process that is killed simply
   does not occur any more *)
Definition run (sched : list nat) (st : state) : state := fold_left step sched st.

(* the granularity of the instrumented implementation: an atomic operation
   followed by the file-system calls / name copy up to the next atomic one *)
Fixpoint settle (fuel : nat) (st : state) (i : nat) : state :=
  match fuel with
  | O => st
  | S k =>
      match nth_error (snd st) i with
      | Some t => if is_internal (t_pc t) then settle k (step st i) i else st
      | None => st
      end
  end.
Definition macro_step (st : state) (i : nat) : state := settle 8 (step st i) i.

(* a process that has just opened the file (mapping length m) with program ops *)
Definition blank (m : N) : thread :=
  mkT Done [] 0 0 0 0 m m 0 0 0 0 0 0 0 0 0 [] [] [].
Definition spawn (m : N) (ops : list op) : thread := dispatch ops (blank m).

Definition empty_file : file := mkF c_minFileLen 0 (fun _ => []) [] false.

(* ---- what is compared with the real file ---- *)
Definition chain_view (f : file) (b : N) : list (N * (name * (N * N))) :=
  map (fun o => match find_rec o (f_recs f) with
                | Some r => (o, (r_name r, (r_val r, r_next r)))
                | None => (o, (0, (0, 0)))
                end) (f_chain f b).

(* the atomic operation a process is parked before: kind and file offset
   (kinds: 1 load32, 2 cas32, 3 store32, 4 load64, 5 cas64, 0 none) *)
Definition pending (t : thread) : N * N :=
  let b := bucket (t_nm t) in
  match t_pc t with
  | LHead | DHead => (1, H + c_hashOff + 4 * b)
  | LLen | DLen => (1, t_off t + 8)
  | LNext | DNext => (1, t_off t + 12)
  | RLimit | PLimit => (1, H + c_limitOff)
  | PCas => (2, H + c_limitOff)
  | WLen => (3, t_start t + 8)
  | KNext | DDead => (3, t_start t + 12)
  | KCas => (2, H + c_hashOff + 4 * b)
  | ALoad => (4, t_cell t)
  | ACas => (5, t_cell t)
  | _ => (0, 0)
  end.

(* ---- observations: what the independent decoder of the harness reports
        about the REAL file, and the same view of a model file ---- *)
Definition ent := (N * (name * (N * N)))%type.      (* offset, name, value, next *)
Definition e_off (e : ent) : N := fst e.
Definition e_name (e : ent) : name := fst (snd e).
Definition e_val (e : ent) : N := fst (snd (snd e)).
Definition e_next (e : ent) : N := snd (snd (snd e)).

Record obs := mkO { o_size : N; o_limit : N; o_chains : list (N * list ent) }.

Definition buckets : list N := map N.of_nat (seq 0 (N.to_nat c_numHash)).
Definition obs_of (f : file) : obs :=
  mkO (f_size f) (f_limit f)
      (filter (fun bc => match snd bc with [] => false | _ => true end)
              (map (fun b => (b, chain_view f b)) buckets)).

(* written records in offset order, and the units that hold name bytes of
   records whose length word is not stored yet (what a raw scan sees) *)
Definition scan_of (f : file) : list ent :=
  map (fun r => (r_off r, (r_name r, (r_val r, r_next r)))) (filter r_lenw (f_recs f)).
Definition stray_of (f : file) : list N :=
  flat_map (fun r => if r_copied r && negb (r_lenw r) && (1 <=? nlen (r_name r))
                     then map (fun k => r_off r + UNIT * N.of_nat k) (seq 0 (N.to_nat (rsize (r_name r) / UNIT)))
                     else []) (f_recs f).

(* ---- executable oracles (evaluated on the decoded REAL file) ---- *)
Definition ent_ok (allow_empty : bool) (limit b : N) (e : ent) (nxt : N) : bool :=
  (e_off e mod UNIT =? 0) && (rec_start <=? e_off e) && (e_off e + rsize (e_name e) <=? limit)
  && (e_off e / PAGE =? (e_off e + rsize (e_name e)) / PAGE)
  && (allow_empty || (1 <=? nlen (e_name e))) && (nlen (e_name e) <=? c_maxNameLen)
  && (bucket (e_name e) =? b) && (e_next e =? nxt) && (e_val e <=? MAX64).
Fixpoint chain_ok (allow_empty : bool) (limit b : N) (c : list ent) : bool :=
  match c with
  | [] => true
  | e :: tl => ent_ok allow_empty limit b e (match tl with [] => 0 | e' :: _ => e_off e' end)
               && chain_ok allow_empty limit b tl
  end.
Fixpoint pairwise {A} (p : A -> A -> bool) (l : list A) : bool :=
  match l with [] => true | x :: tl => forallb (p x) tl && pairwise p tl end.
Definition all_ents (o : obs) : list ent := flat_map snd (o_chains o).
Definition disjoint_ents (e1 e2 : ent) : bool :=
  (e_off e1 + rsize (e_name e1) <=? e_off e2) || (e_off e2 + rsize (e_name e2) <=? e_off e1).

(* a well-formed counter file: length a whole number of pages, limit within
   it, every chain made of complete records of that bucket, aligned, below the
   limit, outside the page tails, correctly linked and 0-terminated, records
   pairwise disjoint (hence no cycle, no sharing between chains) *)
Definition wf_obsb (allow_empty : bool) (o : obs) : bool :=
  (o_size o mod PAGE =? 0) && (c_minFileLen <=? o_size o) && (o_limit o <=? o_size o)
  && forallb (fun bc => (fst bc <? c_numHash) && chain_ok allow_empty (o_limit o) (fst bc) (snd bc)) (o_chains o)
  && pairwise (fun c1 c2 => negb (fst c1 =? fst c2)) (o_chains o)
  && pairwise disjoint_ents (all_ents o).
(* each name has at most one record *)
Definition uniq_obsb (o : obs) : bool :=
  pairwise (fun e1 e2 => negb (e_name e1 =? e_name e2)) (all_ents o).

Definition value_in (o : obs) (nm : name) : option N :=
  match filter (fun e => e_name e =? nm) (all_ents o) with
  | e :: _ => Some (e_val e)
  | [] => None
  end.
(* completed <= value <= begun (saturating), per name *)
Definition bounded_ok (completed begun : N) (v : option N) : bool :=
  match v with
  | Some x => (sat completed <=? x) && (x <=? sat begun)
  | None => completed =? 0
  end.
(* values, limit and size never decrease from one observation to the next *)
Definition monotone_ok (o1 o2 : obs) : bool :=
  (o_size o1 <=? o_size o2) && (o_limit o1 <=? o_limit o2)
  && forallb (fun e => match value_in o2 (e_name e) with Some v => e_val e <=? v | None => false end) (all_ents o1).

End Model.
