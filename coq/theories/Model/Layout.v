(* Model/Layout: the v1 counter file format of internal/counter/file.go.

   Part 1  what the Go code does: round, hash, mappedHeader, place,
           load32/entryAt/writeEntryAt, mappedFile.lookup / newCounter /
           extend, openMapped, for ONE writer (the mapping is the file).
           uint32 arithmetic wraps are written explicitly (u32).
   Part 2  the documented layout as an executable reader/checker
           (spec_read, wf_file, spec_decode) and an independent writer
           (spec_encode), written from the layout comment of mappedFile,
           not from Parse.

   Only executable definitions here (the file must extract even when a
   proof breaks). *)
From Coq Require Import List NArith Bool.
From Tele Require Import Lib.Bytes Lib.BytesN Gen.Consts Model.DecodeStack.
Import ListNotations.
Open Scope N_scope.

(* ------------------------------------------------------------------ *)
(* Part 1: the code                                                     *)

Definition u32 (x : N) : N := x mod 4294967296.
Definition u64 (x : N) : N := x mod 18446744073709551616.

(* round[T](x, unit) = (x + unit - 1) &^ (unit - 1); T = uint32 wraps, T = int does not
   (the int uses are far below 2^63) *)
Definition round_u32 (x unit : N) : N := N.ldiff (u32 (x + unit - 1)) (unit - 1).
Definition round_int (x unit : N) : N := N.ldiff (x + unit - 1) (unit - 1).

(* hash: FNV-1a over the bytes, folded, modulo the table size *)
(* h = (h ^ c) * prime32 in uint32; truncation written with a mask (= mod 2^32, Proofs) *)
Definition lo32 (x : N) : N := N.land x 4294967295.
Definition fnv_step (h c : N) : N := lo32 (c_fnv_prime32 * N.lxor h c).
Definition fnv1a (name : bytes) : N := fold_left fnv_step name c_fnv_offset32.
Definition hash (name : bytes) : N :=
  let h := fnv1a name in N.lxor h (h / 65536) mod c_numHash.

(* mappedHeader *)
Definition hdr_np : N := round_int (len c_hdrPrefix) 4.
Definition mapped_header (meta : bytes) : option bytes :=
  if c_maxMetaLen <? len meta then None else
  let n := round_int (hdr_np + 4 + len meta) 32 in
  Some (c_hdrPrefix ++ zeros (hdr_np - len c_hdrPrefix) ++ le32 (u32 n) ++ meta
        ++ zeros (n - (hdr_np + 4 + len meta))).

Definition first_off (hdr : N) : N := hdr + c_hashOff + 4 * c_numHash.
Definition head_off (hdr h : N) : N := hdr + c_hashOff + h * 4.

(* place(limit, name): all uint32 *)
Definition place (hdr limit namelen : N) : N * N :=
  let limit := if limit =? 0 then u32 (first_off hdr) else limit in
  let n := round_u32 (u32 (16 + namelen)) c_recordUnit in
  let start := round_u32 limit c_recordUnit in
  let start := if start / c_pageSize =? u32 (start + n) / c_pageSize then start
               else round_u32 limit c_pageSize in
  (start, u32 (start + n)).

(* load32: 0 unless the four bytes lie inside the mapping *)
Definition load32 (bs : bytes) (off : N) : N :=
  if len bs <? off + 4 then 0 else get32 bs off.


(* entryAt: Some (name, next, value); offsets that are not 8-byte aligned are
   refused (the value is read with a 64-bit atomic load).  sz is len(m.mapping.Data) (passed in
   so that the extracted walks measure the mapping once) *)
Definition entry_at_sz (sz : N) (bs : bytes) (hdr off : N) : option (bytes * N * N) :=
  if (off <? hdr + c_hashOff) || negb (off mod 8 =? 0) || (sz <? off + 16) then None else
  let t := dropN bs off in
  let nl := N.land (get32 t 8) 16777215 in
  if (nl =? 0) || (sz <? off + 16 + nl) then None else
  Some (slice t 16 nl, get32 t 12, get64 t 0).
Definition entry_at (bs : bytes) (hdr off : N) : option (bytes * N * N) :=
  entry_at_sz (len bs) bs hdr off.

(* entryAt with the uint32 arithmetic of the source spelled out: off+8,
   off+12, off+16 and off+16+nameLen are uint32 expressions; a slice
   expression with high < low panics.  Used only to show that entry_at is
   the same function for mappings below 4 GiB. *)
Inductive entry_result :=
  | EPanic | ENone | ESome (name : bytes) (next v : N).
Definition entry_at_u32 (bs : bytes) (hdr off : N) : entry_result :=
  if (off <? u32 (hdr + c_hashOff)) || negb (off mod 8 =? 0) || (len bs <? off + 16) then ENone else
  let nl := N.land (load32 bs (u32 (off + 8))) 16777215 in
  if (nl =? 0) || (len bs <? off + 16 + nl) then ENone else
  let lo := u32 (off + 16) in
  let hi := u32 (u32 (off + 16) + nl) in
  if (hi <? lo) || (len bs <? hi) then EPanic else
  ESome (slice bs lo (hi - lo)) (load32 bs (u32 (off + 12))) (get64 bs off).

(* chain walks are bounded by len/recordUnit iterations in the source; the
   fuel is two more than that, so it never runs out (Proofs) *)
Definition walk_fuel_sz (sz : N) : nat := S (S (N.to_nat (sz / c_recordUnit))).
Definition walk_fuel (bs : bytes) : nat := walk_fuel_sz (len bs).

Inductive lookup_result := LDiverge | LBad | LFound (off : N) | LMissing.

Fixpoint lookup_walk (fuel : nat) (sz : N) (bs : bytes) (hdr : N) (name : bytes) (n off : N) : lookup_result :=
  if off =? 0 then LMissing else
  match fuel with
  | O => LDiverge
  | S f =>
      if sz / c_recordUnit <? n then LBad else
      match entry_at_sz sz bs hdr off with
      | None => LBad
      | Some (ename, next, _) =>
          if beq ename name then LFound off else lookup_walk f sz bs hdr name (n + 1) next
      end
  end.

Definition load32_sz (sz : N) (bs : bytes) (off : N) : N :=
  if sz <? off + 4 then 0 else get32 bs off.

Definition lookup_sz (sz : N) (bs : bytes) (hdr : N) (name : bytes) : lookup_result :=
  lookup_walk (walk_fuel_sz sz) sz bs hdr name 0 (load32_sz sz bs (head_off hdr (hash name))).
Definition lookup (bs : bytes) (hdr : N) (name : bytes) : lookup_result :=
  lookup_sz (len bs) bs hdr name.

(* os.File.WriteAt: extends the file with zeros when writing past its end *)
Definition write_at (bs : bytes) (off : N) (d : bytes) : bytes :=
  let bs1 := if len bs <? off + len d then bs ++ zeros (off + len d - len bs) else bs in
  put bs1 off d.

Inductive open_result := OpenErrMeta | OpenErrHdr | OpenOk (hdr : N) (bs : bytes).

(* openMapped(name, meta) on a file with contents bs ([] = just created) *)
Definition open_mapped (bs meta : bytes) : open_result :=
  match mapped_header meta with
  | None => OpenErrMeta
  | Some h =>
      let bs1 := if len bs <? c_minFileLen
                 then write_at (write_at bs 0 h) (c_minFileLen - 4) [0; 0; 0; 0]
                 else bs in
      if has_prefix bs1 h then OpenOk (u32 (len h)) bs1 else OpenErrHdr
  end.

(* extend(end): None = the reopen failed *)
Definition extend (meta bs : bytes) (e : N) : option bytes :=
  let e' := round_u32 e c_pageSize in
  let bs1 := if len bs <? e' then write_at bs (e' - 4) [0; 0; 0; 0] else bs in
  match open_mapped bs1 meta with
  | OpenOk _ bs2 => if len bs2 <? e' then None else Some bs2
  | _ => None
  end.

Definition name_tag : N := 4278190080. (* 0xff000000 *)
Definition rec_block (namelen_word head : N) (name : bytes) : bytes :=
  le32 namelen_word ++ le32 head ++ name.

Inductive nc_result := NCEmpty | NCLong | NCCorrupt | NCStuck | NCOk (off : N).

(* mappedFile.newCounter for a single writer (the empty name and names over
   4096 bytes are refused).  NCStuck: the source would
   loop (extend rounds end up to 0 in uint32 when the file is within one
   page of 4 GiB). *)
Definition new_counter (meta : bytes) (hdr : N) (bs name : bytes) : nc_result * bytes :=
  let sz := len bs in
  if len name =? 0 then (NCEmpty, bs) else
  if c_maxNameLen <? len name then (NCLong, bs) else
  match lookup_sz sz bs hdr name with
  | LDiverge => (NCStuck, bs)
  | LBad => (NCCorrupt, bs)
  | LFound off => (NCOk off, bs)
  | LMissing =>
      let ho := head_off hdr (hash name) in
      let head := load32_sz sz bs ho in
      let limit := load32_sz sz bs (hdr + c_limitOff) in
      let '(start, e) := place hdr limit (len name) in
      (* uint32 overflow of the placement: the recorded limit is corrupt *)
      if (start <? limit) || (e <? start) || (round_u32 e c_pageSize <? e) then (NCCorrupt, bs) else
      let grown := if sz <? e then extend meta bs e else Some bs in
      match grown with
      | None => (NCCorrupt, bs)
      | Some bs1 =>
          let sz1 := len bs1 in
          if sz1 <? e then (NCStuck, bs1) else
          let bs2 := put bs1 (hdr + c_limitOff) (le32 e) in
          if (start <? first_off hdr) || (sz1 <? start + 16 + len name) then (NCCorrupt, bs2) else
          let bs3 := put bs2 (start + 8) (rec_block (N.lor (u32 (len name)) name_tag) head name) in
          let bs4 := put bs3 ho (le32 start) in
          (NCOk start, bs4)
      end
  end.

(* atomic.Uint64 Add on the value of the record at off *)
Definition add_at (bs : bytes) (off delta : N) : bytes :=
  put bs off (le64 (u64 (get64 bs off + delta))).

(* one writer's operations *)
Inductive op :=
  | OpNew (name : bytes)              (* newCounter(name) *)
  | OpAdd (name : bytes) (delta : N)  (* newCounter(name) then Add(delta) on the returned pointer *)
  | OpExtend (e : N)                  (* extend(e) *)
  | OpReopen (meta : bytes).          (* close; openMapped(path, meta) *)

Inductive op_result := REmpty | RLong | RCorrupt | RStuck | ROk (off : N) | RDone | RFail.

Record wstate := { w_meta : bytes; w_hdr : N; w_bs : bytes }.

Definition nc_to_op (r : nc_result) : op_result :=
  match r with NCEmpty => REmpty | NCLong => RLong | NCCorrupt => RCorrupt | NCStuck => RStuck | NCOk o => ROk o end.

Definition step (s : wstate) (o : op) : op_result * wstate :=
  match o with
  | OpNew name =>
      let '(r, bs') := new_counter (w_meta s) (w_hdr s) (w_bs s) name in
      (nc_to_op r, {| w_meta := w_meta s; w_hdr := w_hdr s; w_bs := bs' |})
  | OpAdd name delta =>
      let '(r, bs') := new_counter (w_meta s) (w_hdr s) (w_bs s) name in
      match r with
      | NCOk off => (ROk off, {| w_meta := w_meta s; w_hdr := w_hdr s; w_bs := add_at bs' off delta |})
      | _ => (nc_to_op r, {| w_meta := w_meta s; w_hdr := w_hdr s; w_bs := bs' |})
      end
  | OpExtend e =>
      match extend (w_meta s) (w_bs s) e with
      | Some bs' => (RDone, {| w_meta := w_meta s; w_hdr := w_hdr s; w_bs := bs' |})
      | None => (RFail, s)
      end
  | OpReopen meta =>
      match open_mapped (w_bs s) meta with
      | OpenOk h bs' => (RDone, {| w_meta := meta; w_hdr := h; w_bs := bs' |})
      | _ => (RFail, s)
      end
  end.

Fixpoint run_ops (s : wstate) (ops : list op) : list op_result * wstate :=
  match ops with
  | [] => ([], s)
  | o :: t => let '(r, s1) := step s o in
              let '(rs, s2) := run_ops s1 t in (r :: rs, s2)
  end.

(* create: openMapped on the file contents init ([] = new file) *)
Definition create (init meta : bytes) : option wstate :=
  match open_mapped init meta with
  | OpenOk h bs => Some {| w_meta := meta; w_hdr := h; w_bs := bs |}
  | _ => None
  end.

(* ------------------------------------------------------------------ *)
(* Part 2: the documented layout                                        *)
(*
   0, hdrLen:                 header = prefix, uint32 hdrLen, metadata, zero padding to 32
   hdrLen+0, 4:               uint32 allocation limit
   hdrLen+4, 4*512:           hash table of uint32 heads
   ... to limit:              records: 0,8 value; 8,4 name length; 12,4 next; 16.. name
   (the top byte of the name length word is a tag the library sets to 0xff
    and masks away when reading; the layout comment does not mention it)

   The numbers of the v1 format (32-byte units, 16 KiB pages, 512 buckets,
   names up to 4096 bytes) are written as literals here: the checker states
   the published format, it does not follow the constants of the source. *)

Definition cut_nul (b : bytes) : bytes :=
  match index_byte b 0 with Some i => firstn i b | None => b end.

(* metadata lines "key: value"; None when a non-empty line has no ": " *)
Definition sep_colon : bytes := [58; 32].
Fixpoint meta_lines (lines : list bytes) : option (list (bytes * bytes)) :=
  match lines with
  | [] => Some []
  | l :: t =>
      match l with
      | [] => meta_lines t
      | _ => let '(k, v, ok) := cut l sep_colon in
             if ok then match meta_lines t with Some r => Some ((k, v) :: r) | None => None end
             else None
      end
  end.
Definition meta_kv (meta : bytes) : option (list (bytes * bytes)) :=
  meta_lines (split_byte meta c_nl).

(* header: Some (hdrLen, meta).  The layout fixes the prefix, the length word
   and where the table starts; the metadata is what follows the length word up
   to the first NUL (or the end of the header).  The header may be longer than
   the shortest one the library writes for that metadata (up to one page,
   Parse's cap), and what follows the NUL is not interpreted. *)
Definition spec_header (bs : bytes) : option (N * bytes) :=
  if negb (has_prefix bs c_hdrPrefix) then None else
  let hl := get32 bs hdr_np in
  if (hl <? hdr_np + 4) || (16384 <? hl) || negb (hl mod 32 =? 0) || (len bs <? hl + 4 + 4 * 512) then None
  else Some (hl, cut_nul (slice bs (hdr_np + 4) (hl - (hdr_np + 4)))).

Definition rec_size (namelen : N) : N := (16 + namelen + 32 - 1) / 32 * 32.

Definition rec := (N * bytes * N)%type. (* offset, name, value *)
Definition r_off (r : rec) : N := fst (fst r).
Definition r_name (r : rec) : bytes := snd (fst r).
Definition r_val (r : rec) : N := snd r.
Definition r_end (r : rec) : N := r_off r + rec_size (len (r_name r)).

(* one record at off, strictly by the layout *)
Definition spec_record (bs : bytes) (hdr limit off : N) : option (bytes * N * N) :=
  if negb (off mod 32 =? 0) then None else
  if off <? first_off hdr then None else
  let t := dropN bs off in
  let nl := get32 t 8 mod 16777216 in
  if (nl =? 0) || (4096 <? nl) then None else
  let sz := rec_size nl in
  (* the record's own bytes end at or before the limit; the limit itself need not be
     a multiple of 32 (v1: "the byte offset of the end of counter records") *)
  if limit <? off + 16 + nl then None else
  if 16384 - 32 <? off mod 16384 + sz then None else
  Some (slice t 16 nl, get32 t 12, get64 t 0).

Fixpoint spec_chain (fuel : nat) (bs : bytes) (hdr limit off : N) : option (list rec) :=
  if off =? 0 then Some [] else
  match fuel with
  | O => None
  | S f =>
      match spec_record bs hdr limit off with
      | None => None
      | Some (name, next, v) =>
          match spec_chain f bs hdr limit next with
          | None => None
          | Some rs => Some ((off, name, v) :: rs)
          end
      end
  end.

(* a chain cannot hold more records than there are units below the limit *)
Definition chain_fuel (limit : N) : nat := N.to_nat (limit / 32).

Definition spec_bucket (bs : bytes) (hdr limit i head : N) : option (list rec) :=
  match spec_chain (chain_fuel limit) bs hdr limit head with
  | Some rs => if forallb (fun r => hash (r_name r) =? i) rs then Some rs else None
  | None => None
  end.

(* consecutive little-endian uint32 words *)
Fixpoint words (t : bytes) : list N :=
  match t with
  | a :: b :: c :: d :: r => word4 a b c d :: words r
  | _ => []
  end.
Definition table_heads (bs : bytes) (hdr : N) : list N :=
  words (slice bs (hdr + c_hashOff) (4 * c_numHash)).

Fixpoint range_from (start : N) (k : nat) : list N :=
  match k with O => [] | S k' => start :: range_from (start + 1) k' end.
Definition buckets : list N := range_from 0 512.

Fixpoint map_opt {A B} (f : A -> option B) (l : list A) : option (list B) :=
  match l with
  | [] => Some []
  | x :: t => match f x with
              | None => None
              | Some y => match map_opt f t with None => None | Some ys => Some (y :: ys) end
              end
  end.

Definition rec_compat (a b : rec) : bool :=
  ((r_end a <=? r_off b) || (r_end b <=? r_off a)) && negb (beq (r_name a) (r_name b)).

Fixpoint pairwise {A} (R : A -> A -> bool) (l : list A) : bool :=
  match l with
  | [] => true
  | x :: t => forallb (R x) t && pairwise R t
  end.

(* the whole file: Some (hdrLen, meta, key/values, limit, table of chains)
   exactly when it follows the layout *)
Definition spec_read (bs : bytes)
  : option (N * bytes * list (bytes * bytes) * N * list (list rec)) :=
  match spec_header bs with
  | None => None
  | Some (hdr, meta) =>
      match meta_kv meta with
      | None => None
      | Some kv =>
          let size := len bs in
          let limit := get32 bs (hdr + c_limitOff) in
          if negb ((size mod 16384 =? 0) && (16384 <=? size) && (limit <=? size)
                   && ((limit =? 0) || (first_off hdr <=? limit)))
          then None else
          match map_opt (fun ih => spec_bucket bs hdr limit (fst ih) (snd ih))
                        (combine buckets (table_heads bs hdr)) with
          | None => None
          | Some tbl => if pairwise rec_compat (concat tbl) then Some (hdr, meta, kv, limit, tbl) else None
          end
      end
  end.

Definition wf_file (bs : bytes) : bool :=
  match spec_read bs with Some _ => true | None => false end.

Definition spec_records (bs : bytes) : option (list rec) :=
  match spec_read bs with Some (_, _, _, _, tbl) => Some (concat tbl) | None => None end.

(* Spec.decode: metadata key/values and (expanded name, value) pairs in
   bucket order; as maps: a later pair overrides an earlier one *)
Definition decoded (rs : list rec) : list (bytes * N) :=
  map (fun r => (decode_stack (r_name r), r_val r)) rs.
Definition spec_decode (bs : bytes) : option (list (bytes * bytes) * list (bytes * N)) :=
  match spec_read bs with
  | Some (_, _, kv, _, tbl) => Some (kv, decoded (concat tbl))
  | None => None
  end.

(* Spec.encode: an independent writer.  Records are laid out in the order
   given, each at the next 32-byte boundary, moved to the next page when it
   would reach into the last unit of its page; plain name length (no tag);
   linked at the head of its bucket. *)
Definition spec_place (cur n : N) : N :=
  if cur mod 16384 + n <=? 16384 - 32 then cur
  else (cur / 16384 + 1) * 16384.

Definition spec_insert (hdr : N) (bs : bytes) (c : bytes * N) : bytes :=
  let '(name, v) := c in
  let limit0 := get32 bs (hdr + c_limitOff) in
  (* the next record starts at the first multiple of 32 at or after the end of the
     records so far (the limit need not be one) *)
  let cur := ((if limit0 =? 0 then first_off hdr else limit0) + 32 - 1) / 32 * 32 in
  let n := rec_size (len name) in
  let s := spec_place cur n in
  let e := s + n in
  let bs1 := if len bs <? e
             then bs ++ zeros ((e + 16384 - 1) / 16384 * 16384 - len bs) else bs in
  let ho := head_off hdr (hash name) in
  let head := get32 bs1 ho in
  let bs2 := put bs1 (hdr + c_limitOff) (le32 e) in
  let bs3 := put bs2 (s + 8) (rec_block (len name) head name) in
  let bs4 := put bs3 ho (le32 s) in
  put bs4 s (le64 v).

Definition spec_encode (meta : bytes) (cs : list (bytes * N)) : option bytes :=
  match mapped_header meta with
  | None => None
  | Some h => Some (fold_left (spec_insert (len h)) cs (h ++ zeros (16384 - len h)))
  end.

(* ------------------------------------------------------------------ *)
(* executable oracles used on the implementation's observations         *)

(* what place guarantees (Proofs.LayoutFacts.place_ok) *)
Definition place_ok_b (hdr limit namelen : N) (se : N * N) : bool :=
  let '(s, e) := se in
  let lim := if limit =? 0 then first_off hdr else limit in
  (s mod 32 =? 0) && (lim <=? s) && (s <? lim + 16384)
  && (e =? s + rec_size namelen)
  && (s mod 16384 + rec_size namelen <=? 16384 - 32)
  && ((s =? (lim + 32 - 1) / 32 * 32)
      || (s mod 16384 =? 0)).

Definition limit_of (bs : bytes) : N :=
  match spec_header bs with Some (hdr, _) => get32 bs (hdr + c_limitOff) | None => 0 end.
