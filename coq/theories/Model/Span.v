(* Model/Span: week span of a counter file (internal/counter/file.go:
   weekEnd, counterSpan, rotate1's metadata and file name) and the uploader's
   reading of it (internal/upload/findwork.go, reports.go).
   Times are unix seconds (Z); the upload start time carries nanoseconds. *)
From Coq Require Import List ZArith NArith Bool.
From Tele Require Import Lib.Bytes Lib.Calendar.
Import ListNotations.
Open Scope Z_scope.

(* weekEnd(): contents of the weekends file -> weekday, None = "empty
   weekends file" error.  buf[0]-'0' is byte arithmetic (wraps mod 256). *)
Definition weekend_of_bytes (file : bytes) : option Z :=
  match trim_space file with
  | [] => None
  | c :: _ => Some (Z.of_N ((((c + 208) mod 256) mod 7)%N))
  end.

(* counterSpan(): now in unix seconds, weekend in 0..6 *)
Definition counter_span (now weekend : Z) : Z * Z :=
  let '(y, m, d) := civil_from_days (now / 86400) in
  let bday := days_from_civil y m d in
  let incr0 := weekend - weekday bday in
  let incr := if incr0 <=? 0 then incr0 + 7 else incr0 in
  (bday * 86400, days_from_civil y m (d + incr) * 86400).

(* metadata lines and the date in the file name written by rotate1 *)
Definition meta_time_begin (span : Z * Z) : bytes := fmt_rfc3339 (fst span).
Definition meta_time_end (span : Z * Z) : bytes := fmt_rfc3339 (snd span).
Definition name_date (span : Z * Z) : bytes := fmt_date (fst span / 86400).

(* rotate1: keep the current file iff the recomputed span equals the stored one *)
Definition rotate_keeps (stored : Z * Z) (now weekend : Z) : bool :=
  let s := counter_span now weekend in
  (fst s =? fst stored) && (snd s =? snd stored).

(* rotate(): rotate1, then ONE timer armed for the recorded end, whose firing
   runs rotate() again.  A rotating process's life is the list of clock
   readings at which its armed timer fired; timer_chain lists the spans of the
   files it counts into, in order. *)
Fixpoint timer_chain (now weekend : Z) (fires : list Z) : list (Z * Z) :=
  counter_span now weekend ::
  match fires with [] => [] | t :: r => timer_chain t weekend r end.
(* every timer fires at the recorded end of the file current then, or later
   within that day *)
Fixpoint fires_on_time (now weekend : Z) (fires : list Z) : Prop :=
  match fires with
  | [] => True
  | t :: r => snd (counter_span now weekend) <= t < snd (counter_span now weekend) + 86400 /\
              fires_on_time t weekend r
  end.
(* the delay rotate() arms its timer with: until the recorded end, at least a
   minimum (one minute); any unit, [mn] in the same unit *)
Definition timer_delay (mn now e : Z) : Z := Z.max (e - now) mn.
(* a process whose timers fire exactly when due: n rotations after the first *)
Fixpoint self_timed (n : nat) (now weekend : Z) : list Z :=
  match n with
  | O => []
  | S k => let t := now + timer_delay 60 now (snd (counter_span now weekend)) in
           t :: self_timed k t weekend
  end.
Fixpoint tiles (e : Z) (l : list (Z * Z)) : Prop :=
  match l with [] => True | s :: r => fst s = e /\ snd s = e + 7 * 86400 /\ tiles (snd s) r end.

(* uploader: start = (seconds, nanoseconds) *)
Definition after_start (t : Z) (start : Z * Z) : bool :=  (* t.After(start) *)
  (fst start <? t).
Definition before_start (t : Z) (start : Z * Z) : bool := (* t.Before(start) *)
  (t <? fst start) || ((t =? fst start) && (0 <? snd start)).

(* findWork collects a count file unless its end is after start; reports()
   folds it into a week iff its end is before start. *)
Definition uploader_collects (tend : Z) (start : Z * Z) : bool := negb (after_start tend start).
Definition uploader_consumes (tend : Z) (start : Z * Z) : bool :=
  uploader_collects tend start && before_start tend start.
Definition uploader_week (tend : Z) : bytes := fmt_date (tend / 86400).

(* ONE run over several count files (program, recorded end, count): the entries
   (week, program, count) of the reports it writes, and the files it leaves *)
Definition run_entries (files : list (nat * Z * Z)) (start : Z * Z) : list (bytes * nat * Z) :=
  map (fun f => let '(p, e, n) := f in (uploader_week e, p, n))
      (filter (fun f => let '(p, e, n) := f in uploader_consumes e start) files).
Definition run_leaves (files : list (nat * Z * Z)) (start : Z * Z) : list (nat * Z * Z) :=
  filter (fun f => let '(p, e, n) := f in negb (uploader_consumes e start)) files.

(* the whole path: what the uploader reads from the metadata the counter wrote *)
Definition uploader_reads (meta_begin meta_end : bytes) : option (Z * Z) :=
  match parse_rfc3339z meta_begin, parse_rfc3339z meta_end with
  | Some b, Some e => Some (b, e)
  | _, _ => None
  end.

(* executable oracle used on the implementation's observations:
   given now, weekend and an observed (begin, end) decide the property's
   "begins at 00:00 UTC today, ends on the first later configured weekday" *)
Definition span_ok (now weekend : Z) (obs : Z * Z) : bool :=
  let '(b, e) := obs in
  (b =? (now / 86400) * 86400) && (e mod 86400 =? 0) && (b <? e) && (e <=? b + 7 * 86400)
  && (weekday (e / 86400) =? weekend)
  && forallb (fun j => negb (weekday (b / 86400 + j) =? weekend) || (e =? b + j * 86400))
       [1; 2; 3; 4; 5; 6; 7].

(* A second process of the same program (same Program/Version/GoVersion/GOOS/
   GOARCH lines) opening its counter file: the file name carries only the
   begin date, so it meets the first process's file iff the begin dates agree;
   openMapped then refuses the file unless its header - which holds TimeBegin
   and TimeEnd - is byte for byte the second process's own.  [None]: refused
   (counting stays off in that process); [Some s]: the recorded span of the
   file its increments go to. *)
Definition header_matches (recorded mine : Z * Z) : bool :=
  beq (meta_time_begin recorded) (meta_time_begin mine) && beq (meta_time_end recorded) (meta_time_end mine).
Definition second_opener (first mine : Z * Z) : option (Z * Z) :=
  if beq (name_date first) (name_date mine)
  then (if header_matches first mine then Some first else None)
  else Some mine.

(* ---- replay inside Coq (no extraction, no OCaml) of the observations of
        harness vh_c09: span cases (now, weekends file, error?, begin, end)
        and share cases ---- *)
Definition span_case_ok (c : Z * bytes * bool * Z * Z) : bool :=
  let '(now, wk, is_err, b, e) := c in
  match weekend_of_bytes wk with
  | None => is_err
  | Some w => negb is_err && (fst (counter_span now w) =? b) && (snd (counter_span now w) =? e)
  end.
Definition share_case_ok (c : Z * Z * Z * Z * bool * Z * Z) : bool :=
  let '(now0, w0, now1, w1, opened, b2, e2) := c in
  let mine := counter_span now1 w1 in
  (fst mine =? b2) && (snd mine =? e2) &&
  match second_opener (counter_span now0 w0) mine with
  | None => negb opened
  | Some s => opened && (fst s =? b2) && (snd s =? e2)
  end.
Fixpoint failing_from {A} (f : A -> bool) (i : nat) (l : list A) : list nat :=
  match l with
  | [] => []
  | x :: l' => if f x then failing_from f (S i) l' else i :: failing_from f (S i) l'
  end.
