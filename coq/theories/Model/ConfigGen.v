(* Model/ConfigGen: internal/configgen/main.go: ValidateChartConfig
   (validate.go), generate (grouping of chart records by program, counter vs
   stack, least minimum version, eligible versions) and padVersions.

   Unmodelled libraries are Section variables: go/version.IsValid/Compare and
   golang.org/x/mod/semver.IsValid/Compare/Canonical/Prerelease.  The list of
   known Go versions (ucfg.GoVersion, computed by goVersions() from the
   toolchain module's versions) and the proxy version lists are inputs.
   Executable definitions only. *)
From Coq Require Import List NArith ZArith Bool.
From Tele Require Import Lib.Bytes Lib.Text Model.ChartCfg.
Import ListNotations.
Open Scope N_scope.
From Coq Require Import String. Open Scope string_scope. Open Scope N_scope. Open Scope list_scope.

Definition lit_cmd : bytes := Eval vm_compute in s2b "cmd/".
Definition lit_v0_0_0 : bytes := Eval vm_compute in s2b "v0.0.0".
Definition lit_stack : bytes := Eval vm_compute in s2b "stack".

(* telemetry.IsToolchainProgram *)
Definition is_toolchain (prog : bytes) : bool := has_prefix prog (lit_cmd).

Definition mem (x : bytes) (l : list bytes) : bool := existsb (beq x) l.

Fixpoint lookup {A} (k : bytes) (m : list (bytes * A)) : option A :=
  match m with
  | [] => None
  | (k', v) :: m' => if beq k k' then Some v else lookup k m'
  end.

(* insertion sort with a strict "less" *)
Fixpoint insert_by {A} (lt : A -> A -> bool) (x : A) (l : list A) : list A :=
  match l with
  | [] => [x]
  | y :: l' => if lt y x then y :: insert_by lt x l' else x :: l
  end.
Definition sort_by {A} (lt : A -> A -> bool) (l : list A) : list A :=
  fold_right (insert_by lt) [] l.

(* padding struct *)
Record padding := mkPad { pd_releases : Z; pd_maj : Z; pd_majmin : Z; pd_patch : Z; pd_pre : Z }.

(* telemetry.CounterConfig without the constant Rate: (Name, Depth) *)
Definition cconf := (bytes * Z)%type.

Record prog := mkProg {
  p_name : bytes; p_module : bytes; p_min : bytes;
  p_counters : list cconf; p_stacks : list cconf }.

Record oprog := mkOprog {
  o_name : bytes; o_versions : list bytes; o_counters : list cconf; o_stacks : list cconf }.

Inductive gresult := GErr | GPanic | GOk (ps : list oprog).

(* fmt.Sprintf("v%d.%d.%d", ...) for non-negative components *)
Definition rel_string (M m p : N) : bytes :=
  118 :: dec_of_N M ++ 46 :: dec_of_N m ++ 46 :: dec_of_N p.
(* fmt.Sprintf("%s-%s", v, patt) *)
Definition pre_string (v patt : bytes) : bytes := v ++ 45 :: patt.

(* parseSemver on a canonical release: "v<digits>.<digits>.<digits>", components within int *)
Fixpoint span_digits (s : bytes) : bytes * bytes :=
  match s with
  | c :: s' => if is_digit c then let '(d, r) := span_digits s' in (c :: d, r) else ([], s)
  | [] => ([], [])
  end.
Definition scan_int (s : bytes) : option (N * bytes) :=
  let '(d, r) := span_digits s in
  match d with
  | [] => None
  | _ => let v := digits_val d in if v <=? 9223372036854775807 then Some (v, r) else None
  end.
Definition parse_mmp (v : bytes) : option (N * N * N) :=
  match cut_before v 45 with
  | 118 :: s =>
      match scan_int s with
      | Some (M, 46 :: s1) =>
          match scan_int s1 with
          | Some (m, 46 :: s2) =>
              match scan_int s2 with
              | Some (p, _) => Some (M, m, p)
              | None => None
              end
          | _ => None
          end
      | _ => None
      end
  | _ => None
  end.

Definition cmp_le (c : comparison) : bool := match c with Gt => false | _ => true end.
Definition cmp_lt (c : comparison) : bool := match c with Lt => true | _ => false end.

Section Gen.
  (* first argument: true = Go versions (go/version), false = semantic versions (x/mod/semver) *)
  Variable is_valid : bool -> bytes -> bool.
  Variable vcmp : bool -> bytes -> bytes -> comparison.
  Variable canonical : bytes -> bytes.
  Variable prerelease : bytes -> bytes.

  (* semver.Sort: by Compare, ties by string order *)
  Definition sem_less (a b : bytes) : bool :=
    match vcmp false a b with Lt => true | Eq => bltb a b | Gt => false end.
  Definition sem_sort (l : list bytes) : list bytes := sort_by sem_less l.

  (* ---- padVersions *)
  Fixpoint next_pre_aux (all : list bytes) (v : bytes) (i : nat) (patts : list bytes) (acc : nat) : nat :=
    match patts with
    | [] => acc
    | p :: ps => next_pre_aux all v (S i) ps (if mem (pre_string v p) all then S i else acc)
    end.
  Definition next_pre (all : list bytes) (v : bytes) (patts : list bytes) : nat := next_pre_aux all v 0 patts 0.

  Definition pres (all : list bytes) (v : bytes) (patts : list bytes) (pre : Z) : list bytes :=
    map (pre_string v) (skipn (next_pre all v patts) (firstn (Z.to_nat pre) patts)).

  Definition emit (all : list bytes) (patts : list bytes) (pd : padding) (M m p : N) (j k q : nat) : list bytes :=
    let releases := Z.of_nat (j + k + q) in
    if (releases =? 0)%Z || (pd_releases pd <? releases)%Z then []
    else
      let maj := M + N.of_nat j in
      let min := match j with O => m + N.of_nat k | _ => N.of_nat k end in
      let pat := match j, k with O, O => p + N.of_nat q | _, _ => N.of_nat q end in
      let v := rel_string maj min pat in
      if mem v all then [] else v :: pres all v patts (pd_pre pd).

  Definition added (all : list bytes) (patts : list bytes) (pd : padding) (M m p : N) : list bytes :=
    flat_map (fun j =>
      flat_map (fun k =>
        flat_map (fun q => emit all patts pd M m p j k q)
                 (seq 0 (Z.to_nat (pd_patch pd + 1))))
        (seq 0 (Z.to_nat (pd_majmin pd - Z.of_nat j + 1))))
      (seq 0 (Z.to_nat (pd_maj pd + 1))).

  Definition latest_release (sorted : list bytes) : bytes :=
    fold_left (fun l v => let cv := canonical v in
                          if is_empty (prerelease cv) && cmp_lt (vcmp false l cv) then cv else l)
              sorted (lit_v0_0_0).

  (* None = the "can't happen" panic *)
  Definition pad_versions (versions patts : list bytes) (pd : padding) : option (list bytes) :=
    let sorted := sem_sort versions in
    let all := map canonical sorted in
    match parse_mmp (latest_release sorted) with
    | None => None
    | Some (M, m, p) => Some (sem_sort (sorted ++ added all patts pd M m p))
    end.

  (* ---- ValidateChartConfig *)
  Definition validate (r : chart) : bool :=
    negb (is_empty (c_title r))
    && negb (match c_issue r with [] => true | _ => false end)
    && negb (is_empty (c_program r)) && negb (is_empty (c_counter r)) && negb (is_empty (c_type r))
    && (0 <=? c_depth r)%Z
    && ((c_depth r =? 0)%Z || beq (c_type r) (lit_stack))
    && (is_empty (c_version r) || is_valid (is_toolchain (c_program r)) (c_version r)).

  (* ---- minVersion *)
  Definition min_version (program v1 v2 : bytes) : bytes :=
    if is_empty v1 || is_empty v2 then []
    else match vcmp (is_toolchain program) v1 v2 with Gt => v2 | _ => v1 end.

  (* ---- the loop over the chart configs; programs in first-appearance order *)
  Definition add_to (r : chart) (p : prog) : prog :=
    let cc := (c_counter r, c_depth r) in
    mkProg (p_name p) (p_module p) (min_version (c_program r) (p_min p) (c_version r))
           (if (0 <? c_depth r)%Z then p_counters p else p_counters p ++ [cc])
           (if (0 <? c_depth r)%Z then p_stacks p ++ [cc] else p_stacks p).
  Fixpoint add_record (r : chart) (ps : list prog) : list prog :=
    match ps with
    | [] => [add_to r (mkProg (c_program r) (c_module r) (c_version r) [] [])]
    | p :: ps' => if beq (p_name p) (c_program r) then add_to r p :: ps' else p :: add_record r ps'
    end.
  Definition group (gcfgs : list chart) : list prog := fold_left (fun ps r => add_record r ps) gcfgs [].

  (* versions not older than the minimum *)
  Definition eligible (tc : bool) (minv : bytes) (v : bytes) : bool :=
    is_empty minv || cmp_le (vcmp tc minv v).

  Variable go_versions : list bytes.                       (* ucfg.GoVersion *)
  Variable proxy : list (bytes * list bytes).              (* module path -> listProxyVersions *)
  Variable paddings : list (bytes * padding).
  Variable patterns : list bytes.                          (* prereleasesForProgram *)

  Inductive vresult := VErr | VPanic | VOk (vs : list bytes).

  Definition versions_for (p : prog) : vresult :=
    if is_toolchain (p_name p) then
      VOk (filter (fun v => is_valid true v && eligible true (p_min p) v) go_versions)
    else
      match lookup (p_module p) proxy with
      | None => VErr
      | Some vs =>
          if forallb (is_valid false) vs then
            match lookup (p_name p) paddings with
            | None => VErr
            | Some pd =>
                match pad_versions (filter (eligible false (p_min p)) vs) patterns pd with
                | Some out => VOk out
                | None => VPanic
                end
            end
          else VErr
      end.

  Fixpoint finish_all (ps : list prog) : gresult :=
    match ps with
    | [] => GOk []
    | p :: ps' =>
        match versions_for p, finish_all ps' with
        | VOk vs, GOk out => GOk (mkOprog (p_name p) vs (p_counters p) (p_stacks p) :: out)
        | VPanic, _ => GPanic
        | _, GPanic => GPanic
        | _, _ => GErr
        end
    end.

  Definition oprog_less (a b : oprog) : bool := bltb (o_name a) (o_name b).

  Definition generate (gcfgs : list chart) : gresult :=
    if forallb validate gcfgs then
      match finish_all (group gcfgs) with
      | GOk out => GOk (sort_by oprog_less out)
      | r => r
      end
    else GErr.

  (* ---- executable oracles on an observed configuration *)
  Definition cconf_eqb (a b : cconf) : bool := beq (fst a) (fst b) && (snd a =? snd b)%Z.

  (* every record is listed under its program, as a stack iff it has a depth;
     every listed entry comes from a record *)
  Definition lists_ok (gcfgs : list chart) (out : list oprog) : bool :=
    forallb (fun r =>
      existsb (fun o => beq (o_name o) (c_program r) &&
                 existsb (cconf_eqb (c_counter r, c_depth r))
                         (if (0 <? c_depth r)%Z then o_stacks o else o_counters o)) out) gcfgs
    && forallb (fun o =>
         forallb (fun cc => existsb (fun r => beq (c_program r) (o_name o) && cconf_eqb (c_counter r, c_depth r) cc
                                               && negb (0 <? c_depth r)%Z) gcfgs) (o_counters o)
         && forallb (fun cc => existsb (fun r => beq (c_program r) (o_name o) && cconf_eqb (c_counter r, c_depth r) cc
                                                  && (0 <? c_depth r)%Z) gcfgs) (o_stacks o)
         && existsb (fun r => beq (c_program r) (o_name o)) gcfgs) out.

  (* a known version is wanted iff it is valid and some record of the program
     has no minimum or a minimum not above it *)
  Definition wanted (gcfgs : list chart) (name : bytes) (v : bytes) : bool :=
    existsb (fun r => beq (c_program r) name && eligible (is_toolchain name) (c_version r) v) gcfgs.

  Definition versions_ok (gcfgs : list chart) (out : list oprog) : bool :=
    forallb (fun o =>
      if is_toolchain (o_name o) then
        list_eqb beq (o_versions o) (filter (fun v => is_valid true v && wanted gcfgs (o_name o) v) go_versions)
      else
        match existsb (fun r => beq (c_program r) (o_name o)) gcfgs,
              find (fun r => beq (c_program r) (o_name o)) gcfgs with
        | true, Some r0 =>
            match lookup (c_module r0) proxy with
            | Some vs => forallb (fun v => negb (wanted gcfgs (o_name o) v) || mem v (o_versions o)) vs
            | None => false
            end
        | _, _ => false
        end) out.

  (* padded list: contains the input, adjacent elements in semver.Sort order, no duplicates *)
  Fixpoint adjacent_ok (l : list bytes) : bool :=
    match l with
    | a :: ((b :: _) as t) => negb (sem_less b a) && adjacent_ok t
    | _ => true
    end.
  Fixpoint nodup_b (l : list bytes) : bool :=
    match l with [] => true | x :: t => negb (mem x t) && nodup_b t end.
  Definition superset_b (input out : list bytes) : bool := forallb (fun v => mem v out) input.
End Gen.
