(* Model/FileCreate: several processes OPENING one counter file that may not
   exist yet, or may have been left half-created by a process that was killed:
   openMapped (internal/counter/file.go) at the granularity of its file-system
   calls: OpenFile(O_CREATE), Stat, [file shorter than minFileLen: WriteAt(header, 0),
   WriteAt(4 zero bytes, minFileLen-4), Stat], then mmap (Stat + map + header
   prefix test).  The file is abstracted to its length and whether the header
   bytes are in place.  A killed process is one that never steps again.

   init_short = true: the code as it is (any file shorter than minFileLen is
   initialised); false: the variant that initialises only an EMPTY file and
   refuses any other short file.

   Executable definitions only. *)
From Coq Require Import List NArith Bool.
From Tele Require Import Gen.Consts.
Import ListNotations.
Open Scope N_scope.

Record cstate := mkC { c_size : N; c_hdr : bool }.

Inductive cpc := COpen | CStat | CWriteHdr | CWriteZero | CStat2 | CMap | CDone (ok : bool).

Record opener := mkO { o_pc : cpc; o_map : N }.

Section Create.
Variable init_short : bool.
Variable HL : N.        (* length of the header *)

Definition MINLEN : N := c_minFileLen.

Definition step_opener (f : cstate) (o : opener) : cstate * opener :=
  match o_pc o with
  | COpen => (f, mkO CStat (o_map o))                       (* creates an empty file if there is none *)
  | CStat =>
      let sz := c_size f in
      if (if init_short then sz <? MINLEN else sz =? 0) then (f, mkO CWriteHdr (o_map o))
      else if sz <? MINLEN then (f, mkO (CDone false) (o_map o))       (* "file too short" (variant only) *)
      else (f, mkO CMap (o_map o))
  | CWriteHdr => (mkC (N.max (c_size f) HL) true, mkO CWriteZero (o_map o))
  | CWriteZero => (mkC (N.max (c_size f) MINLEN) (c_hdr f), mkO CStat2 (o_map o))
  | CStat2 =>
      if c_size f <? MINLEN then (f, mkO (CDone false) (o_map o))      (* "writing file did not extend it" *)
      else (f, mkO CMap (o_map o))
  | CMap =>
      if c_hdr f then (f, mkO (CDone true) (c_size f))
      else (f, mkO (CDone false) (o_map o))                            (* "header mismatch" *)
  | CDone _ => (f, o)
  end.

Definition cst := (cstate * list opener)%type.

Fixpoint cupd (l : list opener) (i : nat) (x : opener) : list opener :=
  match l, i with
  | [], _ => []
  | _ :: l', O => x :: l'
  | y :: l', S i' => y :: cupd l' i' x
  end.

Definition cstep (st : cst) (i : nat) : cst :=
  let '(f, os) := st in
  match nth_error os i with
  | Some o => let '(f', o') := step_opener f o in (f', cupd os i o')
  | None => st
  end.

Definition crun (sched : list nat) (st : cst) : cst := fold_left cstep sched st.

Definition fresh_opener : opener := mkO COpen 0.

End Create.
