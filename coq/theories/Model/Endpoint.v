(* Model/Endpoint: the upload endpoint of godev/cmd/telemetrygodev
   (handleUpload + validate behind the RequestSize / Recover middlewares)
   over the upload bucket modelled by Model/Bucket.  Executable definitions
   only.

   Not modelled, supplied by the caller (oracles):
     decoded   the answer of encoding/json for the body: None (error) or the
               report; the float X is carried as  r_xzero (X == 0)  and
               r_xs (its %g rendering);
     semver    golang.org/x/mod/semver.IsValid;
     marshal   encoding/json's rendering of the report (what Encode writes,
               without the final newline);
     size_ok   the body is not longer than the request size limit. *)
From Coq Require Import List NArith ZArith Bool.
From Tele Require Import Lib.Bytes Lib.Calendar Lib.SortedMap Model.Bucket.
Import ListNotations.
Open Scope N_scope.

Record program := mkProgram {
  pg_name : bytes; pg_version : bytes; pg_goversion : bytes; pg_goos : bytes; pg_goarch : bytes;
  pg_counters : list (bytes * Z);      (* map[string]int64, in key order *)
  pg_stacks : list (bytes * Z)
}.
Record report := mkReport {
  r_week : bytes; r_lastweek : bytes;
  r_xzero : bool;                      (* X == 0 (also true for -0) *)
  r_xs : bytes;                        (* fmt %g of X *)
  r_config : bytes;
  r_programs : list (option program)   (* []*ProgramReport: None = a nil pointer (JSON null) *)
}.

(* the upload configuration as internal/config.Config indexes it *)
Record pconfig := mkPconfig {
  pc_name : bytes; pc_versions : list bytes;
  pc_counters : list bytes;            (* expanded counter names: flat_map expand of the configured names *)
  pc_stacks : list bytes
}.
Record config := mkConfig {
  cf_goos : list bytes; cf_goarch : list bytes; cf_goversion : list bytes;
  cf_programs : list pconfig
}.

(* Documented semantics, independent of how internal/config stores its index:
   a counter is approved for a program iff it is an expansion of one of THAT
   program's Counters entries; a stack iff its name (text before the first
   newline) is one of THAT program's Stacks entries.  The two tables are
   separate: a stack name is not an approved counter and vice versa. *)
(* The documented meaning of a configured counter name (telemetry.CounterConfig:
   "the collapsed counter: <chart>:{<bucket1>,<bucket2>,...}"): a name with a
   bucket list stands for one counter per bucket, prefix ++ bucket; a name
   without '{' stands for itself.  Mirrors internal/config.Expand:
   Cut at the first "{", TrimSuffix "}", Split ",".  The model computes the
   approved set from the RAW configuration with this function; it does not
   take the expansion from the code under test. *)
Definition expand (counter : bytes) : list bytes :=
  let '(prefix, rest, found) := cut counter [123] in
  if found then map (fun b => prefix ++ b) (split_byte (trim_suffix rest [125]) 44)
  else [prefix].
Definition mk_pconfig (name : bytes) (versions raw_counters stacks : list bytes) : pconfig :=
  mkPconfig name versions (flat_map expand raw_counters) stacks.

Definition mem (x : bytes) (l : list bytes) : bool := existsb (beq x) l.
Definition has_program (cfg : config) (n : bytes) : bool :=
  existsb (fun p => beq n (pc_name p)) (cf_programs cfg).
Definition has_version (cfg : config) (n v : bytes) : bool :=
  existsb (fun p => beq n (pc_name p) && mem v (pc_versions p)) (cf_programs cfg).
Definition has_counter (cfg : config) (n c : bytes) : bool :=
  existsb (fun p => beq n (pc_name p) && mem c (pc_counters p)) (cf_programs cfg).
Definition has_stack (cfg : config) (n s : bytes) : bool :=
  existsb (fun p => beq n (pc_name p) && mem s (pc_stacks p)) (cf_programs cfg).

(* prefix, _, _ := strings.Cut(s, "\n") *)
Definition stack_prefix (s : bytes) : bytes := fst (fst (cut s [10])).

Definition program_ok (cfg : config) (p : program) : bool :=
  mem (pg_goarch p) (cf_goarch cfg) && mem (pg_goos p) (cf_goos cfg) &&
  mem (pg_goversion p) (cf_goversion cfg) &&
  has_program cfg (pg_name p) && has_version cfg (pg_name p) (pg_version p) &&
  forallb (fun kv => has_counter cfg (pg_name p) (fst kv)) (pg_counters p) &&
  forallb (fun kv => has_stack cfg (pg_name p) (stack_prefix (fst kv))) (pg_stacks p).

Inductive vres := VOk | VReject.
(* the loop over r.Programs: a nil entry is rejected (fix b5cf921) *)
Fixpoint validate_programs (cfg : config) (ps : list (option program)) : vres :=
  match ps with
  | [] => VOk
  | None :: _ => VReject
  | Some p :: ps' => if program_ok cfg p then validate_programs cfg ps' else VReject
  end.
Definition week_ok (r : report) : bool :=
  match parse_date (r_week r) with Some _ => true | None => false end.
Definition validate (semver : bytes -> bool) (cfg : config) (r : report) : vres :=
  if negb (week_ok r) then VReject
  else if negb (semver (r_config r)) then VReject
  else if r_xzero r then VReject
  else validate_programs cfg (r_programs r).

Inductive status := S2xx | S4xx | S5xx.
Definition post : bytes := [80; 79; 83; 84].
Definition object_name (r : report) : bytes := upload_name (r_week r) (r_xs r).
Definition object_content (marshal : report -> bytes) (r : report) : bytes := marshal r ++ [10].

(* one request through RequestSize(MaxBytesReader) -> Recover -> handleUpload;
   content.Error codes: 400 for a bad body or report, 405 for the method,
   an error without a code (storage) gives 500 *)
Definition handle (semver : bytes -> bool) (marshal : report -> bytes) (cfg : config)
    (method : bytes) (size_ok : bool) (decoded : option report) (m : fs) : status * fs :=
  if negb (beq method post) then (S4xx, m)
  else if negb size_ok then (S4xx, m)
  else match decoded with
       | None => (S4xx, m)
       | Some r =>
           match validate semver cfg r with
           | VReject => (S4xx, m)
           | VOk =>
               let '(ok, m') := write m (components (object_name r)) (object_content marshal r) in
               if ok then (S2xx, m') else (S5xx, m')
           end
       end.

(* The handler as the HTTP layer calls it: the Content-Length the client
   DECLARED (-1 = unknown / chunked) is one more input.  Nothing in the chain
   looks at it: MaxBytesReader limits the bytes that are read, io.ReadAll
   grows with what arrives.  The answer is a function of the body's bytes
   (through size_ok and decoded) only. *)
Definition handle_http (semver : bytes -> bool) (marshal : report -> bytes) (cfg : config)
    (method : bytes) (declared : Z) (size_ok : bool) (decoded : option report) (m : fs) : status * fs :=
  handle semver marshal cfg method size_ok decoded m.

(* Below the HTTP client API: the bytes on the wire may not even be a
   well-framed body (invalid chunk-size line, chunk data not followed by CRLF,
   a chunk length wider than 64 bits, a malformed trailer).  framing_ok = the
   transfer coding could be decoded; otherwise io.ReadAll(r.Body) fails with
   the decoder's error and handleUpload answers 400 like for any unreadable
   body (size_ok / decoded are then meaningless and ignored).  Methods other
   than POST never read the body. *)
Definition handle_wire (semver : bytes -> bool) (marshal : report -> bytes) (cfg : config)
    (method : bytes) (declared : Z) (framing_ok size_ok : bool) (decoded : option report) (m : fs) : status * fs :=
  if beq method post && negb framing_ok then (S4xx, m)
  else handle_http semver marshal cfg method declared size_ok decoded m.

(* ---- what the property asks for ---- *)
Definition approved (cfg : config) (r : report) : bool :=
  forallb (fun o => match o with Some p => program_ok cfg p | None => false end) (r_programs r).
Definition valid_report (semver : bytes -> bool) (cfg : config) (r : report) : bool :=
  week_ok r && semver (r_config r) && negb (r_xzero r) && approved cfg r.
Definition valid_request (semver : bytes -> bool) (cfg : config)
    (method : bytes) (size_ok : bool) (decoded : option report) : bool :=
  beq method post && size_ok &&
  match decoded with Some r => valid_report semver cfg r | None => false end.

(* expected answer and bucket tree: the object is written exactly for a valid
   request; everything else is answered 4xx and leaves the tree alone *)
Definition expected (semver : bytes -> bool) (marshal : report -> bytes) (cfg : config)
    (method : bytes) (size_ok : bool) (decoded : option report) (m : fs) : status * fs :=
  match decoded with
  | Some r =>
      if valid_request semver cfg method size_ok decoded
      then (S2xx, snd (write m (components (object_name r)) (object_content marshal r)))
      else (S4xx, m)
  | None => (S4xx, m)
  end.

(* ... and an ill-framed body is no report either *)
Definition expected_wire (semver : bytes -> bool) (marshal : report -> bytes) (cfg : config)
    (method : bytes) (framing_ok size_ok : bool) (decoded : option report) (m : fs) : status * fs :=
  if framing_ok then expected semver marshal cfg method size_ok decoded m else (S4xx, m).

(* request sequences on one bucket *)
Record request := mkRequest { q_method : bytes; q_size_ok : bool; q_decoded : option report }.
Fixpoint serve (semver : bytes -> bool) (marshal : report -> bytes) (cfg : config)
    (m : fs) (qs : list request) : list status * fs :=
  match qs with
  | [] => ([], m)
  | q :: qs' =>
      let '(st, m') := handle semver marshal cfg (q_method q) (q_size_ok q) (q_decoded q) m in
      let '(sts, m'') := serve semver marshal cfg m' qs' in (st :: sts, m'')
  end.

(* the object a request would store (for batches of uploads that are in
   flight together: they take effect in SOME order, see C12_batch_any_order) *)
Definition q_path (q : request) : path :=
  match q_decoded q with Some r => components (object_name r) | None => [] end.

(* every object of the tree is named <dir>/<file> *)
Definition two_level (m : fs) : bool := forallb (fun kv => Nat.eqb (length (fst kv)) 2) (files m).
