(* C12  The upload endpoint stores exactly the valid reports it is sent.
   This file holds only statements; every proof is `exact <lemma>`.

   Model (Model/Endpoint.v): handle semver marshal cfg method size_ok decoded m
   = (status class, tree of the upload bucket afterwards): the request goes
   through RequestSize (size_ok), Recover and handleUpload/validate; the
   bucket is the tree model of C18 (Model/Bucket.v).  Oracles, universally
   quantified in every theorem: semver (semver.IsValid), marshal (encoding/json
   of the report), the decoded body (None = json.Unmarshal failed), and the
   %g rendering r_xs of X with the premise g_string (alphabet [0-9eE+-.]).
   upload_store m: m is reachable by bucket operations and every object in it
   is named <dir>/<file> (true for a fresh bucket and kept by every request:
   C12_all_request_sequences). *)
From Coq Require Import List ZArith NArith Bool.
From Tele Require Import Lib.Bytes Lib.Calendar Lib.SortedMap Model.Bucket Model.Endpoint
  Proofs.BucketFacts Proofs.EndpointFacts.
Import ListNotations.
Open Scope N_scope.
From Coq Require Import String. Open Scope string_scope. Open Scope N_scope. Open Scope list_scope.

(* An object is stored iff the method is POST, the body is within the limit
   and decodes, and the report has a valid week, a semver config, a non-zero
   X and only approved contents (valid_request); then exactly that object is
   written (C18 write: every other object keeps its content, C18_write_frame)
   and the answer is 2xx; otherwise the answer is 4xx and the bucket tree is
   unchanged.  A null program entry is not approved content (fix b5cf921:
   rejected, not dereferenced). *)
Theorem C12_stores_iff_valid : forall semver marshal cfg m method size_ok decoded,
  upload_store m ->
  (forall r, decoded = Some r -> g_string (r_xs r) = true) ->
  (fst (handle semver marshal cfg method size_ok decoded m) = S2xx <->
     valid_request semver cfg method size_ok decoded = true) /\
  (valid_request semver cfg method size_ok decoded = true ->
     exists r, decoded = Some r /\
       write m (components (object_name r)) (object_content marshal r) =
         (true, snd (handle semver marshal cfg method size_ok decoded m))) /\
  (valid_request semver cfg method size_ok decoded = false ->
     fst (handle semver marshal cfg method size_ok decoded m) = S4xx /\
     snd (handle semver marshal cfg method size_ok decoded m) = m).
Proof. exact stores_iff_valid. Qed.
Print Assumptions C12_stores_iff_valid.

(* the handler is the function the property describes *)
Theorem C12_handle_is_expected : forall semver marshal cfg m method size_ok decoded,
  upload_store m ->
  (forall r, decoded = Some r -> g_string (r_xs r) = true) ->
  handle semver marshal cfg method size_ok decoded m = expected semver marshal cfg method size_ok decoded m /\
  upload_store (snd (handle semver marshal cfg method size_ok decoded m)).
Proof. exact handle_expected. Qed.
Print Assumptions C12_handle_is_expected.

(* what "valid" means, clause by clause *)
Theorem C12_valid_request_meaning : forall semver cfg method size_ok decoded,
  valid_request semver cfg method size_ok decoded = true ->
  method = post /\ size_ok = true /\ exists r, decoded = Some r /\ valid_report semver cfg r = true.
Proof. exact valid_request_inv. Qed.
Print Assumptions C12_valid_request_meaning.
Theorem C12_validate_accepts_iff : forall semver cfg r,
  validate semver cfg r = VOk <-> valid_report semver cfg r = true.
Proof. exact validate_ok_iff. Qed.
Print Assumptions C12_validate_accepts_iff.

(* the approved counter set is computed from the raw configuration by the
   documented expansion, not taken from the code: a configured name without a
   bucket list stands for itself; prefix{b1,...,bn} stands for the n names
   prefix++bi - for one bucket too *)
Theorem C12_expand_plain : forall c, ~ In 123%N c -> expand c = [c].
Proof. exact expand_plain. Qed.
Print Assumptions C12_expand_plain.
Theorem C12_expand_buckets : forall p bs, ~ In 123%N p -> bs <> [] -> (forall b, In b bs -> ~ In 44%N b) ->
  expand (p ++ [123%N] ++ join bs [44%N] ++ [125%N]) = map (fun b => p ++ b) bs.
Proof. exact expand_buckets. Qed.
Print Assumptions C12_expand_buckets.

(* "only approved contents": every plain counter of a valid report is, as a
   WHOLE name, one of the expanded counter names configured for that very
   program, and every stack counter's name (the text before the first
   newline) is one of that program's configured stack names; counters and
   stacks have separate tables *)
Theorem C12_approved_names_listed : forall semver cfg r p,
  valid_report semver cfg r = true -> In (Some p) (r_programs r) ->
  (forall c v, In (c, v) (pg_counters p) ->
     exists pc, In pc (cf_programs cfg) /\ pc_name pc = pg_name p /\ In c (pc_counters pc)) /\
  (forall st v, In (st, v) (pg_stacks p) ->
     exists pc, In pc (cf_programs cfg) /\ pc_name pc = pg_name p /\ In (stack_prefix st) (pc_stacks pc)).
Proof. exact approved_names_listed. Qed.
Print Assumptions C12_approved_names_listed.

(* named by the report's week and X, inside the upload bucket (C18: ordinary
   components, resolves to exactly <bucket dir>/<week>/<x>.json, listed) *)
Theorem C12_name_inside_bucket : forall semver cfg method size_ok r,
  valid_request semver cfg method size_ok (Some r) = true -> g_string (r_xs r) = true ->
  components (object_name r) = [r_week r; r_xs r ++ json_ext] /\ good_name (object_name r).
Proof. exact name_inside_bucket. Qed.
Print Assumptions C12_name_inside_bucket.

(* the stored object decodes to the same report (premise: JSON round trip) *)
Theorem C12_stored_decodes_same : forall semver marshal cfg (unmarshal : bytes -> option report),
  (forall r, unmarshal (marshal r ++ [10]) = Some r) ->
  forall m method size_ok r,
  upload_store m -> valid_request semver cfg method size_ok (Some r) = true -> g_string (r_xs r) = true ->
  let '(st, m') := handle semver marshal cfg method size_ok (Some r) m in
  st = S2xx /\ exists c, read m' (components (object_name r)) = ROk c /\ unmarshal c = Some r.
Proof. exact stored_decodes_same. Qed.
Print Assumptions C12_stored_decodes_same.

(* a 4xx answer never changes the bucket: any tree, any oracles *)
Theorem C12_reject_is_inert : forall semver marshal cfg method size_ok decoded m,
  fst (handle semver marshal cfg method size_ok decoded m) = S4xx ->
  snd (handle semver marshal cfg method size_ok decoded m) = m.
Proof. exact reject_is_inert. Qed.
Print Assumptions C12_reject_is_inert.

(* a 2xx answer is only given after the write succeeded: any tree *)
Theorem C12_ack_means_written : forall semver marshal cfg method size_ok decoded m,
  fst (handle semver marshal cfg method size_ok decoded m) = S2xx ->
  exists r, decoded = Some r /\ valid_request semver cfg method size_ok decoded = true /\
    write m (components (object_name r)) (object_content marshal r) =
      (true, snd (handle semver marshal cfg method size_ok decoded m)).
Proof. exact ack_means_written. Qed.
Print Assumptions C12_ack_means_written.

(* bodies over the size limit are refused, whatever they contain *)
Theorem C12_oversize_refused : forall semver marshal cfg method decoded m,
  handle semver marshal cfg method false decoded m = (S4xx, m).
Proof. exact oversize_refused. Qed.
Print Assumptions C12_oversize_refused.
Theorem C12_wrong_method_refused : forall semver marshal cfg method size_ok decoded m,
  method <> post -> handle semver marshal cfg method size_ok decoded m = (S4xx, m).
Proof. exact wrong_method_refused. Qed.
Print Assumptions C12_wrong_method_refused.

(* no 5xx: the write of <week>/<x>.json into an upload store cannot collide *)
Theorem C12_never_5xx : forall semver marshal cfg m method size_ok decoded,
  upload_store m ->
  (forall r, decoded = Some r -> g_string (r_xs r) = true) ->
  fst (handle semver marshal cfg method size_ok decoded m) <> S5xx.
Proof. exact never_5xx. Qed.
Print Assumptions C12_never_5xx.

(* The length a client DECLARES (Content-Length; -1 = unknown/chunked) is an
   input of the handler, and the answer does not depend on it: whatever is
   declared - honest, too short, absurdly large - the request is answered as
   the property expects for the bytes of its body, and never 5xx.  (The
   refusal of oversize bodies is decided by the bytes read: size_ok.) *)
Theorem C12_declared_length_irrelevant : forall semver marshal cfg method d1 d2 size_ok decoded m,
  handle_http semver marshal cfg method d1 size_ok decoded m =
  handle_http semver marshal cfg method d2 size_ok decoded m.
Proof. exact declared_length_irrelevant. Qed.
Print Assumptions C12_declared_length_irrelevant.
Theorem C12_http_never_5xx : forall semver marshal cfg m method declared size_ok decoded,
  upload_store m ->
  (forall r, decoded = Some r -> g_string (r_xs r) = true) ->
  handle_http semver marshal cfg method declared size_ok decoded m =
    expected semver marshal cfg method size_ok decoded m /\
  fst (handle_http semver marshal cfg method declared size_ok decoded m) <> S5xx.
Proof. exact http_never_5xx. Qed.
Print Assumptions C12_http_never_5xx.

(* Malformed framing below the HTTP client API (broken chunk sizes, missing
   CRLF, over-wide chunk lengths, bad trailers; framing_ok = false): the
   request is no report - 4xx, bucket unchanged, never 5xx; with sound framing
   the answer is the one above. *)
Theorem C12_wire_framing : forall semver marshal cfg m method declared framing_ok size_ok decoded,
  upload_store m ->
  (forall r, decoded = Some r -> g_string (r_xs r) = true) ->
  handle_wire semver marshal cfg method declared framing_ok size_ok decoded m =
    expected_wire semver marshal cfg method framing_ok size_ok decoded m /\
  fst (handle_wire semver marshal cfg method declared framing_ok size_ok decoded m) <> S5xx.
Proof. exact wire_expected. Qed.
Print Assumptions C12_wire_framing.

(* Uploads in flight together (concurrent requests take effect in some
   order): for a batch of valid uploads of pairwise different objects - e.g.
   the first uploads of a new week arriving together - EVERY order gives: all
   answered 2xx, each object reads back as its marshalled report, every other
   object reads as before.  (Quantified over the list, hence over all its
   permutations; nothing about the week directory existing beforehand.) *)
Theorem C12_batch_any_order : forall semver marshal cfg qs m,
  upload_store m -> Forall (batch_request semver cfg) qs -> NoDup (map q_path qs) ->
  Forall (fun st => st = S2xx) (fst (serve semver marshal cfg m qs)) /\
  upload_store (snd (serve semver marshal cfg m qs)) /\
  (forall q r, In q qs -> q_decoded q = Some r ->
     read (snd (serve semver marshal cfg m qs)) (components (object_name r)) = ROk (object_content marshal r)) /\
  (forall n c, (forall q, In q qs -> q_path q <> components n) ->
     (read (snd (serve semver marshal cfg m qs)) (components n) = ROk c <-> read m (components n) = ROk c)).
Proof. exact batch_any_order. Qed.
Print Assumptions C12_batch_any_order.

(* all request sequences on a bucket that starts as an upload store *)
Theorem C12_all_request_sequences : forall semver marshal cfg qs m,
  upload_store m -> Forall good_request qs ->
  Forall (fun st => st <> S5xx) (fst (serve semver marshal cfg m qs)) /\
  upload_store (snd (serve semver marshal cfg m qs)).
Proof. exact serve_never_5xx. Qed.
Print Assumptions C12_all_request_sequences.
Theorem C12_fresh_bucket_is_upload_store : upload_store fs_init.
Proof. exact upload_store_init. Qed.
Print Assumptions C12_fresh_bucket_is_upload_store.

(* Non-vacuity *)
(* "go/build/flag:{buildmode}" (one bucket) approves go/build/flag:buildmode, not its own spelling;
   "f:{a,}" approves f:a and f: *)
Example C12_example_expand :
  expand (s2b "go/build/flag:{buildmode}") = [s2b "go/build/flag:buildmode"] /\
  expand (s2b "f:{a,}") = [s2b "f:a"; s2b "f:"] /\ expand (s2b "plain") = [s2b "plain"] /\
  pc_counters (mk_pconfig (s2b "p") [] [s2b "x:{1}"; s2b "y"] []) = [s2b "x:1"; s2b "y"].
Proof. vm_compute. repeat split; reflexivity. Qed.
(* {"Programs":[null]}: refused with 4xx, nothing stored (was 5xx before fix b5cf921) *)
Example C12_example_null_program :
  handle (fun _ => true) (fun _ => []) empty_config post true (Some null_report) fs_init = (S4xx, fs_init) /\
  valid_request (fun _ => true) empty_config post true (Some null_report) = false.
Proof. exact null_program_example. Qed.
Example C12_example_valid :
  valid_request (fun _ => true) empty_config post true (Some ok_report) = true /\
  g_string (r_xs ok_report) = true /\
  fst (handle (fun _ => true) (fun _ => [123; 125]) empty_config post true (Some ok_report) fs_init) = S2xx /\
  files (snd (handle (fun _ => true) (fun _ => [123; 125]) empty_config post true (Some ok_report) fs_init)) =
    [([[50;48;50;52;45;48;49;45;48;49]; [48;46;53;46;106;115;111;110]], [123; 125; 10])].
Proof. exact valid_example. Qed.
