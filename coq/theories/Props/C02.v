(* C02  Nothing is uploaded or recorded beyond what the consent mode allows.
   This file holds only statements; every proof is `exact <lemma>`.

   Model: Model/Mode.v (Dir.Mode, Dir.SetModeAsOf) and Model/Gating.v (tooOld,
   uploadOK, findWork, reports, createReport, uploadReport, uploader.Run as a
   function from an abstract file-system state to a list of effects and a new
   state; counter.Open / Add).  Instants are nanoseconds since the epoch, days
   are day numbers, X and the sample rate live in an arbitrary type R with a
   decidable "less than" rlt (no hypothesis on it is needed). *)
From Coq Require Import String.
From Coq Require Import List ZArith NArith Bool Permutation.
From Tele Require Import Lib.Bytes Lib.Calendar Gen.Consts Model.Mode Model.Gating
  Proofs.ModeFacts Proofs.DateOrder Proofs.GatingFacts Proofs.RunFacts Proofs.SpecFacts.
Import ListNotations.
Open Scope Z_scope.

(* ------------------------------------------------------------------ clause 1
   "A request is made to the upload server only when the mode recorded in the
   mode file is exactly "on"." *)
(* "exactly on": a file reads as on (off, local) precisely when, after
   TrimSpace, it is that word alone or that word, ONE ASCII space, and anything
   (the format SetMode writes).  A tab, newline, NBSP ... after the word makes
   it another value, which behaves as local. *)
Theorem C02_mode_exact : forall file w, index_byte w space = None ->
  (fst (parse_mode (Some file)) = w <->
   trim_space file = w \/ exists rest, trim_space file = (w ++ space :: rest)%list).
Proof. exact parse_mode_exact. Qed.
Print Assumptions C02_mode_exact.

Theorem C02_post_only_when_on : forall (R : Type) (rlt : R -> R -> bool) (rzero : R)
    (cfg : runcfg R) (fs : fstate) (fdate name : bytes),
  In (EPost fdate name) (fst (run R rlt rzero cfg fs)) ->
  fst (parse_mode (fs_mode fs)) = m_on.
Proof. exact run_post_only_when_on. Qed.
Print Assumptions C02_post_only_when_on.

(* ------------------------------------------------------------------ clause 2
   "A week's data is made uploadable only if the week ended no more than 21
   days before the run, its X is not above a positive sample rate and, when an
   opt-in date is recorded, all of it was collected strictly after that date" *)
Theorem C02_upload_ok_iff : forall (R : Type) (rlt : R -> R -> bool) (rzero : R)
    mode (asof : option Z) start expiry earliest (x rate : R),
  upload_ok R rlt rzero mode asof start expiry earliest x rate = true <->
  mode = m_on /\
  (forall d, parse_date expiry = Some d -> start - day_ns d <= 21 * ns_per_day) /\
  (asof = None \/ exists a, asof = Some a /\ day_ns a < earliest) /\
  ~ (rlt rzero rate = true /\ rlt rate x = true).
Proof. exact upload_ok_iff. Qed.
Print Assumptions C02_upload_ok_iff.

(* the 21 days count from 00:00 of the week's date, hence also from the end
   instant recorded in the count files (RFC3339 years 0..9999) *)
Theorem C02_upload_ok_end_instant : forall (R : Type) (rlt : R -> R -> bool) (rzero : R)
    mode asof start e earliest (x rate : R),
  year_ok_day (e / ns_per_day) ->
  upload_ok R rlt rzero mode asof start (week_of e) earliest x rate = true ->
  start - e <= 21 * ns_per_day.
Proof. exact upload_ok_end_instant. Qed.
Print Assumptions C02_upload_ok_end_instant.

(* uploadOK is the executable statement used as oracle on the implementation *)
Theorem C02_upload_ok_is_spec : forall (R : Type) (rlt : R -> R -> bool) (rzero : R)
    mode asof start expiry earliest (x rate : R),
  upload_ok R rlt rzero mode asof start expiry earliest x rate =
  spec_uploadable R rlt rzero mode asof start (parse_date expiry) earliest x rate.
Proof. exact upload_ok_spec. Qed.
Print Assumptions C02_upload_ok_is_spec.

(* "all of it": earliest[expiry] is the least begin of the week's files, and an
   uploadable week has every file beginning after 00:00 of the recorded date --
   for files whose begin is not the zero time (see the sentinel finding). *)
Theorem C02_uploadable_all_after_asof : forall (R : Type) (rlt : R -> R -> bool) (rzero : R)
    mode a start (cnt : list lfile) g (x rate : R),
  In g (groups_of start cnt) ->
  (forall f, In f (g_files g) -> begin_of f <> zero_ns) ->
  existsb lf_counts (g_files g) = true ->
  upload_ok R rlt rzero mode (Some a) start (g_exp g) (g_earliest g) x rate = true ->
  forall f, In f (g_files g) -> day_ns a < begin_of f.
Proof. exact uploadable_all_after_asof. Qed.
Print Assumptions C02_uploadable_all_after_asof.

Theorem C02_earliest_is_min : forall bs : list Z,
  bs <> [] -> (forall b, In b bs -> b <> zero_ns) ->
  let r := fold_left upd_earliest bs zero_ns in (forall b, In b bs -> r <= b) /\ In r bs.
Proof. exact earliest_is_min. Qed.
Print Assumptions C02_earliest_is_min.

(* ... whatever the order in which local/ lists the week's files (by program
   name, not by begin date) *)
Theorem C02_earliest_order_independent : forall bs bs' : list Z,
  Permutation bs bs' -> (forall b, In b bs -> b <> zero_ns) ->
  fold_left upd_earliest bs zero_ns = fold_left upd_earliest bs' zero_ns.
Proof. exact earliest_order_independent. Qed.
Print Assumptions C02_earliest_order_independent.

(* The sample rate in force is the PUBLISHED one: upload.Run downloads the
   upload config only in mode on and uses its SampleRate unchanged; in every
   other mode the rate has no influence on the run at all. *)
Theorem C02_run_entry_uses_published_rate : forall (R : Type) (rlt : R -> R -> bool) (rzero : R)
    (published : R) (cfg : runcfg R) (fs : fstate),
  run_entry R rlt rzero published cfg fs = run R rlt rzero (with_rate R cfg published) fs.
Proof. exact run_entry_is_run. Qed.
Print Assumptions C02_run_entry_uses_published_rate.

Theorem C02_rate_irrelevant_not_on : forall (R : Type) (rlt : R -> R -> bool) (rzero : R)
    mode asof (cfg : runcfg R) (r : R) (d : dirs),
  mode <> m_on ->
  run_ma R rlt rzero mode asof (with_rate R cfg r) d = run_ma R rlt rzero mode asof cfg d.
Proof. exact rate_irrelevant_not_on. Qed.
Print Assumptions C02_rate_irrelevant_not_on.

(* in a run, a report without the "local." prefix is created only for a week
   whose uploadOK is true *)
Theorem C02_uploadable_only_if : forall (R : Type) (rlt : R -> R -> bool) (rzero : R)
    (cfg : runcfg R) (fs : fstate) (n : bytes),
  In (ECreateLocal n) (fst (run R rlt rzero cfg fs)) -> has_prefix n local_prefix = false ->
  exists l g, fs_local fs = Some l /\
    In g (groups_of (rc_start cfg) (filter (collectable (rc_start cfg)) l)) /\
    n = (g_exp g ++ json_suffix)%list /\
    upload_ok R rlt rzero (mode_of (fs_mode fs)) (asof_of (fs_mode fs)) (rc_start cfg) (g_exp g) (g_earliest g)
              (rc_x cfg (g_exp g)) (rc_rate cfg) = true.
Proof. exact run_uploadable_only_if. Qed.
Print Assumptions C02_uploadable_only_if.

(* ------------------------------------------------------------------ clause 3
   "an uploadable report is sent only if its week is not in the future and
   ends after the recorded opt-in date" *)
Theorem C02_sent_only_if : forall (R : Type) (rlt : R -> R -> bool) (rzero : R)
    (cfg : runcfg R) (fs : fstate) (fd n : bytes),
  year_ok_day (rc_start cfg / ns_per_day) ->
  In (EPost fd n) (fst (run R rlt rzero cfg fs)) ->
  (forall s dn, re_date n = Some s -> parse_date s = Some dn -> dn <= rc_start cfg / ns_per_day) /\
  exists l, fs_local fs = Some l /\
   ((exists f, In f l /\ lf_name f = n /\
       (asof_of (fs_mode fs) = None \/ report_date n = None \/
        exists a r, asof_of (fs_mode fs) = Some a /\ report_date n = Some r /\ a < r)) \/
    (exists g, In g (groups_of (rc_start cfg) (filter (collectable (rc_start cfg)) l)) /\
       n = (g_exp g ++ json_suffix)%list /\
       upload_ok R rlt rzero (mode_of (fs_mode fs)) (asof_of (fs_mode fs)) (rc_start cfg) (g_exp g) (g_earliest g)
                 (rc_x cfg (g_exp g)) (rc_rate cfg) = true)).
Proof. exact run_sent_only_if. Qed.
Print Assumptions C02_sent_only_if.

(* the future test compares strings: for well-formed dates that is the day order *)
Theorem C02_date_string_order : forall s1 s2 z1 z2,
  parse_date s1 = Some z1 -> parse_date s2 = Some z2 ->
  bltb s1 s2 = (z1 <? z2) /\ bleb s1 s2 = (z1 <=? z2).
Proof. exact date_string_order. Qed.
Print Assumptions C02_date_string_order.

Theorem C02_future_is_day_order : forall start name s dn,
  (let '(y, _, _) := civil_from_days (start / ns_per_day) in 0 <= y <= 9999) ->
  re_date name = Some s -> parse_date s = Some dn ->
  future_report (today_of start) name = (start / ns_per_day <? dn).
Proof. exact future_report_days. Qed.
Print Assumptions C02_future_is_day_order.

Theorem C02_ready_report_iff : forall mode asof name,
  ready_report mode asof name = true <->
  has_suffix name json_suffix = true /\ has_prefix name local_prefix = false /\
  has_suffix name count_suffix = false /\ mode = m_on /\
  (asof = None \/ report_date name = None \/
   exists a r, asof = Some a /\ report_date name = Some r /\ a < r).
Proof. exact ready_report_iff. Qed.
Print Assumptions C02_ready_report_iff.

Theorem C02_too_old_iff : forall date start,
  too_old date start = true <-> exists d, parse_date date = Some d /\ 21 * ns_per_day < start - day_ns d.
Proof. exact too_old_iff. Qed.
Print Assumptions C02_too_old_iff.

(* clauses 1-3 together, in the form the oracle evaluates on the real
   uploader's requests: every request of a run is allowed by the executable
   statement of the property -- when no date in play is 0001-01-01 (the
   zero-time sentinel), the start year is 0..9999 and the count files' end
   years are 0..9999 (all that RFC3339 can express). *)
Theorem C02_posts_allowed : forall (R : Type) (rlt : R -> R -> bool) (rzero : R)
    (cfg : runcfg R) (fs : fstate) (fd n : bytes),
  sentinel_involved fs = false ->
  year_ok_day (rc_start cfg / ns_per_day) ->
  (forall l, fs_local fs = Some l -> spans_ok l) ->
  In (EPost fd n) (fst (run R rlt rzero cfg fs)) ->
  spec_post_allowed R rlt rzero cfg fs fd = true.
Proof. exact posts_allowed. Qed.
Print Assumptions C02_posts_allowed.

(* ... and inside that class the property fails (known finding
   zero-time-sentinel): three witnesses, each a run whose only request is not
   allowed. *)
Theorem C02_zero_time_sentinel_refuted :
  (posts_of (fst (run Z Z.ltb 0 wit_cfg wit_fs1)) = [s2b "0001-01-07"] /\
   spec_post_allowed Z Z.ltb 0 wit_cfg wit_fs1 (s2b "0001-01-07") = false /\
   snd (parse_mode (fs_mode wit_fs1)) = Some zero_day /\ sentinel_involved wit_fs1 = true) /\
  (posts_of (fst (run Z Z.ltb 0 wit_cfg wit_fs2)) = [s2b "0001-01-07"] /\
   spec_post_allowed Z Z.ltb 0 wit_cfg wit_fs2 (s2b "0001-01-07") = false /\
   sentinel_involved wit_fs2 = true) /\
  (posts_of (fst (run Z Z.ltb 0 wit_cfg wit_fs3)) = [s2b "0001-01-01"] /\
   spec_post_allowed Z Z.ltb 0 wit_cfg wit_fs3 (s2b "0001-01-01") = false /\
   sentinel_involved wit_fs3 = true).
Proof. exact zero_time_sentinel_refuted. Qed.
Print Assumptions C02_zero_time_sentinel_refuted.

(* A run removes only count files it collected -- both TimeBegin and TimeEnd
   readable, ended by the start -- and reports (names ending in .json) ... *)
Theorem C02_removes_justified : forall (R : Type) (rlt : R -> R -> bool) (rzero : R)
    mode asof (cfg : runcfg R) (d : dirs) (n : bytes),
  In (ERemoveLocal n) (fst (run_ma R rlt rzero mode asof cfg d)) ->
  exists l, d_local d = Some l /\
    ((exists f, In f l /\ lf_name f = n /\ collectable (rc_start cfg) f = true) \/
     has_suffix n json_suffix = true).
Proof. exact removes_justified. Qed.
Print Assumptions C02_removes_justified.

(* ... so a count file whose collection time is unknown (no usable TimeBegin)
   is never folded into a report: the oracle spec_unknown_begin_ok, evaluated on
   the real run's observations, holds of every model run. *)
Theorem C02_unknown_begin_ok : forall (R : Type) (rlt : R -> R -> bool) (rzero : R)
    mode asof recorded (cfg : runcfg R) (d : dirs) (damaged : list (bytes * Z)),
  (forall ne, In ne damaged -> has_suffix (fst ne) json_suffix = false /\
     forall l f, d_local d = Some l -> In f l -> lf_name f = fst ne -> lf_span f = None) ->
  let e := fst (run_ma R rlt rzero mode asof cfg d) in
  spec_unknown_begin_ok recorded damaged (removed_names e) (uploadable_weeks e) = true.
Proof. exact unknown_begin_ok_model. Qed.
Print Assumptions C02_unknown_begin_ok.

(* ------------------------------------------------------------------ clause 4
   "With mode "off" neither the counter API nor the uploader creates, changes
   or removes any counter file or report": for every state whose mode file
   reads "off", every sequence of counter.Open / Add / uploader runs (any
   start, X, rate, server): the only effects are directory reads, reading the
   mode file, reading count files, and MkdirAll(upload/); local/ and the mode
   file are unchanged, upload/ is unchanged or newly created empty; the
   counter file is never mapped. *)
Theorem C02_off_is_inert : forall (R : Type) (rlt : R -> R -> bool) (rzero : R)
    (ops : list (op R)) (fs : fstate) (p : pstate),
  mode_of (fs_mode fs) = m_off -> p <> PMapped ->
  Forall (keeps_off R) ops ->          (* mode-file rewrites inside the sequence keep it reading off *)
  let '(e, (fs', p')) := exec R rlt rzero ops (fs, p) in
  forallb off_allowed e = true /\ mode_of (fs_mode fs') = m_off /\ fs_local fs' = fs_local fs /\
  (fs_upload fs' = fs_upload fs \/ (fs_upload fs = None /\ fs_upload fs' = Some [])) /\ p' <> PMapped.
Proof. exact off_is_inert_exec. Qed.
Print Assumptions C02_off_is_inert.

(* Rotation is gated by the mode read AT that rotation.  A process that mapped
   its count file while the mode was on or local (p = PMapped) and whose
   rotation (the weekly timer's rotate1) comes after the mode was set to off:
   the rotation creates nothing and drops the mapping ... *)
Theorem C02_rotation_under_off : forall (R : Type) (rlt : R -> R -> bool) (rzero : R)
    (expired : bool) (fs : fstate) (p : pstate),
  mode_of (fs_mode fs) = m_off ->
  let '(e, (fs', p')) := step R rlt rzero (OpRotate R expired) (fs, p) in
  forallb off_allowed e = true /\ fs' = fs /\ p' <> PMapped.
Proof. exact rotation_under_off. Qed.
Print Assumptions C02_rotation_under_off.

(* ... and from that rotation on every sequence of Open / Add / Run / further
   rotations is inert, from ANY process state *)
Theorem C02_off_from_rotation_on : forall (R : Type) (rlt : R -> R -> bool) (rzero : R)
    (expired : bool) (ops : list (op R)) (fs : fstate) (p : pstate),
  mode_of (fs_mode fs) = m_off -> Forall (keeps_off R) ops ->
  let '(e, (fs', p')) := exec R rlt rzero (OpRotate R expired :: ops) (fs, p) in
  forallb off_allowed e = true /\ mode_of (fs_mode fs') = m_off /\ fs_local fs' = fs_local fs /\
  (fs_upload fs' = fs_upload fs \/ (fs_upload fs = None /\ fs_upload fs' = Some [])) /\ p' <> PMapped.
Proof. exact off_from_rotation_on. Qed.
Print Assumptions C02_off_from_rotation_on.

(* a count file is created or mapped only at a step that read a mode other
   than off; it is written only through such a mapping *)
Theorem C02_mapping_needs_mode_not_off : forall (R : Type) (rlt : R -> R -> bool) (rzero : R)
    (o : op R) (fs : fstate) (p : pstate),
  let '(e, (fs', p')) := step R rlt rzero o (fs, p) in
  (In ECounterFile e -> mode_of (fs_mode fs) <> m_off) /\
  (In ECounterAdd e -> p = PMapped).
Proof. exact mapping_needs_mode_not_off. Qed.
Print Assumptions C02_mapping_needs_mode_not_off.

(* What does NOT hold (known finding recording-until-rotation): between the
   switch to off and its next rotation a process with a mapped file keeps
   recording -- Add does not read the mode. *)
Theorem C02_recording_until_rotation_refuted :
  let st := snd (exec Z Z.ltb 0 [OpOpen Z; OpSetMode Z (Some (s2b "off 2024-01-03"))] (wit_fs_local, PUnopened)) in
  mode_of (fs_mode (fst st)) = m_off /\
  fst (step Z Z.ltb 0 (OpAdd Z) st) = [ECounterAdd] /\
  fst (exec Z Z.ltb 0 [OpRotate Z true; OpAdd Z; OpAdd Z] st) = [EReadMode].
Proof. exact recording_until_rotation_refuted. Qed.
Print Assumptions C02_recording_until_rotation_refuted.

Theorem C02_off_allowed_are_reads : forall e, off_allowed e = true ->
  e = EReadDirLocal \/ e = EReadMode \/ (exists n, e = EReadCount n) \/ e = EReadDirUpload \/ e = EMkdirUpload.
Proof. exact off_allowed_are_reads. Qed.
Print Assumptions C02_off_allowed_are_reads.

(* an uninitialised telemetry.Default (empty mode-file path) reads as off *)
Theorem C02_no_path_is_off : forall file, dir_mode false file = (m_off, None).
Proof. exact no_path_is_off. Qed.
Print Assumptions C02_no_path_is_off.

(* ------------------------------------------------------------------ clause 5
   "any other value or an unreadable mode file behaves as local (reports
   built, nothing sent)" *)
Theorem C02_unreadable_is_local : parse_mode None = (m_local, None) /\ asof_of None = None.
Proof. exact unreadable_is_local. Qed.
Print Assumptions C02_unreadable_is_local.

Theorem C02_other_is_local : forall mode, mode <> m_on -> mode <> m_off ->
  (forall asof name, ready_report mode asof name = ready_report m_local asof name) /\
  (forall R rlt rzero asof start expiry earliest x rate,
      upload_ok R rlt rzero mode asof start expiry earliest x rate =
      upload_ok R rlt rzero m_local asof start expiry earliest x rate) /\
  beq mode m_off = beq m_local m_off.
Proof. exact decisions_other_is_local. Qed.
Print Assumptions C02_other_is_local.

(* the whole run: same effects and same resulting directories as with "local" *)
Theorem C02_other_is_local_run : forall (R : Type) (rlt : R -> R -> bool) (rzero : R)
    mode asof (cfg : runcfg R) (d : dirs),
  mode <> m_on -> mode <> m_off ->
  run_ma R rlt rzero mode asof cfg d = run_ma R rlt rzero m_local None cfg d.
Proof. exact other_is_local_run. Qed.
Print Assumptions C02_other_is_local_run.

(* reports built: the week's local report is written, no upload report, the
   count files are removed *)
Theorem C02_local_builds_local_report : forall (R : Type) (rlt : R -> R -> bool) (rzero : R)
    mode asof (cfg : runcfg R) l g,
  mode <> m_on ->
  existsb lf_counts (g_files g) = true ->
  local_has l (local_prefix ++ g_exp g ++ json_suffix) = false ->
  local_has l (g_exp g ++ json_suffix) = false ->
  let '(nm, e, l') := create_report R rlt rzero mode asof cfg l g in
  nm = None /\ In (ECreateLocal (local_prefix ++ g_exp g ++ json_suffix)) e /\
  ~ In (ECreateLocal (g_exp g ++ json_suffix)) e /\
  (forall f, In f (g_files g) -> In (ERemoveLocal (lf_name f)) e).
Proof. exact local_builds_local_report. Qed.
Print Assumptions C02_local_builds_local_report.

(* ------------------------------------------------------------------ clause 6
   "setting a valid mode then reading it back yields the same mode and date
   while an invalid mode is rejected leaving the file unchanged" *)
Theorem C02_set_mode_ok_iff : forall mode sec c,
  set_mode mode sec = SetOk c <->
  valid_mode (trim_space mode) = true /\ 0 <= year_of_sec sec <= 9999 /\
  c = (trim_space mode ++ [space] ++ fmt_date (sec / 86400))%list.
Proof. exact set_mode_ok_iff. Qed.
Print Assumptions C02_set_mode_ok_iff.

Theorem C02_set_get_roundtrip : forall mode sec file,
  valid_mode (trim_space mode) = true -> 0 <= year_of_sec sec <= 9999 ->
  exists c, set_mode_file mode sec file = (Some c, true) /\
            parse_mode (Some c) = (trim_space mode, Some (sec / 86400)).
Proof. exact set_mode_file_ok. Qed.
Print Assumptions C02_set_get_roundtrip.

Theorem C02_valid_mode_cases : forall m, valid_mode m = true <-> m = m_on \/ m = m_off \/ m = m_local.
Proof. exact valid_mode_cases. Qed.
Print Assumptions C02_valid_mode_cases.

Theorem C02_set_mode_invalid : forall mode sec file,
  valid_mode (trim_space mode) = false -> set_mode_file mode sec file = (file, false).
Proof. exact set_mode_invalid. Qed.
Print Assumptions C02_set_mode_invalid.

(* every error (invalid mode, year outside 0..9999) leaves the file alone *)
Theorem C02_set_mode_error_keeps_file : forall mode sec file,
  snd (set_mode_file mode sec file) = false -> fst (set_mode_file mode sec file) = file.
Proof. exact set_mode_error_keeps_file. Qed.
Print Assumptions C02_set_mode_error_keeps_file.

(* Format(DateOnly) followed by Parse(DateOnly) succeeds exactly for years 0..9999 *)
Theorem C02_fmt_parse_any_year : forall day,
  let '(y, _, _) := civil_from_days day in
  (0 <= y <= 9999 -> parse_date (go_fmt_date day) = Some day /\ go_fmt_date day = fmt_date day) /\
  (~ 0 <= y <= 9999 -> parse_date (go_fmt_date day) = None).
Proof. exact fmt_parse_any_year. Qed.
Print Assumptions C02_fmt_parse_any_year.

(* ------------------------------------------------------------------ ties to the source constants *)
Theorem C02_literals :
  (m_on = s2b "on" /\ m_off = s2b "off" /\ m_local = s2b "local" /\
   c_DateOnly = s2b "2006-01-02" /\ fmt_date zero_day = s2b "0001-01-01") /\
  (json_suffix = s2b ".json" /\ count_suffix = s2b ".v1.count" /\ local_prefix = s2b "local." /\
   lock_suffix = s2b ".lock") /\
  c_distantPast_ns = 21 * ns_per_day.
Proof. exact (conj literals_mode (conj literals_gating distant_past_21d)). Qed.
Print Assumptions C02_literals.

(* ------------------------------------------------------------------ non-vacuity *)
(* a run in mode on that sends: week 2024-01-07, opt-in 2023-12-30, start 2024-01-10 *)
Definition ex_day (y m d : Z) : Z := days_from_civil y m d.
Definition ex_fs (mode : string) : fstate :=
  {| fs_mode := Some (s2b mode);
     fs_local := Some [ {| lf_name := s2b "prog@v1-go1.23-linux-amd64-2024-01-02.v1.count";
                           lf_span := Some (day_ns (ex_day 2024 1 2), day_ns (ex_day 2024 1 7));
                           lf_counts := true |};
                        {| lf_name := s2b "2023-12-31.json"; lf_span := None; lf_counts := false |} ];
     fs_upload := None |}.
Definition ex_cfg : runcfg Z :=
  {| rc_start := day_ns (ex_day 2024 1 10) + 3600 * 1000000000; rc_x := fun _ => 5; rc_rate := 0; rc_resp := fun _ => 200 |}.

Example C02_example_on :
  posts_of (fst (run Z Z.ltb 0 ex_cfg (ex_fs "on 2023-12-30"))) = [s2b "2023-12-31"; s2b "2024-01-07"] /\
  sentinel_involved (ex_fs "on 2023-12-30") = false /\
  spec_post_allowed Z Z.ltb 0 ex_cfg (ex_fs "on 2023-12-30") (s2b "2024-01-07") = true.
Proof. vm_compute. repeat split; reflexivity. Qed.

(* opt-in on the begin day itself: the week is built as a local report only,
   the left-over report dated the day after the opt-in date is still sent *)
Example C02_example_asof_eq_begin :
  posts_of (fst (run Z Z.ltb 0 ex_cfg (ex_fs "on 2024-01-02"))) = [] /\
  posts_of (fst (run Z Z.ltb 0 ex_cfg (ex_fs "on 2024-01-01"))) = [s2b "2024-01-07"].
Proof. vm_compute. split; reflexivity. Qed.

(* two programs in one week, the one listed first began later (2024-01-04) than
   the other (2024-01-02): an opt-in date of 2024-01-02 or 2024-01-03 keeps the
   week local, whichever file is listed first *)
Definition ex_fs2 (mode : string) (swap : bool) : fstate :=
  let a := {| lf_name := s2b "aaa@v1-go1.23-linux-amd64-2024-01-04.v1.count";
              lf_span := Some (day_ns (ex_day 2024 1 4), day_ns (ex_day 2024 1 7)); lf_counts := true |} in
  let z := {| lf_name := s2b "zzz@v1-go1.23-linux-amd64-2024-01-02.v1.count";
              lf_span := Some (day_ns (ex_day 2024 1 2), day_ns (ex_day 2024 1 7)); lf_counts := true |} in
  {| fs_mode := Some (s2b mode); fs_local := Some (if swap then [z; a] else [a; z]); fs_upload := None |}.
Example C02_example_two_programs :
  posts_of (fst (run Z Z.ltb 0 ex_cfg (ex_fs2 "on 2024-01-03" false))) = [] /\
  posts_of (fst (run Z Z.ltb 0 ex_cfg (ex_fs2 "on 2024-01-03" true))) = [] /\
  posts_of (fst (run Z Z.ltb 0 ex_cfg (ex_fs2 "on 2024-01-02" false))) = [] /\
  posts_of (fst (run Z Z.ltb 0 ex_cfg (ex_fs2 "on 2024-01-01" false))) = [s2b "2024-01-07"] /\
  spec_post_allowed Z Z.ltb 0 ex_cfg (ex_fs2 "on 2024-01-03" false) (s2b "2024-01-07") = false.
Proof. vm_compute. repeat split; reflexivity. Qed.

Example C02_example_local_and_off :
  posts_of (fst (run Z Z.ltb 0 ex_cfg (ex_fs "local 2023-12-30"))) = [] /\
  existsb (fun e => match e with ECreateLocal _ => true | _ => false end)
          (fst (run Z Z.ltb 0 ex_cfg (ex_fs "local 2023-12-30"))) = true /\
  fst (run Z Z.ltb 0 ex_cfg (ex_fs "off 2023-12-30")) =
    [EReadDirLocal; EReadMode; EReadCount (s2b "prog@v1-go1.23-linux-amd64-2024-01-02.v1.count");
     EReadDirUpload; EMkdirUpload; EReadMode] /\
  fst (run Z Z.ltb 0 ex_cfg (ex_fs "ON")) = fst (run Z Z.ltb 0 ex_cfg (ex_fs "local")).
Proof. vm_compute. repeat split; reflexivity. Qed.

(* 21 days to the nanosecond *)
Example C02_example_21_days :
  too_old (s2b "2024-01-07") (day_ns (ex_day 2024 1 28)) = false /\
  too_old (s2b "2024-01-07") (day_ns (ex_day 2024 1 28) + 1) = true /\
  too_old (s2b "not a date") (day_ns (ex_day 2024 1 28) + 1) = false.
Proof. vm_compute. repeat split; reflexivity. Qed.

Example C02_example_mode_files :
  parse_mode (Some (s2b "on 2024-01-05")) = (m_on, Some (ex_day 2024 1 5)) /\
  parse_mode (Some (s2b " off  2024-01-05
")) = (m_off, None) /\
  parse_mode (Some (s2b "on 2024-02-30")) = (m_on, None) /\
  parse_mode (Some (s2b "ON")) = (s2b "ON", None) /\
  set_mode (s2b " local ") (86400 * ex_day 2024 2 29 + 5) = SetOk (s2b "local 2024-02-29") /\
  set_mode (s2b "ON") 0 = SetErrMode /\
  set_mode (s2b "on") (86400 * ex_day 10000 1 1) = SetErrDate /\
  set_mode (s2b "on") (86400 * ex_day (-1) 12 31) = SetErrDate /\
  year_of_sec (86400 * ex_day 9999 12 31 + 86399) = 9999.
Proof. vm_compute. repeat split; reflexivity. Qed.

(* white space other than one space after the word: not on, so nothing is sent
   and the week is built as a local report *)
Example C02_example_ws_separators :
  index_byte m_on space = None /\
  mode_of (Some (s2b "on	2024-01-01")) <> m_on /\
  mode_of (Some (s2b "on
2024-01-01")) <> m_on /\
  mode_of (Some (m_on ++ [13; 10]%N ++ s2b "# comment")%list) <> m_on /\
  mode_of (Some (m_on ++ [194; 160]%N ++ s2b "2024-01-01")%list) <> m_on /\
  mode_of (Some (m_on ++ [9]%N)%list) = m_on /\
  mode_of (Some (s2b "on 	2024-01-01")) = m_on /\
  posts_of (fst (run Z Z.ltb 0 ex_cfg (ex_fs "on	2023-12-30"))) = [] /\
  fst (run Z Z.ltb 0 ex_cfg (ex_fs "on	2023-12-30")) = fst (run Z Z.ltb 0 ex_cfg (ex_fs "local")).
Proof. vm_compute. repeat split; try reflexivity; discriminate. Qed.
