From Coq Require Import List ZArith NArith Bool.
From Tele Require Import Lib.Bytes Lib.Calendar Model.Mode Model.Gating.
Theorem C02_stub : True. Proof. exact I. Qed.
Print Assumptions C02_stub.
