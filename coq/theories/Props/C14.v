(* C14  Crash reports reach telemetry only as program counters.
   This file holds only statements; every proof is `exact <lemma>`.

   Model: Model/Crash.v.  counter_name symb child crash mirrors
   telemetryCounterName(crash) run in a process whose sentinel() is child;
   symb is the runtime symboliser used by counter.EncodeStack (a parameter:
   every theorem holds for every symboliser).  view crash is the projection
   (sentinel, [(pc, follows runtime.sigpanic)] of the first running goroutine),
   defined in phases independently of the parser's loop. *)
From Coq Require Import List ZArith NArith Bool.
From Tele Require Import Lib.Bytes Lib.Digits Gen.Consts Model.Stack Model.Crash Proofs.StackFacts Proofs.CrashFacts.
Import ListNotations.
Open Scope N_scope.

(* ---- "For every crash text the monitor receives, deriving the counter name
   terminates without panicking and yields an error, a fixed name, or the crash
   prefix followed by at most 16 frames": counter_name is a total function of
   every byte string (structural recursion, no fuel), and *)
Theorem C14_total :
  forall (symb : list N -> list frame) (child : N) (crash : bytes),
  counter_name symb child crash = Err \/ exists name, counter_name symb child crash = Ok name.
Proof. exact total. Qed.
Print Assumptions C14_total.

Theorem C14_shape :
  forall (symb : list N -> list frame) (child : N) (crash name : bytes),
  counter_name symb child crash = Ok name ->
  name = lit_no_running \/
  exists pcs, pcs <> [] /\ (length pcs <= 16)%nat /\ name = encode_frames c_crash_prefix (symb pcs).
Proof. exact shape. Qed.
Print Assumptions C14_shape.

(* ---- "the frames name the functions on the crashing goroutine's stack": the
   name, expanded by DecodeStack, is the uncompressed rendering - one line
   Function:line,+0xoffset per frame - of the frames the symboliser reports
   for those (at most 16) pcs, whenever it is not truncated.  Premise on the
   symboliser: function names have no newline and no lone-ditto package path.
   (Which pcs a genuine traceback yields is the runtime's business: tested.) *)
Theorem C14_name_lists_frames :
  forall (symb : list N -> list frame) (child : N) (crash name : bytes),
  (forall p, Forall (fun f => fn_roundtrips (fr_func f) = true) (symb p)) ->
  counter_name symb child crash = Ok name ->
  name = lit_no_running \/
  exists pcs, pcs <> [] /\ (length pcs <= 16)%nat /\
    name = encode_frames c_crash_prefix (symb pcs) /\
    (is_truncated c_crash_prefix (symb pcs) = false ->
     decode_stack name = render_plain c_crash_prefix (symb pcs)).
Proof. exact name_lists_frames. Qed.
Print Assumptions C14_name_lists_frames.

(* ---- "never longer than the counter-name size limit" (uses C15's bound) *)
Theorem C14_length_bound :
  forall (symb : list N -> list frame) (child : N) (crash name : bytes),
  counter_name symb child crash = Ok name -> N.of_nat (length name) <= 4096.
Proof. exact name_length. Qed.
Print Assumptions C14_length_bound.

(* ---- "The name depends only on the sentinel, the program counters of the
   first running goroutine and whether a frame follows the runtime's
   signal-panic frame": the result is EXACTLY a function of the projection,
   for all byte strings: finish never looks at the text. *)
Theorem C14_factorisation :
  forall (symb : list N -> list frame) (child : N) (crash : bytes),
  counter_name symb child crash = finish symb child (view crash).
Proof. exact counter_name_factor. Qed.
Print Assumptions C14_factorisation.

Theorem C14_noninterference :
  forall (symb : list N -> list frame) (child : N) (c1 c2 : bytes),
  view c1 = view c2 -> counter_name symb child c1 = counter_name symb child c2.
Proof. exact noninterference. Qed.
Print Assumptions C14_noninterference.

(* the property's own wording: "changing any other text ... leaves the name
   unchanged or turns the result into an error" *)
Theorem C14_noninterference_as_stated :
  forall (symb : list N -> list frame) (child : N) (c1 c2 : bytes),
  view c1 = view c2 ->
  counter_name symb child c1 = counter_name symb child c2 \/
  is_err (counter_name symb child c1) = true \/ is_err (counter_name symb child c2) = true.
Proof. exact noninterference_weak. Qed.
Print Assumptions C14_noninterference_as_stated.

(* the error case is itself determined by the projection (it is undefined) *)
Theorem C14_error_iff_no_view :
  forall (symb : list N -> list frame) (child : N) (c : bytes),
  is_err (counter_name symb child c) = true <-> view c = None.
Proof. exact error_iff_no_view. Qed.
Print Assumptions C14_error_iff_no_view.

(* of the projection only the first 16 frames matter *)
Theorem C14_only_first_16_frames :
  forall (symb : list N -> list frame) (child s : N) (fs1 fs2 : list (N * bool)),
  firstn 16 fs1 = firstn 16 fs2 ->
  finish symb child (Some (s, fs1)) = finish symb child (Some (s, fs2)).
Proof. exact finish_cap. Qed.
Print Assumptions C14_only_first_16_frames.

(* ---- "changing any other text of the report (messages, arguments, file
   paths, other symbol names, other goroutines) leaves the name unchanged":
   text-level statements that do not mention the projection.
   (1) Two reports with the same number of lines whose lines agree pairwise on
       line_class = (starts with "sentinel ", scanned sentinel value, is a running
       goroutine header, is blank / "created by ", the symbol before the argument
       list IS runtime.sigpanic (only this bit of the symbol), parsed pc= value)
       get the same result: messages, argument text, file paths, everything
       before " pc=", and every symbol name other than runtime.sigpanic are
       invisible. *)
Theorem C14_linewise_noninterference :
  forall (symb : list N -> list frame) (child : N) (c1 c2 : bytes),
  Forall2 (fun a b => line_class a = line_class b) (split_byte c1 10) (split_byte c2 10) ->
  counter_name symb child c1 = counter_name symb child c2.
Proof. exact linewise_noninterference. Qed.
Print Assumptions C14_linewise_noninterference.

(* (2) Once the header of the first running goroutine lies in head, whatever
       follows the blank line that ends its stack (all other goroutines) is
       invisible. *)
Theorem C14_other_goroutines_irrelevant :
  forall (symb : list N -> list frame) (child : N) (head tail1 tail2 : bytes) (s : N) (after : list bytes),
  preamble 0 (split_byte head 10) = PRun s after ->
  counter_name symb child (head ++ [10; 10] ++ tail1) = counter_name symb child (head ++ [10; 10] ++ tail2).
Proof. exact other_goroutines_irrelevant. Qed.
Print Assumptions C14_other_goroutines_irrelevant.

(* ---- the monitor PROCESS (crashmonitor.Child): it reads all of its standard
   input; what it counts is the counter name of that whole text, so it depends
   on the report only through the projection - not, e.g., on the length of a
   panic message that precedes the goroutine stacks. *)
Theorem C14_child_counts_counter_name :
  forall (symb : list N -> list frame) (child : N) (stdin name : bytes),
  monitor_child symb child stdin = Counted name <->
  ((2 <= count_newlines stdin)%nat /\ counter_name symb child stdin = Ok name).
Proof. exact child_counts_counter_name. Qed.
Print Assumptions C14_child_counts_counter_name.
Theorem C14_child_noninterference :
  forall (symb : list N -> list frame) (child : N) (c1 c2 : bytes),
  view c1 = view c2 -> (2 <= count_newlines c1)%nat -> (2 <= count_newlines c2)%nat ->
  monitor_child symb child c1 = monitor_child symb child c2.
Proof. exact child_noninterference. Qed.
Print Assumptions C14_child_noninterference.

(* program counters handed to the symboliser are 64-bit values *)
Theorem C14_pcs_are_64bit :
  forall (child : N) (crash : bytes) (pcs : list N),
  parse_stack_pcs child crash = Ok pcs -> Forall (fun pc => pc < 18446744073709551616) pcs.
Proof. exact pcs_are_64bit. Qed.
Print Assumptions C14_pcs_are_64bit.

(* the constants quoted above are those of the source *)
Theorem C14_constants :
  c_crash_prefix = [99; 114; 97; 115; 104; 47; 99; 114; 97; 115; 104] (* crash/crash *) /\ c_maxNameLen = 4096.
Proof. exact (conj eq_refl eq_refl). Qed.
Print Assumptions C14_constants.

(* Non-vacuity.  Report 1 (<TAB> = byte 9):
     | sentinel 1000
     | panic: secret
     | 
     | goroutine 1 [running]:
     | panic({0x1, 0x2})
     | <TAB>/go/panic.go:1 +0x10 fp=0x1 sp=0x2 pc=0x1100
     | runtime.sigpanic()
     | <TAB>/go/sig.go:2 +0x20 pc=0x1200
     | main.f(...)
     | <TAB>/src/f.go:3
     | main.g(0x5)
     | <TAB>/home/alice/g.go:4 +0x30 pc=0x1300
     | 
     | goroutine 2 [sleep]:
     | other.h()
     | <TAB>/x.go:1 pc=0x9999
     | 
   Report 2 - every message, argument, path, symbol (except runtime.sigpanic),
   header field and trailing goroutine differs, pcs re-spelt:
     | junk line
     | sentinel   1000 trailing
     | goroutine 77 gp=0xdead [running]: x
     | q.[ptr T].m(secret)   [a pointer-receiver method symbol in the real text]
     | <TAB>zzz pc=4352
     | runtime.sigpanic(1,2,3)
     | <TAB> pc=0x1_200
     | a.b(
     | <TAB>no pc here
     | c.d()
     | <TAB>C:\Users\bob pc=0b1001100000000
     | created by foo
     | whatever pc=0x1
   Both have the projection (0x1000, [(0x1100,no); (0x1200,no); (0x1300,after sigpanic)]);
   in a process whose sentinel is 0x2000 the pcs are 0x2100, 0x2200, 0x2301. *)
Definition ex_report1 : bytes :=
  [115; 101; 110; 116; 105; 110; 101; 108; 32; 49; 48; 48; 48; 10; 112; 97; 110; 105; 99; 58; 32; 115; 101; 99;
     114; 101; 116; 10; 10; 103; 111; 114; 111; 117; 116; 105; 110; 101; 32; 49; 32; 91; 114; 117; 110; 110; 105; 110;
     103; 93; 58; 10; 112; 97; 110; 105; 99; 40; 123; 48; 120; 49; 44; 32; 48; 120; 50; 125; 41; 10; 9; 47;
     103; 111; 47; 112; 97; 110; 105; 99; 46; 103; 111; 58; 49; 32; 43; 48; 120; 49; 48; 32; 102; 112; 61; 48;
     120; 49; 32; 115; 112; 61; 48; 120; 50; 32; 112; 99; 61; 48; 120; 49; 49; 48; 48; 10; 114; 117; 110; 116;
     105; 109; 101; 46; 115; 105; 103; 112; 97; 110; 105; 99; 40; 41; 10; 9; 47; 103; 111; 47; 115; 105; 103; 46;
     103; 111; 58; 50; 32; 43; 48; 120; 50; 48; 32; 112; 99; 61; 48; 120; 49; 50; 48; 48; 10; 109; 97; 105;
     110; 46; 102; 40; 46; 46; 46; 41; 10; 9; 47; 115; 114; 99; 47; 102; 46; 103; 111; 58; 51; 10; 109; 97;
     105; 110; 46; 103; 40; 48; 120; 53; 41; 10; 9; 47; 104; 111; 109; 101; 47; 97; 108; 105; 99; 101; 47; 103;
     46; 103; 111; 58; 52; 32; 43; 48; 120; 51; 48; 32; 112; 99; 61; 48; 120; 49; 51; 48; 48; 10; 10; 103;
     111; 114; 111; 117; 116; 105; 110; 101; 32; 50; 32; 91; 115; 108; 101; 101; 112; 93; 58; 10; 111; 116; 104; 101;
     114; 46; 104; 40; 41; 10; 9; 47; 120; 46; 103; 111; 58; 49; 32; 112; 99; 61; 48; 120; 57; 57; 57; 57;
     10].
Definition ex_report2 : bytes :=
  [106; 117; 110; 107; 32; 108; 105; 110; 101; 10; 115; 101; 110; 116; 105; 110; 101; 108; 32; 32; 32; 49; 48; 48;
     48; 32; 116; 114; 97; 105; 108; 105; 110; 103; 10; 103; 111; 114; 111; 117; 116; 105; 110; 101; 32; 55; 55; 32;
     103; 112; 61; 48; 120; 100; 101; 97; 100; 32; 91; 114; 117; 110; 110; 105; 110; 103; 93; 58; 32; 120; 10; 113;
     46; 40; 42; 84; 41; 46; 109; 40; 115; 101; 99; 114; 101; 116; 41; 10; 9; 122; 122; 122; 32; 112; 99; 61;
     52; 51; 53; 50; 10; 114; 117; 110; 116; 105; 109; 101; 46; 115; 105; 103; 112; 97; 110; 105; 99; 40; 49; 44;
     50; 44; 51; 41; 10; 9; 32; 112; 99; 61; 48; 120; 49; 95; 50; 48; 48; 10; 97; 46; 98; 40; 10; 9;
     110; 111; 32; 112; 99; 32; 104; 101; 114; 101; 10; 99; 46; 100; 40; 41; 10; 9; 67; 58; 92; 85; 115; 101;
     114; 115; 92; 98; 111; 98; 32; 112; 99; 61; 48; 98; 49; 48; 48; 49; 49; 48; 48; 48; 48; 48; 48; 48;
     48; 10; 99; 114; 101; 97; 116; 101; 100; 32; 98; 121; 32; 102; 111; 111; 10; 119; 104; 97; 116; 101; 118; 101;
     114; 32; 112; 99; 61; 48; 120; 49].
Example C14_example_view :
  view ex_report1 = Some (4096, [(4352, false); (4608, false); (4864, true)]) /\
  view ex_report2 = view ex_report1 /\ ex_report1 <> ex_report2 /\
  parse_stack_pcs 8192 ex_report1 = Ok [8448; 8704; 8961] /\
  parse_stack_pcs 8192 ex_report2 = Ok [8448; 8704; 8961].
Proof. repeat split; try (vm_compute; reflexivity). vm_compute. discriminate. Qed.

(* a running goroutine before any sentinel: error; no running goroutine: the fixed name *)
Definition ex_report3 : bytes :=
  [103; 111; 114; 111; 117; 116; 105; 110; 101; 32; 49; 32; 91; 114; 117; 110; 110; 105; 110; 103; 93; 58; 10; 109;
     97; 105; 110; 46; 102; 40; 41; 10; 9; 47; 120; 46; 103; 111; 58; 49; 32; 112; 99; 61; 48; 120; 49; 10].
Definition ex_report4 : bytes :=
  [115; 101; 110; 116; 105; 110; 101; 108; 32; 49; 102; 10; 103; 111; 114; 111; 117; 116; 105; 110; 101; 32; 49; 32;
     91; 115; 108; 101; 101; 112; 93; 58; 10; 109; 97; 105; 110; 46; 102; 40; 41; 10; 9; 47; 120; 46; 103; 111;
     58; 49; 32; 112; 99; 61; 48; 120; 49; 10].
Example C14_example_error_and_fixed :
  (forall symb, counter_name symb 8192 ex_report3 = Err) /\
  (forall symb, counter_name symb 8192 ex_report4 = Ok lit_no_running) /\
  (forall symb, counter_name symb 8192 [] = Ok lit_no_running).
Proof. repeat split; intro symb; vm_compute; reflexivity. Qed.
