(* C19  gotelemetry mode commands and clean touch exactly what they promise.
   This file holds only statements; every proof is `exact <lemma>`.

   The telemetry directory is a tree (Model/Cli: a node is a file with its
   bytes or a directory with named entries, nested to any depth; `None` = the
   directory does not exist).  `cli_clean` mirrors runClean, `cli_mode_cmd`
   mirrors runOn/runLocal/runOff + Dir.Mode + Dir.SetModeAsOf, `cli_run_all`
   runs a history of commands, each on its own date. *)
From Coq Require Import List ZArith NArith Bool.
From Tele Require Import Lib.Bytes Lib.Calendar Gen.Consts Model.Cli Proofs.CliFacts.
Import ListNotations.
From Coq Require Import String. Open Scope string_scope. Open Scope list_scope.

(* ------------------------------------------------------------- clean *)

(* All trees.  A path is a target when it is <local|upload>/<name>, the name
   ends in one of the directory's suffixes (local: "." FileVersion ".count" and
   ".json"; upload: ".json") and the entry is a file or an empty directory
   (what os.Remove can delete).  Every target is gone afterwards; every other
   path of any depth -- the mode file, weekends, upload.token, *.lock, debug/,
   foreign files, near-miss names, the contents of sub-directories -- is
   observed exactly as before (same kind, same bytes). *)
Theorem C19_clean_removes_exactly : forall t, data_names_unique t -> forall p,
  (cli_targetb t p = true -> lookup p (cli_clean t) = None) /\
  (cli_targetb t p = false -> observe p (cli_clean t) = observe p t).
Proof. exact clean_path_exact. Qed.
Print Assumptions C19_clean_removes_exactly.

(* Without the uniqueness premise: whatever is still found under a selected
   name in a data directory is a directory that has entries. *)
Theorem C19_clean_leaves_no_target : forall t d sufs name n,
  data_dir_sufs d = Some sufs ->
  lookup [d; name] (cli_clean t) = Some n -> has_any_suffix name sufs = true ->
  removable n = false.
Proof. exact clean_leaves_no_target. Qed.
Print Assumptions C19_clean_leaves_no_target.

(* Entry-level form (no premise; nodes compared with their whole contents):
   a data directory's entries afterwards are exactly its entries before that
   are not (selected and removable); every other first-level entry, and a
   data-directory name that is a file, is untouched. *)
Theorem C19_clean_entries_exact : forall es d,
  match data_dir_sufs d, assoc d es with
  | Some sufs, Some (Dir sub) =>
      exists sub', assoc d (ents (cli_clean (Some es))) = Some (Dir sub') /\
                   forall e, In e sub' <-> In e sub /\ cli_doomed sufs e = false
  | _, o => assoc d (ents (cli_clean (Some es))) = o
  end.
Proof. exact clean_entries_exact. Qed.
Print Assumptions C19_clean_entries_exact.

(* "does not affect the current telemetry mode" *)
Theorem C19_clean_keeps_mode : forall t, cli_read_mode (cli_clean t) = cli_read_mode t.
Proof. exact clean_keeps_mode. Qed.
Print Assumptions C19_clean_keeps_mode.

Theorem C19_clean_idempotent : forall t, cli_clean (cli_clean t) = cli_clean t.
Proof. exact clean_idempotent. Qed.
Print Assumptions C19_clean_idempotent.

(* ---------------------------------------------------- on / local / off *)

(* All trees, all sequences of mode commands (any length, each with its own
   date): every path other than <dir>/mode leads to the same node, with its
   whole contents, as before. *)
Theorem C19_mode_cmd_frame : forall ms t p, p <> [n_mode] ->
  lookup p (cli_run_all (mode_cmds ms) t) = lookup p t.
Proof. exact mode_cmds_frame. Qed.
Print Assumptions C19_mode_cmd_frame.

(* Mode already the requested one (what Dir.Mode reads: missing or unreadable
   file = "local"; otherwise the trimmed content up to its first space): the
   tree, including the recorded date, is unchanged and the command succeeds. *)
Theorem C19_mode_cmd_noop : forall c today t,
  fst (cli_read_mode t) = mode_str c -> cli_mode_cmd c today t = (t, true).
Proof. exact mode_cmd_noop. Qed.
Print Assumptions C19_mode_cmd_noop.

(* Otherwise (dates of years 0000..9999) the command succeeds and a later read
   gives the requested mode with today's date -- unless the mode path is a
   directory. *)
Theorem C19_mode_cmd_sets : forall c today t, in_date_range today ->
  fst (cli_read_mode t) <> mode_str c -> mode_is_dir t = false ->
  snd (cli_mode_cmd c today t) = true /\
  cli_read_mode (fst (cli_mode_cmd c today t)) = (mode_str c, Some today).
Proof. exact mode_cmd_sets. Qed.
Print Assumptions C19_mode_cmd_sets.

(* The written bytes read back (Dir.Mode's parse of what SetModeAsOf formats). *)
Theorem C19_mode_file_roundtrip : forall c today, in_date_range today ->
  cli_mode_parse (mode_file_bytes (mode_str c) today) = (mode_str c, Some today).
Proof. exact mode_file_roundtrip. Qed.
Print Assumptions C19_mode_file_roundtrip.

(* After every successful mode command the mode that is read is the requested
   one. *)
Theorem C19_mode_cmd_reports : forall c today t, in_date_range today ->
  snd (cli_mode_cmd c today t) = true ->
  fst (cli_read_mode (fst (cli_mode_cmd c today t))) = mode_str c.
Proof. exact mode_cmd_reports. Qed.
Print Assumptions C19_mode_cmd_reports.

(* The only failing case: the mode path is a directory (Mode() then reads the
   default "local", so `local` is a no-op and on/off report the write error);
   nothing changes. *)
Theorem C19_mode_cmd_fails_iff : forall c today t, in_date_range today ->
  (snd (cli_mode_cmd c today t) = false <-> mode_is_dir t = true /\ c <> Local).
Proof. exact mode_cmd_fails_iff. Qed.
Print Assumptions C19_mode_cmd_fails_iff.

Theorem C19_mode_cmd_failure_inert : forall c today t, in_date_range today ->
  snd (cli_mode_cmd c today t) = false -> fst (cli_mode_cmd c today t) = t.
Proof. exact mode_cmd_failure_inert. Qed.
Print Assumptions C19_mode_cmd_failure_inert.

(* ---------------------------------------------- instants and time zones *)

(* The commands run at an instant (Unix seconds) in a process with a local
   zone `off` seconds east of UTC (Model/Cli: cli_run_at).  The zone has no
   influence ... *)
Theorem C19_zone_independent : forall c now off1 off2 t,
  cli_run_at c now off1 t = cli_run_at c now off2 t.
Proof. exact run_at_zone_independent. Qed.
Print Assumptions C19_zone_independent.

(* ... the date a writing mode command records, and a later read reports, is
   the UTC date of the instant (instants of years 0000..9999), in every zone,
   including the hours at which the local calendar date is another one. *)
Theorem C19_mode_cmd_records_utc_date : forall m now off t, in_instant_range now ->
  fst (cli_read_mode t) <> mode_str m -> mode_is_dir t = false ->
  snd (cli_run_at (CMode m) now off t) = true /\
  cli_read_mode (fst (cli_run_at (CMode m) now off t)) = (mode_str m, Some (now / 86400)%Z).
Proof. exact mode_cmd_records_utc_date. Qed.
Print Assumptions C19_mode_cmd_records_utc_date.

Theorem C19_oracle_accepts_model_at : forall c now off t, in_instant_range now -> root_names_unique t ->
  dir_diff_ok c (utc_day now) t (fst (cli_run_at c now off t)) (snd (cli_run_at c now off t)) = true.
Proof. exact oracle_accepts_model_at. Qed.
Print Assumptions C19_oracle_accepts_model_at.

(* UTC-12 at 00:00 UTC and UTC+14 at 10:00 UTC: the local date is not the UTC date *)
Example C19_example_date_line :
  local_day 0 (-43200) <> utc_day 0 /\ local_day 36000 50400 <> utc_day 36000.
Proof. exact local_date_differs. Qed.

(* ---------------------------------------------- temporary directory *)

(* The process environment's TMPDIR (unset, same file system, ANOTHER file
   system, missing, not a directory) has no influence (Model/Cli: cli_run_env):
   the footprint of a command is the telemetry tree only ... *)
Theorem C19_tmpdir_independent : forall c now off tmp1 tmp2 t,
  cli_run_env c now off tmp1 t = cli_run_env c now off tmp2 t.
Proof. exact run_env_tmpdir_independent. Qed.
Print Assumptions C19_tmpdir_independent.

(* ... in particular a mode command that has to write succeeds and is read
   back, wherever TMPDIR points. *)
Theorem C19_mode_cmd_sets_any_tmpdir : forall m now off tmp t, in_instant_range now ->
  fst (cli_read_mode t) <> mode_str m -> mode_is_dir t = false ->
  snd (cli_run_env (CMode m) now off tmp t) = true /\
  cli_read_mode (fst (cli_run_env (CMode m) now off tmp t)) = (mode_str m, Some (now / 86400)%Z).
Proof. exact mode_cmd_sets_any_tmpdir. Qed.
Print Assumptions C19_mode_cmd_sets_any_tmpdir.

(* ------------------------------------------------------ no directory *)

(* When os.UserConfigDir() fails the commands have no directory (the zero Dir):
   the model (cli_run_nodir) has no tree to change - nothing may be touched
   anywhere, which the suite checks on the working directory - the mode in force
   is "off", and a mode command succeeds exactly when it asks for that. *)
Theorem C19_nodir_mode_cmd_ok : forall m, cli_run_nodir (CMode m) = true <-> mode_str m = lit_off.
Proof. exact nodir_mode_cmd_ok. Qed.
Print Assumptions C19_nodir_mode_cmd_ok.

(* ------------------------------------ histories of all five commands *)

(* In any history of on/local/off/clean/env the mode path evolves exactly as
   if only the mode commands had run ... *)
Theorem C19_history_mode_path : forall cs t,
  mode_entry (cli_run_all cs t) = mode_entry (cli_run_all (filter is_mode_cmd cs) t).
Proof. exact history_mode_path_same. Qed.
Print Assumptions C19_history_mode_path.

(* ... and every other path exactly as if only the clean commands had run. *)
Theorem C19_history_other_paths : forall cs t p, p <> [n_mode] ->
  lookup p (cli_run_all cs t) =
  lookup p (cli_run_all (filter (fun cz => negb (is_mode_cmd cz)) cs) t).
Proof. exact history_other_paths_same. Qed.
Print Assumptions C19_history_other_paths.

(* ------------------------------------------------------ the oracle *)

(* The executable oracle the correspondence suite evaluates on the real
   before/after snapshots accepts the model's own behaviour ... *)
Theorem C19_oracle_accepts_model : forall c today t, in_date_range today -> root_names_unique t ->
  dir_diff_ok c today t (fst (cli_run c today t)) (snd (cli_run c today t)) = true.
Proof. exact oracle_accepts_model. Qed.
Print Assumptions C19_oracle_accepts_model.

(* ... and its verdicts mean what they should. *)
Theorem C19_oracle_clean_sound : forall sufs before after, clean_dir_ok sufs before after = true ->
  forall e, In e after <-> In e before /\ cli_doomed sufs e = false.
Proof. exact clean_dir_ok_sound. Qed.
Print Assumptions C19_oracle_clean_sound.

Theorem C19_oracle_clean_root_sound : forall before after, clean_root_ok before after = true ->
  (forall k v, In (k, v) before ->
     match data_dir_sufs k, v with
     | Some sufs, Dir sub =>
         exists sub', assoc k after = Some (Dir sub') /\
                      forall e, In e sub' <-> In e sub /\ cli_doomed sufs e = false
     | _, _ => In (k, v) after
     end) /\
  (forall k v, In (k, v) after -> has_name k before = true).
Proof. exact clean_root_ok_sound. Qed.
Print Assumptions C19_oracle_clean_root_sound.

Theorem C19_oracle_mode_frame_sound : forall before after, others_same before after = true ->
  forall e, fst e <> n_mode -> (In e before <-> In e after).
Proof. exact others_same_sound. Qed.
Print Assumptions C19_oracle_mode_frame_sound.

(* ------------------------------------------------------ non-vacuity *)

(* the patterns, from the source's constants *)
Example C19_example_patterns :
  cli_local_sufs = [s2b ".v1.count"; s2b ".json"] /\ cli_upload_sufs = [s2b ".json"] /\
  data_dir_sufs (s2b "local") = Some cli_local_sufs /\ data_dir_sufs (s2b "upload") = Some cli_upload_sufs /\
  data_dir_sufs (s2b "debug") = None.
Proof. repeat split; vm_compute; reflexivity. Qed.

Definition ex_tree : tree := Some
  [ (s2b "mode", File (s2b "on 2024-01-05"));
    (s2b "local", Dir [ (s2b "gopls-2024-01-05.v1.count", File [1%N; 2%N]);
                        (s2b "local.2024-01-05.json", File (s2b "{}"));
                        (s2b "x.json.bak", File (s2b "keep"));
                        (s2b "a.v2.count", File (s2b "keep"));
                        (s2b "weekends", File (s2b "3"));
                        (s2b "upload.token", File []);
                        (s2b "empty.json", Dir []);
                        (s2b "full.json", Dir [ (s2b "inner.json", File (s2b "keep")) ]) ]);
    (s2b "upload", Dir [ (s2b "2024-01-05.json", File (s2b "{}"));
                         (s2b "stray.v1.count", File (s2b "keep")) ]);
    (s2b "debug", Dir [ (s2b "x.json", File (s2b "keep")) ]);
    (s2b "notes.json", File (s2b "keep")) ].

Example C19_example_clean :
  cli_clean ex_tree = Some
  [ (s2b "mode", File (s2b "on 2024-01-05"));
    (s2b "local", Dir [ (s2b "x.json.bak", File (s2b "keep"));
                        (s2b "a.v2.count", File (s2b "keep"));
                        (s2b "weekends", File (s2b "3"));
                        (s2b "upload.token", File []);
                        (s2b "full.json", Dir [ (s2b "inner.json", File (s2b "keep")) ]) ]);
    (s2b "upload", Dir [ (s2b "stray.v1.count", File (s2b "keep")) ]);
    (s2b "debug", Dir [ (s2b "x.json", File (s2b "keep")) ]);
    (s2b "notes.json", File (s2b "keep")) ] /\
  data_names_unique ex_tree /\
  cli_targetb ex_tree [s2b "local"; s2b "empty.json"] = true /\
  cli_targetb ex_tree [s2b "local"; s2b "full.json"] = false.
Proof.
  split; [vm_compute; reflexivity|]. split; [|split; vm_compute; reflexivity].
  intros d sub Hd L. unfold data_dir_sufs in Hd.
  destruct (beq d n_local) eqn:E1; [apply beq_eq in E1; subst d|
    destruct (beq d n_upload) eqn:E2; [apply beq_eq in E2; subst d | contradiction]];
    vm_compute in L; injection L as <-; repeat constructor; cbn; intuition discriminate.
Qed.

(* 2024-03-01 is day 19783 *)
Example C19_example_mode :
  cli_mode_cmd On 19783 ex_tree = (ex_tree, true) /\
  cli_read_mode (fst (cli_mode_cmd Off 19783 ex_tree)) = (s2b "off", Some 19783%Z) /\
  lookup [s2b "mode"] (fst (cli_mode_cmd Off 19783 ex_tree)) = Some (File (s2b "off 2024-03-01")) /\
  cli_mode_cmd Local 19783 None = (None, true) /\
  cli_mode_cmd On 19783 None = (Some [(s2b "mode", File (s2b "on 2024-03-01"))], true) /\
  in_date_range 19783 /\ root_names_unique ex_tree.
Proof.
  repeat split; try (vm_compute; reflexivity); try (vm_compute; discriminate).
  cbn. repeat constructor; cbn; intuition discriminate.
Qed.
