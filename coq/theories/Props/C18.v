(* C18  Storage buckets confine, round-trip and list objects correctly.
   This file holds only statements; every proof is `exact <lemma>`.

   Model (Model/Bucket.v): the directory tree below the bucket directory as
   a finite map  path -> (file content | directory), with os.MkdirAll /
   os.Create / os.Open / fs.WalkDir as FSBucket uses them; object names are
   split at '/' (components).  Specification: a sorted association list
   path -> bytes (run_spec).  [reachable m]: m is the tree after some
   sequence of bucket operations on a fresh bucket.  The model stands for the
   code on names with ordinary components (name_ok: no empty, "." or ".."
   component). *)
From Coq Require Import List ZArith NArith Bool Sorted.
From Tele Require Import Lib.Bytes Lib.Calendar Lib.SortedMap Model.Bucket
  Proofs.SortedMapFacts Proofs.BucketFacts.
Import ListNotations.
Open Scope N_scope.

(* Refinement, all histories: every sequence of writes, overwrites, reads,
   copies and prefix listings on the tree gives exactly the results of the association
   list (non-strict variant = with the one deviation of the code, in listings,
   spelled out), and the regular files of the final tree are that list. A write that
   fails leaves the list unchanged (spec_write) -- and the tree, see
   C18_failed_write_inert. *)
Theorem C18_refinement : forall ops, forallb op_ok ops = true ->
  fst (run_fs fs_init ops) = fst (run_spec false [] ops) /\
  files (snd (run_fs fs_init ops)) = snd (run_spec false [] ops).
Proof. exact refinement_full. Qed.
Print Assumptions C18_refinement.

(* The same against the STRICT map (absent => not-exist, listing = every
   stored name with the prefix) for every history that contains no deviating
   operation: no listing that should show a name below a directory whose
   name is not valid UTF-8. *)
Theorem C18_refinement_strict : forall ops, forallb op_ok ops = true ->
  no_deviation [] ops = true ->
  fst (run_fs fs_init ops) = fst (run_spec true [] ops).
Proof. exact refinement_strict_full. Qed.
Print Assumptions C18_refinement_strict.

(* The strict specification is a map: a successful write is read back, other
   names are unaffected, a refused write changes nothing. *)
Theorem C18_spec_is_a_map : forall s p c,
  (forall s', spec_write s p c = (true, s') ->
     spec_read_strict s' p = ROk c /\
     forall q, q <> p -> spec_read_strict s' q = spec_read_strict s q) /\
  (forall s', spec_write s p c = (false, s') -> s' = s).
Proof. exact spec_map_laws. Qed.
Print Assumptions C18_spec_is_a_map.

(* write then read: the same bytes *)
Theorem C18_write_read : forall m n c m', reachable m ->
  write m (components n) c = (true, m') -> read m' (components n) = ROk c.
Proof. exact write_read. Qed.
Print Assumptions C18_write_read.

(* ... and every other object reads as before *)
Theorem C18_write_frame : forall m n c m' n2 c2, reachable m ->
  write m (components n) c = (true, m') -> components n2 <> components n ->
  (read m' (components n2) = ROk c2 <-> read m (components n2) = ROk c2).
Proof. exact write_frame. Qed.
Print Assumptions C18_write_frame.

(* a write fails exactly when the name collides with a stored name (one is a
   proper ancestor of the other), and then the whole tree is unchanged (no
   directory is left behind by MkdirAll) *)
Theorem C18_write_succeeds_iff : forall m n c, reachable m ->
  fst (write m (components n) c) = negb (collides (components n) (files m)).
Proof. exact write_succeeds_iff. Qed.
Print Assumptions C18_write_succeeds_iff.
Theorem C18_failed_write_inert : forall m n c m', reachable m ->
  write m (components n) c = (false, m') -> m' = m.
Proof. exact failed_write_inert. Qed.
Print Assumptions C18_failed_write_inert.

(* reads return what is stored ... *)
Theorem C18_read_stored : forall m n c, reachable m ->
  (read m (components n) = ROk c <-> sget (components n) (files m) = Some c).
Proof. exact read_stored. Qed.
Print Assumptions C18_read_stored.
(* ... and every absent object reports not-exist, also when its name is an
   ancestor or a descendant of a stored name (fix 8c1d2a3) *)
Theorem C18_read_absent_not_exist : forall m n, reachable m ->
  sget (components n) (files m) = None -> read m (components n) = RNotExist.
Proof. exact read_absent_not_exist. Qed.
Print Assumptions C18_read_absent_not_exist.

(* listing: what Objects(prefix) returns is the stored names (in walk order:
   component-wise lexicographic, strictly increasing, no duplicates) that lie
   below UTF-8 directories and have the STRING prefix; when no stored name
   with the prefix lies below a non-UTF-8 directory: exactly the stored
   names with that prefix. *)
Theorem C18_list_prefix_exact : forall m pre, reachable m ->
  list_names m pre = listing false (files m) pre /\
  (deviating (files m) (OList pre) = false ->
   list_names m pre = filter (fun n => has_prefix n pre) (map (fun kv => join_path (fst kv)) (files m))) /\
  StronglySorted (fun a b => path_cmp a b = Lt) (keys (files m)) /\
  NoDup (keys (files m)).
Proof. exact list_prefix_exact. Qed.
Print Assumptions C18_list_prefix_exact.
(* membership in the strict listing, by name *)
Theorem C18_list_member : forall m pre n, reachable m ->
  (In n (listing true (files m) pre) <->
   has_prefix n pre = true /\ exists c, sget (components n) (files m) = Some c).
Proof. exact list_member. Qed.
Print Assumptions C18_list_member.
(* buckets that only ever received names with UTF-8 directory components
   (all names the services build, see below) list exactly *)
Theorem C18_walkable_list_exact : forall ops pre,
  (forall o n, In o ops -> writes_to o = Some n -> walkable (components n) = true) ->
  let m := snd (run_fs fs_init ops) in
  list_names m pre = filter (fun n => has_prefix n pre) (map (fun kv => join_path (fst kv)) (files m)).
Proof. exact walkable_list_exact. Qed.
Print Assumptions C18_walkable_list_exact.
Theorem C18_list_exact_refuted :
  forallb op_ok ops_list_nonutf8 = true /\
  fst (run_spec true [] ops_list_nonutf8) = [RW true; RL [[128; 47; 120]]] /\
  fst (run_fs fs_init ops_list_nonutf8) = [RW true; RL []].
Proof. exact list_exact_refuted. Qed.
Print Assumptions C18_list_exact_refuted.

(* writers as handles (NewWriter / Write ... / Close, Close again): every
   history of plain operations and of writers - any number open at the same
   time, closed once, twice, written to after Close - gives exactly the
   answers of the association list in which an open writer APPENDS to its
   object, and the files of the tree are that list.  (Discipline assumed of
   the history: nothing else stores to an object while a writer is open on
   it.)  In particular what was written through one writer never shows up in
   another object. *)
Theorem C18_writers_refinement : forall ops,
  fst (run_w (fs_init, []) ops) = fst (run_w_spec false ([], []) ops) /\
  files (fst (snd (run_w (fs_init, []) ops))) = fst (snd (run_w_spec false ([], []) ops)).
Proof. exact writers_refinement. Qed.
Print Assumptions C18_writers_refinement.
Theorem C18_stream_appends_to_its_object_only : forall s p c data,
  sget p s = Some c -> collides p s = false ->
  spec_append s p data = (true, sput p (c ++ data) s) /\
  forall q, q <> p -> sget q (sput p (c ++ data) s) = sget q s.
Proof. exact spec_append_laws. Qed.
Print Assumptions C18_stream_appends_to_its_object_only.

(* a listing is complete or it fails - whatever the state of the caller's
   context: FSBucket.Objects never consults it, no error is surfaced and the
   names are exactly the stored names with the prefix (ctx_done = the context
   is already cancelled / past its deadline) *)
Theorem C18_listing_complete_or_error : forall m pre ctx_done, reachable m ->
  deviating (files m) (OList pre) = false ->
  list_ctx ctx_done m pre = (false, filter (fun n => has_prefix n pre) (map (fun kv => join_path (fst kv)) (files m))) /\
  listing_ok (filter (fun n => has_prefix n pre) (map (fun kv => join_path (fst kv)) (files m)))
             (list_ctx ctx_done m pre) = true.
Proof. exact listing_complete_or_error. Qed.
Print Assumptions C18_listing_complete_or_error.

(* several buckets in one process, identified by (storage root, name): in
   every interleaving of operations on any number of buckets, what one bucket
   answers and holds is what it would answer and hold if its own operations
   were run alone on a fresh bucket - and hence (C18_refinement) the answers
   of its own association list.  Two storage roots with equal bucket names
   are different buckets. *)
Theorem C18_buckets_independent : forall ops w b,
  proj_res b (fst (run_world w ops)) = fst (run_fs (w b) (proj_ops b ops)) /\
  snd (run_world w ops) b = snd (run_fs (w b) (proj_ops b ops)).
Proof. exact world_independent. Qed.
Print Assumptions C18_buckets_independent.
Theorem C18_each_bucket_refines_its_map : forall ops b,
  proj_res b (fst (run_world world_init ops)) = fst (run_spec false [] (proj_ops b ops)) /\
  files (snd (run_world world_init ops) b) = snd (run_spec false [] (proj_ops b ops)).
Proof. exact world_bucket_refines. Qed.
Print Assumptions C18_each_bucket_refines_its_map.

(* storage.Copy inside a bucket (histories with copies are covered by
   C18_refinement: OCopy is an operation).  Between different names it is
   write(dst, read(src)); afterwards destination and source both read as the
   source did, every other object reads as before, and the result is again a
   reachable tree, so that a later overwrite of either name leaves the other
   one alone (C18_write_frame): the two objects share nothing. *)
Theorem C18_copy_is_write_of_read : forall m d sr, reachable m -> components d <> components sr ->
  copy m (components d) (components sr) =
    match read m (components sr) with
    | ROk c => write m (components d) c
    | _ => (false, m)
    end.
Proof. exact copy_is_write_of_read. Qed.
Print Assumptions C18_copy_is_write_of_read.
Theorem C18_copy_read : forall m d sr m', reachable m -> components d <> components sr ->
  copy m (components d) (components sr) = (true, m') ->
  reachable m' /\
  exists c, read m (components sr) = ROk c /\ read m' (components d) = ROk c /\ read m' (components sr) = ROk c /\
  forall n c2, components n <> components d ->
    (read m' (components n) = ROk c2 <-> read m (components n) = ROk c2).
Proof. exact copy_read. Qed.
Print Assumptions C18_copy_read.
(* copying an object onto itself keeps its content and the whole tree (fix
   11cc580); an absent object cannot be copied onto itself either *)
Theorem C18_copy_self_keeps_content : forall m o, reachable m ->
  (forall c, read m (components o) = ROk c -> copy m (components o) (components o) = (true, m)) /\
  (sget (components o) (files m) = None -> copy m (components o) (components o) = (false, m)).
Proof. exact copy_self_keeps_content. Qed.
Print Assumptions C18_copy_self_keeps_content.

(* confinement: a name of ordinary components resolves (filepath.Join with
   lexical cleaning) to exactly its components below the bucket directory *)
Theorem C18_name_resolves_inside : forall n, name_ok n = true -> resolve n = Inside (components n).
Proof. exact name_resolves_inside. Qed.
Print Assumptions C18_name_resolves_inside.

(* service names.  good_name n = ordinary components /\ resolves inside /\
   reachable by the directory walk.
   upload: week accepted by the strict date parser, xs the %g rendering of a
   finite value (hypothesis g_string: non-empty, characters 0-9 e E + - .;
   checked on real renderings by the harness) *)
Theorem C18_service_names_inside_upload : forall week xs d,
  parse_date week = Some d -> g_string xs = true ->
  components (upload_name week xs) = [week; xs ++ json_ext] /\ good_name (upload_name week xs).
Proof. exact upload_name_good. Qed.
Print Assumptions C18_service_names_inside_upload.
Theorem C18_service_names_inside_merge : forall date d,
  parse_date date = Some d -> good_name (merge_name date).
Proof. exact merge_name_good. Qed.
Print Assumptions C18_service_names_inside_merge.
(* chart: every pair of day numbers *)
Theorem C18_service_names_inside_chart : forall s e, good_name (chart_name s e).
Proof. exact chart_name_good. Qed.
Print Assumptions C18_service_names_inside_chart.

(* Non-vacuity *)
(* a writer closed twice, then two writers open at once on "a" and "b": each object holds its own bytes *)
Example C18_example_two_writers :
  fst (run_w (fs_init, []) ops_two_writers) =
  [WOk true; WOk true; WOk true; WOk false;
   WOk true; WOk true; WOk true; WOk true; WOk true; WOk true; WOk true; WOk false;
   WR (RR (ROk [1; 2; 4])); WR (RR (ROk [3])); WOk false].
Proof. exact two_writers_example. Qed.
Example C18_example_copy_self :
  forallb op_ok ops_copy_self = true /\
  fst (run_fs fs_init ops_copy_self) = [RW true; RC true; RR (ROk [1; 2; 3]); RC false].
Proof. exact copy_self_example. Qed.
Example C18_example_read_colliding :
  forallb op_ok ops_read_dir = true /\
  fst (run_fs fs_init ops_read_dir) = [RW true; RR RNotExist; RW true; RR RNotExist].
Proof. exact read_colliding_example. Qed.
From Coq Require Import String. Open Scope string_scope. Open Scope N_scope. Open Scope list_scope.
Example C18_example_escape : resolve [46; 46; 47; 120] = Escapes /\ name_ok [46; 46; 47; 120] = false.
Proof. exact escape_example. Qed.
Example C18_example_walk_order :
  fst (run_fs fs_init [OWrite [97; 45; 98] []; OWrite [97; 47; 98] []; OList []]) =
  [RW true; RW true; RL [[97; 47; 98]; [97; 45; 98]]].
Proof. exact walk_order_example. Qed.
Example C18_example_upload_name :
  upload_name (s2b "2024-01-01") (s2b "1e-05") = s2b "2024-01-01/1e-05.json" /\
  parse_date (s2b "2024-01-01") = Some 19723%Z /\ g_string (s2b "1e-05") = true /\
  reachable (snd (run_fs fs_init [OWrite (s2b "2024-01-01/1e-05.json") [1]])).
Proof. split; [|split; [|split]]; try (vm_compute; reflexivity). eexists; reflexivity. Qed.
