From Coq Require Import List NArith Bool.
From Tele Require Import Lib.Bytes Model.Bucket.
Import ListNotations.
Theorem C18_stub : fs_init = [([], D)].
Proof. exact eq_refl. Qed.
Print Assumptions C18_stub.
