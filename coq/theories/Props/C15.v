(* C15  Stack counter names identify call stacks faithfully and within bounds.
   This file holds only statements; every proof is `exact <lemma>`.

   Model: Model/Stack.v (EncodeStack = encode_frames o symboliser, DecodeStack =
   decode_stack, IsStackCounter = is_stack, StackCounter.Inc's cache = run).
   A frame is (Function, Func != nil, printed line, PC - Entry); the runtime
   symboliser is a parameter of the theorems that mention program counters. *)
From Coq Require Import List ZArith NArith Bool.
From Tele Require Import Lib.Bytes Lib.Digits Gen.Consts Model.Stack Proofs.StackFacts Model.StackConc Proofs.StackConcFacts.
Import ListNotations.
Open Scope N_scope.

(* ---- "Incrementing a stack counter from the same call stack always hits one
   counter": for every symboliser, counter name and history of Inc calls (the
   pcs runtime.Callers returned each time), two Incs with equal pcs increment
   the same counter (index into c.stacks), and every Inc increments one. *)
Theorem C15_same_stack_same_counter :
  forall (symb : list N -> list frame) (name : bytes) (hist : list (list N)) (i j : nat) (pcs : list N),
  nth_error hist i = Some pcs -> nth_error hist j = Some pcs ->
  let hits := snd (run symb name [] hist) in
  nth_error hits i = nth_error hits j /\ nth_error hits i <> None.
Proof. exact same_stack_same_counter. Qed.
Print Assumptions C15_same_stack_same_counter.

(* ---- the same clause under CONCURRENCY.  StackCounter.Inc holds c.mu across
   lookup, EncodeStack, append and the increment, so one Inc is one atomic
   find-or-append-and-add on c.stacks (Model/StackConc); a concurrent execution
   of any number of goroutines is an interleaving of their Incs.  For every
   family of threads (each a sequence of call stacks it increments from) and
   EVERY interleaving: a call stack owns at most one counter, exactly one if it
   was incremented at all, and that counter holds the total number of Incs made
   from that stack by all threads. *)
Theorem C15_concurrent_incs_one_counter :
  forall (ths : list (list (list N))) (h : list (list N)) (j : list N),
  interleaving ths h ->
  (entries j (run_atomic h) <= 1)%nat /\
  (In j h -> entries j (run_atomic h) = 1%nat) /\
  total j (run_atomic h) =
    N.of_nat (fold_right (fun t acc => (count_occ key_dec t j + acc)%nat) 0%nat ths).
Proof. exact concurrent_incs_one_counter. Qed.
Print Assumptions C15_concurrent_incs_one_counter.

(* the lock is needed across lookup AND append: two first Incs of one stack
   that both looked up before either appended leave two counters *)
Theorem C15_unlocked_find_or_append_refuted :
  let k := [1; 2] in entries k (append_new k (append_new k [])) = 2%nat.
Proof. exact unlocked_find_or_append_refuted. Qed.
Print Assumptions C15_unlocked_find_or_append_refuted.

(* ---- NewStack(name, depth) makes a counter that identifies a call stack by its
   first depth program counters: for every history of full call stacks, two Incs
   hit one counter exactly when the stacks agree on their first depth pcs. *)
Theorem C15_depth_identity :
  forall (symb : list N -> list frame) (name : bytes) (d : nat) (fulls : list (list N)) (i j : nat) (p q : list N),
  nth_error fulls i = Some p -> nth_error fulls j = Some q ->
  let hits := snd (run symb name [] (map (firstn d) fulls)) in
  nth_error hits i = nth_error hits j <-> firstn d p = firstn d q.
Proof. exact depth_identity. Qed.
Print Assumptions C15_depth_identity.

(* the key has to be the whole recorded pc slice: a key cut to 32 pcs makes two
   different stacks of equal length share one counter (any symboliser, any name) *)
Theorem C15_bounded_key_refuted :
  forall (symb : list N -> list frame) (name : bytes),
  let p := repeat 7 32 ++ [1] in
  let q := repeat 7 32 ++ [2] in
  p <> q /\ length p = length q /\
  let hits := snd (run symb name [] (map (firstn 32) [p; q])) in
  nth_error hits 0 = nth_error hits 1.
Proof. exact bounded_key_refuted. Qed.
Print Assumptions C15_bounded_key_refuted.

(* the 4096-byte limit is a limit of the ENCODED name only: 100 frames of one
   package encode within the limit, round-trip, and expand to more than 4096
   bytes - readers of the expanded name must not bound it. *)
Theorem C15_expanded_name_exceeds_limit :
  let fs := repeat long_pkg_frame 100 in
  Forall (fun f => fn_roundtrips (fr_func f) = true) fs /\ prefix_ok [115; 116] = true /\
  is_truncated [115; 116] fs = false /\
  (N.of_nat (length (encode_frames [115; 116] fs)) <= 4096) /\
  decode_stack (encode_frames [115; 116] fs) = render_plain [115; 116] fs /\
  4096 < N.of_nat (length (decode_stack (encode_frames [115; 116] fs))).
Proof. exact expanded_name_exceeds_limit. Qed.
Print Assumptions C15_expanded_name_exceeds_limit.

(* ---- ReadStack (countertest.ReadStackCounter) reports a counter under the
   EXPANDED name, whatever the state of the counter file: for every counter of
   the cache, DecodeStack of its name is the uncompressed rendering of its own
   stack's frames. *)
Theorem C15_readstack_key_expanded :
  forall (symb : list N -> list frame) (name : bytes) (hist : list (list N)) (c : nat) (pcs : list N) (nm : bytes),
  Forall (fun f => fn_roundtrips (fr_func f) = true) (symb pcs) -> prefix_ok name = true ->
  is_truncated name (symb pcs) = false ->
  nth_error (fst (run symb name [] hist)) c = Some (pcs, nm) ->
  decode_stack nm = render_plain name (symb pcs).
Proof. exact readstack_key_expanded. Qed.
Print Assumptions C15_readstack_key_expanded.

(* ---- different stacks hit different counters ... *)
Theorem C15_different_stack_different_counter :
  forall (symb : list N -> list frame) (name : bytes) (hist : list (list N)) (i j : nat) (p q : list N) (c : nat),
  nth_error hist i = Some p -> nth_error hist j = Some q -> p <> q ->
  let hits := snd (run symb name [] hist) in
  nth_error hits i = Some c -> nth_error hits j <> Some c.
Proof. exact different_stack_different_counter. Qed.
Print Assumptions C15_different_stack_different_counter.

(* ... the counter hit is named by the encoding of that very stack ... *)
Theorem C15_hit_counter_name :
  forall (symb : list N -> list frame) (name : bytes) (hist : list (list N)) (i : nat) (pcs : list N) (c : nat),
  nth_error hist i = Some pcs ->
  let '(st, hits) := run symb name [] hist in
  nth_error hits i = Some c -> nth_error st c = Some (pcs, encode_stack symb pcs name).
Proof. exact hit_counter_name. Qed.
Print Assumptions C15_hit_counter_name.

(* ... and, when neither name is truncated, the names differ: premises on the
   runtime symboliser (not modelled): distinct pc lists give distinct frame
   lists, and function names are newline-free, have no leading dot and their
   package path is not a lone ditto mark. *)
Theorem C15_different_stack_different_name :
  forall (symb : list N -> list frame) (name : bytes),
  (forall p q, symb p = symb q -> p = q) ->
  (forall p, Forall (fun f => fn_identified (fr_func f) = true) (symb p)) ->
  forall p q, p <> q ->
  is_truncated name (symb p) = false -> is_truncated name (symb q) = false ->
  encode_stack symb p name <> encode_stack symb q name.
Proof. exact different_stack_different_name. Qed.
Print Assumptions C15_different_stack_different_name.

(* KNOWN FINDING (class symboliser-not-injective): the first premise above is
   false for the real runtime.  Instantiations of one generic function are all
   named F[...] and, when they share a code shape, have equal line and pc
   offsets: call stacks that differ only in the instantiation (different pcs)
   get ONE counter name.  Confirmed on the real code (pa.G[int] vs
   pa.G[map[string]pb.Deep] in harness vh_stack).  Model witness: *)
Theorem C15_different_stack_same_name_refuted :
  let symb := fun pcs : list N => map (fun _ : N => generic_frame) pcs in
  let name := [115; 116] in
  [1] <> [2] /\ (forall p, Forall (fun f => fn_identified (fr_func f) = true) (symb p)) /\
  is_truncated name (symb [1]) = false /\ is_truncated name (symb [2]) = false /\
  encode_stack symb [1] name = encode_stack symb [2] name.
Proof. exact different_stack_same_name_refuted. Qed.
Print Assumptions C15_different_stack_same_name_refuted.

(* The rendering itself is injective on frame lists (all frame lists, any
   prefix), when neither name is truncated. *)
Theorem C15_injective_untruncated :
  forall (prefix : bytes) (fs1 fs2 : list frame),
  Forall (fun f => fn_identified (fr_func f) = true) fs1 ->
  Forall (fun f => fn_identified (fr_func f) = true) fs2 ->
  is_truncated prefix fs1 = false -> is_truncated prefix fs2 = false ->
  fs1 <> fs2 -> encode_frames prefix fs1 <> encode_frames prefix fs2.
Proof. exact injective_untruncated. Qed.
Print Assumptions C15_injective_untruncated.

(* The two exclusions of fn_identified are necessary: "f" and ".f" get one
   name; a package path that is a lone ditto mark collides with a real ditto. *)
Theorem C15_injective_needs_no_leading_dot :
  let f := mkFrame [102] true 1 2 in
  let g := mkFrame [46; 102] true 1 2 in
  f <> g /\ encode_frames [112] [f] = encode_frames [112] [g].
Proof. exact leading_dot_collision. Qed.
Print Assumptions C15_injective_needs_no_leading_dot.
Theorem C15_injective_needs_no_ditto_path :
  let f1 := mkFrame [97; 46; 102] true 1 2 in
  let f2 := mkFrame [97; 46; 103] true 1 2 in
  let g2 := mkFrame [34; 46; 103] true 1 2 in
  [f1; f2] <> [f1; g2] /\ encode_frames [112] [f1; f2] = encode_frames [112] [f1; g2].
Proof. exact ditto_path_collision. Qed.
Print Assumptions C15_injective_needs_no_ditto_path.

(* ---- "every encoded name is at most 4096 bytes" : all prefixes, all frames *)
Theorem C15_length_bound :
  forall (prefix : bytes) (fs : list frame), N.of_nat (length (encode_frames prefix fs)) <= 4096.
Proof. exact length_bound_lit. Qed.
Print Assumptions C15_length_bound.

(* ---- "and is visibly marked when truncated": a name longer than the limit
   before truncation ends with newline truncated newline and is exactly 4096 bytes long;
   otherwise it is the full rendering. *)
Theorem C15_truncation_marked :
  forall (prefix : bytes) (fs : list frame),
  4096 < N.of_nat (length (encode_raw prefix fs)) ->
  N.of_nat (length (encode_frames prefix fs)) = 4096 /\
  exists body, encode_frames prefix fs = body ++ [10; 116; 114; 117; 110; 99; 97; 116; 101; 100; 10].
Proof. exact truncation_marked_lit. Qed.
Print Assumptions C15_truncation_marked.
Theorem C15_untruncated_is_full_rendering :
  forall (prefix : bytes) (fs : list frame),
  N.of_nat (length (encode_raw prefix fs)) <= 4096 -> encode_frames prefix fs = encode_raw prefix fs.
Proof. exact untruncated_unmarked. Qed.
Print Assumptions C15_untruncated_is_full_rendering.

(* ---- "Expanding an encoded name restores every abbreviated import path,
   giving exactly the uncompressed rendering of the same frames": for every
   counter name none of whose lines has a lone ditto mark before its last dot
   (dots and even newlines in the counter name are fine), and all frames whose
   function name has no newline and whose package path is not a lone ditto
   mark.  The package path MAY be empty (since fix a2e6094 in /repo). *)
Theorem C15_decode_encode :
  forall (prefix : bytes) (fs : list frame),
  prefix_ok prefix = true ->
  Forall (fun f => fn_roundtrips (fr_func f) = true) fs ->
  is_truncated prefix fs = false ->
  decode_stack (encode_frames prefix fs) = render_plain prefix fs.
Proof. exact decode_encode. Qed.
Print Assumptions C15_decode_encode.

(* Truncated names: every complete line that survived the cut still expands to
   the corresponding line of the uncompressed rendering. *)
Theorem C15_decode_encode_truncated :
  forall (prefix : bytes) (fs : list frame),
  prefix_ok prefix = true ->
  Forall (fun f => fn_roundtrips (fr_func f) = true) fs ->
  is_truncated prefix fs = true ->
  let kept := firstn (N.to_nat c_maxNameLen - length c_truncated_marker) (encode_raw prefix fs) in
  firstn (count_nl kept) (split_byte (decode_stack (encode_frames prefix fs)) 10) =
  firstn (count_nl kept) (split_byte (render_plain prefix fs) 10).
Proof. exact decode_encode_truncated. Qed.
Print Assumptions C15_decode_encode_truncated.

(* FIXED finding (was class ditto-empty-path; /repo commit a2e6094): frames with
   an empty package path - what the runtime returns when no pc symbolises - are
   no longer abbreviated and round-trip, also when repeated. *)
Theorem C15_decode_encode_empty_path :
  let prefix := [112] in
  let fs := [zero_frame; zero_frame] in
  Forall (fun f => fn_roundtrips (fr_func f) = true) fs /\ prefix_ok prefix = true /\
  is_truncated prefix fs = false /\
  encode_frames prefix fs = prefix ++ [10] ++ [46; 58; 61; 48; 44; 43; 48; 120; 48]
                                   ++ [10] ++ [46; 58; 61; 48; 44; 43; 48; 120; 48] /\
  decode_stack (encode_frames prefix fs) = render_plain prefix fs.
Proof. exact decode_encode_empty_path. Qed.
Print Assumptions C15_decode_encode_empty_path.

(* Each remaining hypothesis is necessary.  (a) a function whose package path is
   a lone ditto mark is read back as a ditto; (b) with a newline inside a
   function name the next frame's ditto expands to the part after the newline
   only; (c) a line of the counter name that looks like a ditto is expanded.
   Real Go symbols and counter names never have these shapes. *)
Theorem C15_decode_encode_needs_no_ditto_path :
  let fs := [mkFrame [97; 46; 102] true 1 2; mkFrame [34; 46; 103] true 1 2] in
  prefix_ok [112] = true /\ is_truncated [112] fs = false /\
  decode_stack (encode_frames [112] fs) <> render_plain [112] fs.
Proof. exact decode_encode_needs_no_ditto_path. Qed.
Print Assumptions C15_decode_encode_needs_no_ditto_path.
Theorem C15_decode_encode_needs_no_newline :
  let fs := [mkFrame [97; 10; 98; 46; 102] true 1 2; mkFrame [97; 10; 98; 46; 103] true 1 2] in
  prefix_ok [112] = true /\ is_truncated [112] fs = false /\
  decode_stack (encode_frames [112] fs) <> render_plain [112] fs.
Proof. exact decode_encode_needs_no_newline. Qed.
Print Assumptions C15_decode_encode_needs_no_newline.
Theorem C15_decode_encode_needs_prefix_ok :
  let prefix := [34; 46; 120] in
  prefix_ok prefix = false /\ is_truncated prefix [] = false /\
  decode_stack (encode_frames prefix []) <> render_plain prefix [].
Proof. exact decode_encode_needs_prefix_ok. Qed.
Print Assumptions C15_decode_encode_needs_prefix_ok.
(* a counter name with dots and a newline, an empty-path frame first: fine *)
Theorem C15_decode_encode_dotted_prefix :
  let prefix := [97; 46; 98; 10; 99; 46; 100] in
  let fs := [zero_frame; mkFrame [109; 46; 102] true 1 2; mkFrame [109; 46; 103] true 1 2] in
  prefix_ok prefix = true /\ Forall (fun f => fn_roundtrips (fr_func f) = true) fs /\
  decode_stack (encode_frames prefix fs) = render_plain prefix fs.
Proof. exact decode_encode_dotted_prefix. Qed.
Print Assumptions C15_decode_encode_dotted_prefix.

(* Truncated names stay visibly marked when expanded: for ALL counter names and
   frames, the expansion of a truncated name still ends with the marker
   (newline truncated newline) - the final empty line is kept. *)
Theorem C15_decode_truncated_keeps_marker :
  forall (prefix : bytes) (fs : list frame),
  is_truncated prefix fs = true ->
  exists body, decode_stack (encode_frames prefix fs) = body ++ c_truncated_marker.
Proof. exact decode_truncated_keeps_marker. Qed.
Print Assumptions C15_decode_truncated_keeps_marker.

(* ---- "is the identity on ordinary counter names" *)
Theorem C15_decode_identity_on_plain :
  forall s : bytes, is_stack s = false -> decode_stack s = s.
Proof. exact decode_identity_on_plain. Qed.
Print Assumptions C15_decode_identity_on_plain.

(* ---- "and is total on arbitrary strings": decode_stack is a structurally
   recursive total function of every byte string (no fuel, no error value);
   moreover it keeps the number of lines. *)
Theorem C15_decode_total :
  forall s : bytes, exists r, decode_stack s = r /\
  length (split_byte r 10) = length (split_byte s 10).
Proof. exact decode_total. Qed.
Print Assumptions C15_decode_total.

(* ---- "a name is treated as a stack counter exactly when it contains a newline" *)
Theorem C15_is_stack_iff_newline :
  forall s : bytes, is_stack s = true <-> In 10 s.
Proof. exact is_stack_true. Qed.
Print Assumptions C15_is_stack_iff_newline.

(* the constants the statements above quote are those of the source *)
Theorem C15_constants :
  c_maxNameLen = 4096 /\ c_truncated_marker = [10; 116; 114; 117; 110; 99; 97; 116; 101; 100; 10].
Proof. exact (conj maxNameLen_value marker_value). Qed.
Print Assumptions C15_constants.

(* Non-vacuity: three frames, two in package "main" (the second is ditto
   compressed), one inlined frame of "example.com/x/pkg"; hypotheses hold, the
   name is the expected text and decodes to the uncompressed rendering. *)
Definition ex_frames : list frame :=
  [ mkFrame [109;97;105;110;46;102] true 1 26;          (* main.f  :+1,+0x1a *)
    mkFrame [109;97;105;110;46;103] true (-2) 0;        (* main.g  :-2,+0x0  *)
    mkFrame [101;46;99;111;109;47;120;47;112;107;103;46;84;46;77] false 33 255 ].  (* e.com/x/pkg.T.M :=33,+0xff *)
Example C15_example :
  Forall (fun f => fn_roundtrips (fr_func f) = true) ex_frames /\
  Forall (fun f => fn_identified (fr_func f) = true) ex_frames /\
  prefix_ok [115; 116] = true /\ is_truncated [115; 116] ex_frames = false /\
  encode_frames [115; 116] ex_frames =
    [115;116;10; 109;97;105;110;46;102;58;43;49;44;43;48;120;49;97;10;
     34;46;103;58;45;50;44;43;48;120;48;10;
     101;46;99;111;109;47;120;47;112;107;103;46;84;46;77;58;61;51;51;44;43;48;120;102;102] /\
  decode_stack (encode_frames [115; 116] ex_frames) = render_plain [115; 116] ex_frames /\
  render_plain [115; 116] ex_frames <> encode_frames [115; 116] ex_frames.
Proof.
  repeat split; try (vm_compute; reflexivity); try (repeat constructor); try discriminate.
Qed.
Example C15_example_cache :
  let symb := fun pcs : list N => map (fun pc => mkFrame [109;46;102] true (Z.of_N pc) pc) pcs in
  snd (run symb [115] [] [[1;2]; [3]; [1;2]; [1]; [3]]) = [0; 1; 0; 2; 1]%nat.
Proof. vm_compute. reflexivity. Qed.
