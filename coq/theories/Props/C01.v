(* C01  Uploaded reports contain only configuration-approved data.
   Statements only; every proof is `exact <lemma>`.

   Model: Model/Config (config.go NewConfig/Expand/Has*/Rate), Model/Report
   (reports.go createReport/findProgReport), specification side
   Model/ApprovalSpec + the Props of Proofs/ConfigFacts.  Rates and X are
   IEEE-754 bit patterns of non-negative float64 values (ordered like the
   values); counter values are uint64 (N), report values int64 (Z, wrap64). *)
From Coq Require Import List ZArith NArith Bool.
From Tele Require Import Lib.Bytes Lib.Str Lib.Assoc Model.Config Model.ApprovalSpec Model.Report Model.ReportRuns
  Proofs.ConfigFacts Proofs.AggregateFacts Proofs.ReportFacts Proofs.ReportOracle Proofs.ReportOracleSound Proofs.ReportRunsFacts Proofs.ReportPrograms.
Import ListNotations.
From Coq Require Import String. Open Scope string_scope. Open Scope Z_scope. Open Scope list_scope.

(* ---- Soundness.  For ALL configurations, ALL lists of parsed counter files
   and ALL X: every program of the upload report is a build the configuration
   approves (package path, version, Go version, GOOS, GOARCH all listed) and
   the build of at least one of the files; every uploaded counter is a plain
   counter in the bucket expansion of a counter configured for that program,
   X is not above the rate the table holds for it, and that table rate is one
   of the rates configured under (program, name); every uploaded stack
   counter's text before the first newline is a configured stack of the
   program, same rate facts.  Nothing else is in Programs (the report's other
   fields: C01_report_shape). *)
Theorem C01_upload_sound : forall u files x i cs ss,
  In (i, (cs, ss)) (filter_upload (new_config u) x (aggregate files)) ->
  approved_build u i /\
  (exists f, In f files /\ f_ident f = i) /\
  (forall k v, In (k, v) cs -> counter_sound u x (id_program i) k) /\
  (forall k v, In (k, v) ss -> stack_sound u x (id_program i) k).
Proof. exact upload_sound. Qed.
Print Assumptions C01_upload_sound.

(* "... lists for that program with a rate not below X": when no (program,
   name) is configured with two different rates, the table rate IS the
   configured rate. *)
Theorem C01_upload_sound_rates : forall u files x i cs ss,
  cfg_rate_unambiguous u ->
  In (i, (cs, ss)) (filter_upload (new_config u) x (aggregate files)) ->
  (forall k v, In (k, v) cs -> exists r, counter_entry u (id_program i) k r /\ (x <= r)%N) /\
  (forall k v, In (k, v) ss -> exists r, stack_entry u (id_program i) (stack_title k) r /\ (x <= r)%N).
Proof. exact upload_sound_rates. Qed.
Print Assumptions C01_upload_sound_rates.

Theorem C01_rate_table_functional : forall u prog name r,
  cfg_rate_unambiguous u -> rate_entry u prog name r -> rate (new_config u) prog name = r.
Proof. exact rate_table_functional. Qed.
Print Assumptions C01_rate_table_functional.

(* without that hypothesis: the table rate is still one of the configured rates of the name *)
Theorem C01_rate_table_is_entry : forall u prog name r0,
  rate_entry u prog name r0 -> rate_entry u prog name (rate (new_config u) prog name).
Proof. exact rate_is_entry. Qed.
Print Assumptions C01_rate_table_is_entry.

(* ---- Values.  Each uploaded value is the int64 reduction of the sum, over
   exactly the files of that program build (all five identity fields equal),
   of the values recorded under that name; it is the true sum when that is
   below 2^63. *)
Theorem C01_upload_values : forall u files x i cs ss k v,
  In (i, (cs, ss)) (filter_upload (new_config u) x (aggregate files)) ->
  In (k, v) cs \/ In (k, v) ss ->
  spec_entries files i k <> [] /\
  v = wrap64 (spec_sum files i k) /\
  (spec_sum files i k < two63 -> v = spec_sum files i k).
Proof. exact upload_values. Qed.
Print Assumptions C01_upload_values.

(* ---- Completeness.  Every file of an approved build has its program in the
   upload, with every recorded counter / stack counter that is configured for
   the program and whose table rate is >= X. *)
Theorem C01_upload_complete : forall u files x f,
  In f files -> approved_build u (f_ident f) ->
  exists cs ss, In (f_ident f, (cs, ss)) (filter_upload (new_config u) x (aggregate files)) /\
    forall k v0, In (k, v0) (f_counts f) ->
      (is_stack k = false -> (exists r, counter_entry u (id_program (f_ident f)) k r) ->
       (x <= rate (new_config u) (id_program (f_ident f)) k)%N -> exists v, In (k, v) cs) /\
      (is_stack k = true -> (exists r, stack_entry u (id_program (f_ident f)) (stack_title k) r) ->
       (x <= rate (new_config u) (id_program (f_ident f)) (stack_title k))%N -> exists v, In (k, v) ss).
Proof. exact upload_complete. Qed.
Print Assumptions C01_upload_complete.

Theorem C01_upload_complete_rates : forall u files x f,
  cfg_rate_unambiguous u -> In f files -> approved_build u (f_ident f) ->
  exists cs ss, In (f_ident f, (cs, ss)) (filter_upload (new_config u) x (aggregate files)) /\
    forall k v0, In (k, v0) (f_counts f) ->
      (is_stack k = false -> forall r, counter_entry u (id_program (f_ident f)) k r -> (x <= r)%N ->
       exists v, In (k, v) cs) /\
      (is_stack k = true -> forall r, stack_entry u (id_program (f_ident f)) (stack_title k) r -> (x <= r)%N ->
       exists v, In (k, v) ss).
Proof. exact upload_complete_rates. Qed.
Print Assumptions C01_upload_complete_rates.

(* ---- The reports.  createReport's two results: the local report is the
   unfiltered aggregate; the upload report, present exactly when the gate
   (mode/age/as-of, property C02) is open and the sample rate does not block
   X, has the same Week, LastWeek, X, Config and the filtered programs, and
   nothing else; no report iff no file holds a counter. *)
Theorem C01_report_shape : forall gate u cfgver week lastweek x files local up,
  create_report gate u cfgver week lastweek x files = Some (local, up) ->
  local = mkReport week lastweek x cfgver (aggregate files) /\
  match up with
  | Some r => r = mkReport week lastweek x cfgver (filter_upload (new_config u) x (aggregate files)) /\
              gate = true /\ sample_blocks u x = false
  | None => gate = false \/ sample_blocks u x = true
  end.
Proof. exact create_report_shape. Qed.
Print Assumptions C01_report_shape.

Theorem C01_report_none : forall gate u cfgver week lastweek x files,
  create_report gate u cfgver week lastweek x files = None <-> forall f, In f files -> f_counts f = [].
Proof. exact create_report_none. Qed.
Print Assumptions C01_report_none.

(* the aggregate itself: a build occurs once, exactly the builds of the files *)
Theorem C01_aggregate_builds : forall files i,
  In i (akeys (aggregate files)) <-> exists f, In f files /\ f_ident f = i.
Proof. exact aggregate_keys. Qed.
Print Assumptions C01_aggregate_builds.

Theorem C01_aggregate_wf : forall files, wf_progs (aggregate files).
Proof. exact wf_aggregate. Qed.
Print Assumptions C01_aggregate_wf.

(* ---- Bucket expansion.  The documented syntax prefix{b1,...,bn}; names
   without a brace; and the general computed form (covers the missing "}",
   the doubled "}" and nested braces). *)
Theorem C01_expand_spec : forall p bs k, ~ In ch_lbrace p -> bs <> [] ->
  (forall b, In b bs -> ~ In ch_comma b) ->
  (In k (expand (p ++ ch_lbrace :: join bs [ch_comma] ++ [ch_rbrace])) <-> exists b, In b bs /\ k = p ++ b).
Proof. exact expand_spec. Qed.
Print Assumptions C01_expand_spec.

Theorem C01_expand_plain : forall name, ~ In ch_lbrace name -> expand name = [name].
Proof. exact expand_plain. Qed.
Print Assumptions C01_expand_plain.

Theorem C01_expand_general : forall p rest, ~ In ch_lbrace p ->
  expand (p ++ ch_lbrace :: rest) = map (fun b => p ++ b) (split_byte (trim_suffix rest [ch_rbrace]) ch_comma).
Proof. exact expand_braces. Qed.
Print Assumptions C01_expand_general.

(* ---- The executable oracle applied to the implementation's reports accepts
   the model's reports: for all inputs every failure it reports is of one of
   the two known classes and carries a certificate; none under the two class
   hypotheses.  The local report always passes. *)
Theorem C01_oracle_model : forall gate u cfgver week lastweek x files local up,
  create_report gate u cfgver week lastweek x files = Some (local, Some up) ->
  forall fl, In fl (report_check u files local up) -> cert u files fl.
Proof. exact report_check_model. Qed.
Print Assumptions C01_oracle_model.

Theorem C01_oracle_accepts : forall gate u cfgver week lastweek x files local up,
  cfg_rate_unambiguous u -> (forall i k, spec_sum files i k < two63) ->
  create_report gate u cfgver week lastweek x files = Some (local, Some up) ->
  report_ok u files local up = true.
Proof. exact report_ok_model. Qed.
Print Assumptions C01_oracle_accepts.

Theorem C01_local_oracle : forall gate u cfgver week lastweek x files local up,
  create_report gate u cfgver week lastweek x files = Some (local, up) ->
  local_check files local = [].
Proof. exact local_check_model. Qed.
Print Assumptions C01_local_oracle.

(* What acceptance by the oracle MEANS, for any report (in particular the
   implementation's): same header; each build once; every program an approved
   build of some file, every counter a plain counter with a configured
   counter entry of rate >= X whose value is the TRUE sum over the build's
   files, every stack likewise by its title; every file of an approved build
   has its program present with every counter all of whose configured rates
   are >= X. *)
Theorem C01_oracle_sound : forall u files local up,
  report_ok u files local up = true ->
  header_ok local up = true /\
  NoDup (map fst (r_programs up)) /\
  (forall p, In p (r_programs up) -> prog_ok u files (r_x local) p) /\
  (forall f, In f files -> present_ok u (r_x local) (r_programs up) f).
Proof. exact report_ok_sound. Qed.
Print Assumptions C01_oracle_sound.

(* ---- Histories: several runs of one process on one directory.  A run
   parses every count file once (findWork) and reads it again through the
   parse cache (reports); the cache starts empty in every Run (a new uploader).
   Started with ANY cache consistent with the directory, a run reports exactly
   the expired files of the directory as it is at that run ... *)
Theorem C01_run_with_consistent_cache : forall c0 p d,
  NoDup (map d_name d) -> cache_ok c0 d -> run_with c0 p d = run_spec p d.
Proof. exact run_with_ok. Qed.
Print Assumptions C01_run_with_consistent_cache.

(* ... so does every run of a process, whatever earlier runs have parsed
   (count files are extended, created and expire between runs) ... *)
Theorem C01_run_history_reads_current : forall h,
  (forall s, In s h -> NoDup (map d_name (snd s))) ->
  run_history h = map (fun s => run_spec (fst s) (snd s)) h.
Proof. exact run_history_spec. Qed.
Print Assumptions C01_run_history_reads_current.

(* ... and the C01 oracle, given the files as they are at that run, accepts
   its reports (outside the two known classes). *)
Theorem C01_run_oracle_model : forall p d local up deleted,
  NoDup (map d_name d) ->
  run_uploader p d = (Some (local, Some up), deleted) ->
  forall fl, In fl (report_check (rp_cfg p) (map d_file (expired_now (rp_start p) d)) local up) ->
             cert (rp_cfg p) (map d_file (expired_now (rp_start p) d)) fl.
Proof. exact run_report_check. Qed.
Print Assumptions C01_run_oracle_model.

(* the consistency hypothesis is necessary: a cache holding an older state of
   a file makes the run report the old values (why the cache must not outlive a run) *)
Theorem C01_stale_cache_differs :
  exists c0 p d, NoDup (map d_name d) /\ run_with c0 p d <> run_spec p d.
Proof. exact stale_cache_refuted. Qed.
Print Assumptions C01_stale_cache_differs.

(* ---- The configuration "fetched for the run that built it".  Every Run
   downloads the newest version of the configuration module; a Run against a
   store whose newest version is (v, u) is the specified run under u ... *)
Theorem C01_run_fetching_spec : forall st v u p d,
  NoDup (map d_name d) -> run_fetching (st ++ [(v, u)]) p d = run_spec (with_config p v u) d.
Proof. exact run_fetching_spec. Qed.
Print Assumptions C01_run_fetching_spec.

(* ... its upload report carries that version and is filtered by THAT
   configuration, whatever versions earlier Runs of the process fetched ... *)
Theorem C01_run_fetching_filters_by_latest : forall st v u p d local up deleted,
  NoDup (map d_name d) ->
  run_fetching (st ++ [(v, u)]) p d = (Some (local, Some up), deleted) ->
  r_config up = v /\
  r_programs up = filter_upload (new_config u) (rp_x p) (aggregate (map d_file (expired_now (rp_start p) d))).
Proof. exact run_fetching_filters_by_latest. Qed.
Print Assumptions C01_run_fetching_filters_by_latest.

(* ... and in a process every Run is judged against the store and directory it finds. *)
Theorem C01_run_fetching_history_pointwise : forall h before s after,
  h = before ++ s :: after ->
  nth (List.length before) (run_fetching_history h) (None, []) = run_fetching (fst (fst s)) (snd (fst s)) (snd s).
Proof. exact run_fetching_history_pointwise. Qed.
Print Assumptions C01_run_fetching_history_pointwise.

(* ---- "The week's expired counter files": the files of a run are grouped by the
   DATE written in their TimeEnd (the week label), not by the instant or zone;
   one report per label, built from exactly the files of that label: every
   expired file is accounted for in the report of its own label, together with
   every other file of that label, and in no other. *)
Theorem C01_week_reports_cover : forall gate u cfgver lastweek x l e,
  In e l ->
  In (fst e, create_report gate u cfgver (fst e) lastweek x (week_files (fst e) l))
     (week_reports gate u cfgver lastweek x l) /\
  In (snd e) (week_files (fst e) l) /\
  (forall w, In (snd e) (week_files w l) -> exists e', In e' l /\ fst e' = w /\ snd e' = snd e).
Proof. exact week_reports_cover. Qed.
Print Assumptions C01_week_reports_cover.

Theorem C01_week_reports_one_per_label : forall gate u cfgver lastweek x l,
  map fst (week_reports gate u cfgver lastweek x l) = week_labels l /\ NoDup (week_labels l).
Proof. exact week_reports_one_per_label. Qed.
Print Assumptions C01_week_reports_one_per_label.

Theorem C01_week_files_same_label : forall l e1 e2,
  In e1 l -> In e2 l -> fst e1 = fst e2 ->
  In (snd e1) (week_files (fst e1) l) /\ In (snd e2) (week_files (fst e1) l).
Proof. exact week_files_same_label. Qed.
Print Assumptions C01_week_files_same_label.

(* ---- The lookup tables answer for the PAIR (program, item): a counter,
   stack or version is found for a program iff an entry of a program configured
   under exactly that name lists it - never because the concatenation of another
   program's path and another item's name happens to read the same. *)
Theorem C01_has_counter_meaning : forall u prog k,
  has_counter (new_config u) prog k = true <-> exists r, counter_entry u prog k r.
Proof. exact has_counter_spec. Qed.
Print Assumptions C01_has_counter_meaning.

Theorem C01_has_stack_meaning : forall u prog name,
  has_stack (new_config u) prog name = true <-> exists r, stack_entry u prog name r.
Proof. exact has_stack_spec. Qed.
Print Assumptions C01_has_stack_meaning.

Theorem C01_has_version_meaning : forall u prog v,
  has_version (new_config u) prog v = true <->
  exists p, In p (uc_programs u) /\ pc_name p = prog /\ In v (pc_versions p).
Proof. exact has_version_spec. Qed.
Print Assumptions C01_has_version_meaning.

(* ---- Programs of one weekly report are filtered independently of each
   other and of their order. *)
Theorem C01_upload_program_independent : forall c x before p after,
  filter_upload c x (before ++ p :: after) =
  filter_upload c x before ++ filter_upload c x [p] ++ filter_upload c x after.
Proof. exact upload_program_independent. Qed.
Print Assumptions C01_upload_program_independent.

(* ---- Known findings, as witnesses in the model (both confirmed on the real
   code by the correspondence suite, classes rate-table-shared / value-wrap).
   13: one rate table shared by counters and stacks. *)
Theorem C01_upload_rate_refuted :
  exists u files x i cs ss k v,
    In (i, (cs, ss)) (filter_upload (new_config u) x (aggregate files)) /\ In (k, v) cs /\
    (forall r, counter_entry u (id_program i) k r -> (r < x)%N) /\
    (exists r, counter_entry u (id_program i) k r).
Proof. exact upload_rate_refuted. Qed.
Print Assumptions C01_upload_rate_refuted.

Theorem C01_upload_complete_refuted :
  exists u f x k v0,
    approved_build u (f_ident f) /\ In (k, v0) (f_counts f) /\ is_stack k = false /\
    (exists r, counter_entry u (id_program (f_ident f)) k r) /\
    (forall r, counter_entry u (id_program (f_ident f)) k r -> (x <= r)%N) /\
    forall cs ss, In (f_ident f, (cs, ss)) (filter_upload (new_config u) x (aggregate [f])) ->
                  forall v, ~ In (k, v) cs.
Proof. exact upload_rate_refuted_complete. Qed.
Print Assumptions C01_upload_complete_refuted.

(* 14: values at and above 2^63 wrap. *)
Theorem C01_upload_value_refuted :
  exists u files x i cs ss k v,
    In (i, (cs, ss)) (filter_upload (new_config u) x (aggregate files)) /\ In (k, v) cs /\
    spec_sum files i k = two63 /\ v = - two63.
Proof. exact upload_value_refuted. Qed.
Print Assumptions C01_upload_value_refuted.

(* ---- Non-vacuity: the model computes non-trivial reports; hypotheses are satisfiable. *)
Definition ex_cfg : upload_cfg :=
  mkUC [s2b "linux"; s2b "darwin"] [s2b "amd64"] [s2b "go1.22.1"] 0%N
       [mkPC (s2b "cmd/go") [s2b "go1.22.1"]
             [mkCC (s2b "chart:{a,b}") bits_one; mkCC (s2b "rare") 0%N]
             [mkCC (s2b "stk") bits_one]].
Definition ex_id (os : string) : ident := mkId (s2b "cmd/go") (s2b "go1.22.1") (s2b "go1.22.1") (s2b os) (s2b "amd64").
Definition ex_files : list cfile :=
  [ mkFile (ex_id "linux") [(s2b "chart:a", 1%N); (s2b "chart:c", 5%N); (s2b "rare", 2%N); (s2b "stk" ++ [10%N] ++ s2b "f", 7%N)];
    mkFile (ex_id "beos")  [(s2b "chart:a", 100%N)];
    mkFile (ex_id "linux") [(s2b "chart:a", 2%N); (s2b "chart:b", 4%N); (s2b "st" ++ [10%N] ++ s2b "f", 1%N)] ].

Example ex_upload :
  filter_upload (new_config ex_cfg) bits_half (aggregate ex_files) =
  [ (ex_id "linux", ([(s2b "chart:a", 3); (s2b "chart:b", 4)], [(s2b "stk" ++ [10%N] ++ s2b "f", 7)])) ].
Proof. vm_compute. reflexivity. Qed.

Example ex_local_has_everything :
  map (fun p => (List.length (fst (snd p)), List.length (snd (snd p)))) (aggregate ex_files) = [(4%nat, 2%nat); (1%nat, 0%nat)].
Proof. vm_compute. reflexivity. Qed.

Example ex_oracle_ok :
  match create_report true ex_cfg (s2b "v1.0.0") (s2b "2024-01-08") (s2b "") bits_half ex_files with
  | Some (l, Some up) => report_ok ex_cfg ex_files l up
  | _ => false
  end = true.
Proof. vm_compute. reflexivity. Qed.

Example ex_unambiguous : cfg_rate_unambiguous ex_cfg.
Proof.
  intros prog name r1 r2 H1 H2.
  destruct H1 as [[p1 [c1 [Hp1 [Hn1 [Hc1 [He1 Hr1]]]]]] | [p1 [c1 [Hp1 [Hn1 [Hc1 [He1 Hr1]]]]]]];
  destruct H2 as [[p2 [c2 [Hp2 [Hn2 [Hc2 [He2 Hr2]]]]]] | [p2 [c2 [Hp2 [Hn2 [Hc2 [He2 Hr2]]]]]]];
  cbn in Hp1, Hp2; destruct Hp1 as [<-|[]]; destruct Hp2 as [<-|[]];
  cbn in Hc1, Hc2;
  repeat match goal with
         | H : _ \/ _ |- _ => destruct H as [<-|H]
         | H : False |- _ => destruct H
         end;
  subst r1 r2; try reflexivity; exfalso; cbn [cc_name] in He1, He2;
  repeat first
    [ progress subst
    | match goal with
      | H : In _ (expand _) |- _ => vm_compute in H
      | H : _ \/ _ |- _ => destruct H as [H|H]
      | H : False |- _ => destruct H
      | H : _ = _ |- _ => discriminate H
      end ].
Qed.

Example ex_expand : expand (s2b "gopls/client:{vscode,vim,other}") =
  [s2b "gopls/client:vscode"; s2b "gopls/client:vim"; s2b "gopls/client:other"].
Proof. vm_compute. reflexivity. Qed.

(* edge cases of Expand exactly as computed (and as config.Expand answers in the suite) *)
Example ex_expand_edges :
  expand (s2b "a{") = [s2b "a"] /\ expand (s2b "a{}") = [s2b "a"] /\ expand (s2b "a{b") = [s2b "ab"] /\
  expand (s2b "a{b}}") = [s2b "ab}"] /\ expand (s2b "a{b{c,d}") = [s2b "ab{c"; s2b "ad"] /\
  expand (s2b "a{,}") = [s2b "a"; s2b "a"] /\ expand (s2b "a{b}c") = [s2b "ab}c"] /\ expand (s2b "") = [s2b ""].
Proof. vm_compute. repeat split. Qed.
