(* C08  At most one report per week is delivered, under races, retries and
   crashes.

   Model: Model/Uploader.v (uploader.Run as a thread program with one step per
   file-system / HTTP call over Lib/FS).  [reach st]: st is reachable from any
   well-formed initial directory by ANY interleaving of ANY number of
   uploader runs (runs may start at any time: sequential re-runs and
   concurrent runs alike), any kills (AKill: the thread never runs again, its
   lock file stays), and any server answer per request (200 / 4xx / other
   status / no answer).  Statements only; proofs in Proofs/Uploader*.v. *)
From Coq Require Import String.
From Coq Require Import List ZArith NArith Bool Lia Arith.
From Tele Require Import Lib.Bytes Lib.FS Model.Span Model.Uploader
  Proofs.FSFacts Proofs.UploaderBase Proofs.UploaderLock Proofs.UploaderNames Proofs.UploaderDisp
  Proofs.UploaderLive.
Import ListNotations.
Open Scope nat_scope.

(* ---- the lock protocol: a thread between its successful exclusive creation
        of upload/W.json.lock and its removal of it (alive or killed) is the
        only one for W, and the lock file exists ---- *)
Theorem C08_lock_exclusive : forall st, reach st ->
  (forall i t, nth_error (s_ths st) i = Some t -> in_cs (t_pc t) = true ->
               d_mem (up_dir (s_fs st)) (lock_name (t_week t)) = true) /\
  (forall i j ti tj, i <> j -> nth_error (s_ths st) i = Some ti -> nth_error (s_ths st) j = Some tj ->
               in_cs (t_pc ti) = true -> in_cs (t_pc tj) = true -> t_week ti <> t_week tj).
Proof. exact lock_inv_reach. Qed.
Print Assumptions C08_lock_exclusive.

(* ---- no_two_bodies: two acknowledged (200) log entries of one week have the
        same body; indeed a week is acknowledged at most once ---- *)
Theorem C08_no_two_bodies : forall st a1 a2, reach st ->
  In a1 (s_log st) -> In a2 (s_log st) -> is200 a1 = true -> is200 a2 = true ->
  a_week a1 = a_week a2 -> a_body a1 = a_body a2.
Proof. exact no_two_bodies. Qed.
Print Assumptions C08_no_two_bodies.

Theorem C08_acked_at_most_once : forall st w, reach st -> count200 w (s_log st) <= 1.
Proof. exact acked_at_most_once. Qed.
Print Assumptions C08_acked_at_most_once.

(* ---- no_resend_after_record: whenever a step appends a request k to the
        server's log, upload/<week k>.json does not exist; and that file,
        once it exists, exists in every later state ---- *)
Theorem C08_no_resend_after_record : forall st i a k, reach st ->
  s_log (step st (i, a)) = s_log st ++ [k] ->
  d_mem (up_dir (s_fs st)) (marker_name (a_week k)) = false.
Proof. exact no_resend_after_record. Qed.
Print Assumptions C08_no_resend_after_record.

Theorem C08_marker_persistent : forall st ia w,
  d_mem (up_dir (s_fs st)) (marker_name w) = true ->
  d_mem (up_dir (s_fs (step st ia))) (marker_name w) = true.
Proof. exact marker_persistent. Qed.
Print Assumptions C08_marker_persistent.

(* ---- disposition ---- *)
(* the request itself changes no file; the thread continues according to the answer:
   200 -> write the marker, 4xx -> remove the report, anything else -> just unlock *)
Theorem C08_disposition_answer : forall st i t o,
  nth_error (s_ths st) i = Some t -> t_killed t = false -> t_pc t = UPost ->
  step st (i, AStep o) =
  mkSt (s_fs st) (s_log st ++ [mkAck (t_week t) (t_buf t) o (t_id t)])
       (upd (s_ths st) i (set_pc t (after_answer o))).
Proof. exact step_at_post. Qed.
Print Assumptions C08_disposition_answer.

(* 5xx / no answer: the next step only removes the lock file: local/ and the
   uploaded markers are as before *)
Theorem C08_disposition_5xx : forall st i t o,
  nth_error (s_ths st) i = Some t -> t_killed t = false -> t_pc t = UUnlock ->
  f_local (s_fs (step st (i, AStep o))) = f_local (s_fs st) /\
  s_log (step st (i, AStep o)) = s_log st /\
  forall w, d_mem (up_dir (s_fs (step st (i, AStep o)))) (marker_name w) =
            d_mem (up_dir (s_fs st)) (marker_name w).
Proof. exact step_at_unlock. Qed.
Print Assumptions C08_disposition_5xx.

(* 4xx: the next step removes the report from local/ and nothing else; then
   the thread is at the unlock step above: no marker is written *)
Theorem C08_disposition_4xx : forall st i t o,
  nth_error (s_ths st) i = Some t -> t_killed t = false -> t_pc t = URem4xx ->
  step st (i, AStep o) =
  mkSt (set_local (s_fs st) (d_remove (f_local (s_fs st)) (t_file t))) (s_log st)
       (upd (s_ths st) i (set_pc t UUnlock)).
Proof. exact step_at_rem4xx. Qed.
Print Assumptions C08_disposition_4xx.

(* 200: the next step records the body under upload/W.json *)
Theorem C08_disposition_200 : forall st i t o, reach st ->
  nth_error (s_ths st) i = Some t -> t_killed t = false -> t_pc t = UWriteMarker ->
  d_get (up_dir (s_fs (step st (i, AStep o)))) (marker_name (t_week t)) = Some (t_buf t) /\
  f_local (s_fs (step st (i, AStep o))) = f_local (s_fs st) /\
  nth_error (s_ths (step st (i, AStep o))) i = Some (set_pc t URemDone).
Proof. exact step_at_writemarker. Qed.
Print Assumptions C08_disposition_200.

(* while thread i is between lock and unlock, no step of another thread
   removes the report it is uploading or writes the marker of its week: the
   dispositions above are what happens to the report *)
Theorem C08_disposition_protected : forall st i j a ti, reach st ->
  nth_error (s_ths st) i = Some ti -> in_cs (t_pc ti) = true -> j <> i ->
  (d_mem (f_local (s_fs st)) (t_file ti) = true ->
   d_mem (f_local (s_fs (step st (j, a)))) (t_file ti) = true) /\
  (d_mem (up_dir (s_fs st)) (marker_name (t_week ti)) = false ->
   d_mem (up_dir (s_fs (step st (j, a)))) (marker_name (t_week ti)) = false).
Proof. exact cs_protects. Qed.
Print Assumptions C08_disposition_protected.

(* ---- posted_verbatim: the log grows only by a request of a live thread
        parked at the Post, whose body is the thread's buffer; the buffer is
        the content found in local/ by the ReadFile step and is not touched
        between the read and the request ---- *)
Theorem C08_posted_verbatim_log : forall st i a,
  s_log (step st (i, a)) = s_log st \/
  exists t o, nth_error (s_ths st) i = Some t /\ t_killed t = false /\ t_pc t = UPost /\ a = AStep o /\
              s_log (step st (i, a)) = s_log st ++ [mkAck (t_week t) (t_buf t) o (t_id t)] /\
              s_fs (step st (i, a)) = s_fs st.
Proof. exact log_step. Qed.
Print Assumptions C08_posted_verbatim_log.

Theorem C08_posted_verbatim_read : forall st i t o c w,
  nth_error (s_ths st) i = Some t -> t_killed t = false -> t_pc t = URead ->
  d_get (f_local (s_fs st)) (t_file t) = Some c -> fdate (t_file t) = Some w ->
  step st (i, AStep o) = mkSt (s_fs st) (s_log st) (upd (s_ths st) i (set_buf t ULock w c)).
Proof. exact step_at_read. Qed.
Print Assumptions C08_posted_verbatim_read.

(* a ready file whose name is too short to hold a date is skipped (fix
   8d04c54: it used to panic and abort the run): files, log unchanged, the
   thread proceeds to the next ready file *)
Theorem C08_short_name_skipped : forall st i t o c,
  nth_error (s_ths st) i = Some t -> t_killed t = false -> t_pc t = URead ->
  d_get (f_local (s_fs st)) (t_file t) = Some c -> fdate (t_file t) = None ->
  step st (i, AStep o) = mkSt (s_fs st) (s_log st) (upd (s_ths st) i (advance t)).
Proof. exact step_at_read_short. Qed.
Print Assumptions C08_short_name_skipped.

Theorem C08_posted_verbatim_kept : forall f a t e t',
  decide_all f a t = (e, t') -> buf_phase (t_pc t) = true -> buf_phase (t_pc t') = true ->
  t_buf t' = t_buf t /\ t_file t' = t_file t.
Proof. exact buf_kept. Qed.
Print Assumptions C08_posted_verbatim_kept.

(* ---- eventual_once (no kills): the history starts from a directory with an
        empty upload/ (so markers = acknowledgements, no stale lock).  In ANY
        state st of it in which all runs have returned, let g be a report in
        local/ that an uploader with configuration c (mode on) would upload
        (collected by findWork, not future-dated, name long enough to carry the
        week W).  Start one more uploader c and let the threads run under ANY
        schedule without kills in which every request is answered 200: when
        the new run has returned, W is acknowledged exactly once in the whole
        log.  (No proviso about earlier 4xx answers is needed: after a 4xx the
        report is gone, and a report that is still there is delivered.) ---- *)
Theorem C08_eventual_once :
  forall (c : ucfg) (g W : bytes), u_on c = true ->
  collect_ready c g = true -> in_future (today c) g = false -> fdate g = Some W ->
  forall (f : FS) (cfgs : list ucfg) (st : state),
  fs_wf f -> up_dir f = [] -> reach_from (init_state f cfgs) st ->
  (forall j t, nth_error (s_ths st) j = Some t -> t_pc t = Done) ->
  d_mem (f_local (s_fs st)) g = true ->
  forall sched, Forall (fun ia => good (snd ia)) sched ->
  forall t, nth_error (s_ths (run sched (spawn st c))) (length (s_ths st)) = Some t -> t_pc t = Done ->
  count200 W (s_log (run sched (spawn st c))) = 1.
Proof. exact eventual_once. Qed.
Print Assumptions C08_eventual_once.

(* ---- non-vacuity: concrete runs of the model ---- *)
Definition ex_week : bytes := s2b "2024-01-07"%string.
Definition ex_cfg : ucfg := mkCfg (1705000000%Z, 0%Z) true None (s2b "/t/local/"%string) 0%Z.
Definition ex_S (i : nat) : nat * act := (i, AStep O200).

(* a pre-existing ready report is posted, acknowledged, recorded, removed *)
Definition ex_fs1 : FS :=
  mkFS [(ready_name ex_week, (0, CRaw 7%N))] (Some []) 1.
Definition ex_run1 : state :=
  run [ex_S 0; ex_S 0; (0, APickNone); ex_S 0; ex_S 0; ex_S 0; ex_S 0; ex_S 0; ex_S 0; ex_S 0]
      (init_state ex_fs1 [ex_cfg]).
Example C08_ex_delivered :
  s_log ex_run1 = [mkAck ex_week (CRaw 7%N) O200 0] /\
  d_get (up_dir (s_fs ex_run1)) (marker_name ex_week) = Some (CRaw 7%N) /\
  f_local (s_fs ex_run1) = [] /\ d_mem (up_dir (s_fs ex_run1)) (lock_name ex_week) = false /\
  quiescent ex_run1 = true.
Proof. vm_compute. repeat split. Qed.

(* a 5xx answer leaves the report in place, a later run delivers it *)
Definition ex_run2 : state :=
  run [ex_S 0; ex_S 0; (0, APickNone); ex_S 0; ex_S 0; ex_S 0; (0, AStep O5xx); ex_S 0]
      (init_state ex_fs1 [ex_cfg; ex_cfg]).
Example C08_ex_5xx_keeps :
  d_mem (f_local (s_fs ex_run2)) (ready_name ex_week) = true /\
  d_mem (up_dir (s_fs ex_run2)) (marker_name ex_week) = false /\ quiescent ex_run2 = false.
Proof. vm_compute. repeat split. Qed.
Example C08_ex_5xx_then_delivered :
  let st := run [ex_S 1; ex_S 1; (1, APickNone); ex_S 1; ex_S 1; ex_S 1; ex_S 1; ex_S 1; ex_S 1; ex_S 1] ex_run2 in
  count200 ex_week (s_log st) = 1 /\ length (s_log st) = 2 /\ quiescent st = true.
Proof. vm_compute. repeat split. Qed.

(* observation (posted_verbatim): a second uploader reads the week's report
   between its exclusive creation and its write, and posts the EMPTY body *)
Definition ex_cf : cfile := mkCF 1704153600%Z 1704585600%Z 0%N [(0%N, 1%Z)].
Definition ex_fs3 : FS :=
  mkFS [(s2b "a.v1.count"%string, (0, CCount (Some ex_cf) 1%N))] (Some []) 1.
Definition ex_run3 : state :=
  run [ex_S 0; ex_S 0; ex_S 0; (0, APick ex_week); ex_S 0; ex_S 0; ex_S 0;      (* 0: W.json created, empty *)
       ex_S 1; ex_S 1; ex_S 1; (1, APick ex_week); ex_S 1; (1, APickNone);       (* 1: sees it, deletes the count file *)
       ex_S 1; ex_S 1; ex_S 1; ex_S 1]                                           (* 1: read, lock, stat, post *)
      (init_state ex_fs3 [ex_cfg; ex_cfg]).
Example C08_ex_empty_body_posted :
  s_log ex_run3 = [mkAck ex_week (CRep None) O200 1].
Proof. vm_compute. reflexivity. Qed.

(* a stray x.json is skipped and the report after it is still delivered *)
Definition ex_fs5 : FS :=
  mkFS [(s2b "0.json"%string, (0, CRaw 5%N)); (ready_name ex_week, (1, CRaw 7%N))] (Some []) 2.
Example C08_ex_short_name_does_not_block :
  let st := run [ex_S 0; ex_S 0; (0, APickNone); ex_S 0; ex_S 0; ex_S 0; ex_S 0; ex_S 0; ex_S 0; ex_S 0; ex_S 0]
                (init_state ex_fs5 [ex_cfg]) in
  s_log st = [mkAck ex_week (CRaw 7%N) O200 0] /\ quiescent st = true /\
  d_mem (f_local (s_fs st)) (s2b "0.json"%string) = true.
Proof. vm_compute. repeat split. Qed.

(* a killed lock holder blocks the week for ever (liveness only without kills) *)
Definition ex_run4 : state :=
  run [ex_S 0; ex_S 0; (0, APickNone); ex_S 0; ex_S 0; (0, AKill);
       ex_S 1; ex_S 1; (1, APickNone); ex_S 1; ex_S 1]
      (init_state ex_fs1 [ex_cfg; ex_cfg]).
Example C08_ex_stale_lock :
  s_log ex_run4 = [] /\ d_mem (up_dir (s_fs ex_run4)) (lock_name ex_week) = true /\ quiescent ex_run4 = true.
Proof. vm_compute. repeat split. Qed.

(* ---- the lock belongs to its holder: a name of upload/ disappears only by
        the unlock step of the live thread that is in its critical section for
        that week; so while thread j is between lock and unlock, no step of
        another thread - whatever a run does at its end included - removes j's
        lock (oracle lock_released_by_other of the suite) ---- *)
From Tele Require Import Proofs.UploaderLockOwner.

Theorem C08_lock_removed_by_holder : forall st i a n,
  d_mem (up_dir (s_fs st)) n = true -> d_mem (up_dir (s_fs (step st (i, a)))) n = false ->
  exists t, nth_error (s_ths st) i = Some t /\ t_killed t = false /\ t_pc t = UUnlock /\
            in_cs (t_pc t) = true /\ n = lock_name (t_week t).
Proof. exact up_removed_by_holder. Qed.
Print Assumptions C08_lock_removed_by_holder.

Theorem C08_lock_kept_by_others : forall st i j a tj,
  reach st -> nth_error (s_ths st) j = Some tj -> in_cs (t_pc tj) = true -> i <> j ->
  d_mem (up_dir (s_fs (step st (i, a)))) (lock_name (t_week tj)) = true.
Proof. exact lock_kept_by_others. Qed.
Print Assumptions C08_lock_kept_by_others.

(* ---- progress over a HISTORY of program starts (Model/UploadStarts.v on the
        token model of Model/Start.v, C16): each start tries the upload token
        alone; a start acquires iff there is no token or the last ACQUISITION
        is at least a period ago, and a refused start leaves the token's time
        alone - so a program that starts more often than once per period is
        not starved of uploads, and acquisitions stay a period apart
        (oracles token_starved / token_too_often of the suite) ---- *)
From Tele Require Import Model.Start Model.UploadStarts Proofs.UploadStartsFacts.

Theorem C08_token_acquire_spec : forall period now tok,
  acquire_seq period now tok =
  (match tok with None => true | Some m => negb (token_fresh period now m) end,
   match tok with
   | None => Some now
   | Some m => if token_fresh period now m then Some m else Some now
   end).
Proof. exact acquire_seq_spec. Qed.
Print Assumptions C08_token_acquire_spec.

Theorem C08_token_refused_keeps_window : forall period now tok,
  fst (acquire_seq period now tok) = false -> snd (acquire_seq period now tok) = tok.
Proof. exact refused_keeps_token. Qed.
Print Assumptions C08_token_refused_keeps_window.

Theorem C08_starts_not_starved : forall period times tok,
  not_starved period tok (combine times (map fst (starts_hist period tok times))) = true.
Proof. exact starts_not_starved. Qed.
Print Assumptions C08_starts_not_starved.

Theorem C08_starts_rate_ok : forall period times tok,
  rate_ok period tok (combine times (map fst (starts_hist period tok times))) = true.
Proof. exact starts_rate_ok. Qed.
Print Assumptions C08_starts_rate_ok.

(* starts every 13 hours: the third one (26 h after the first) acquires again *)
Example C08_ex_starts_13h :
  map fst (starts_hist 24 None [0; 13; 26; 39; 52]%Z) = [true; false; true; false; true].
Proof. vm_compute. reflexivity. Qed.
