(* C04  Processes sharing a counter file never corrupt it, even when killed.
   Statements only; every proof is `exact <lemma>`.

   Setting (Model/FileConc.v): a state is (file, processes).  `run sched st`
   executes the schedule `sched` (a list of process indices) one program
   point at a time; EVERY list is a schedule, so the theorems below hold for
   all interleavings, and a process killed at some instant is simply one
   that does not occur in the rest of the schedule: all kill sets and kill
   points are covered by the quantification over `sched`.  `init_ok st0`:
   any well-formed file (possibly left by earlier, killed, runs) and any
   number of processes that have just opened it, with arbitrary programs
   (lists of newCounter(name) / add(k)) over arbitrary names; `bucket`
   (the hash), `nlen` (name length) and `H` (header length) are arbitrary. *)
From Coq Require Import List NArith ZArith Bool.
From Tele Require Import Gen.Consts Model.FileConc Proofs.FileConcBase Proofs.FileConcInv
  Proofs.FileConcThms Proofs.FileConcWitness Proofs.FileConcInv2 Proofs.FileConcProgress Proofs.FileConcOracle Proofs.FileConcShapes
  Model.FileCreate Proofs.FileCreateFacts.
Import ListNotations.
Open Scope N_scope.

(* wf_always: at every reachable state the file is well formed
   (wf_shared = wf_layout /\ wf_chains, Proofs/FileConcInv.v: length a whole
   number of pages, limit <= size, records 32-aligned, after the hash table,
   below the limit, pairwise disjoint, none reaching the end of its page, no
   extension write ever hit a record; every chain duplicate-free (acyclic),
   made of completely written records of that bucket, each next field
   pointing to the following element, 0 at the end, names pairwise
   distinct); every linked record is complete, in its bucket, below
   limit <= size; regions that are reserved but not completely written, or
   marked dead, are not reachable from any bucket. *)
Theorem C04_wf_always : forall bucket nlen H st0 sched,
  init_ok bucket nlen H st0 ->
  let f := fst (run bucket nlen H sched st0) in
  wf_shared bucket nlen H f /\ linked_complete bucket nlen H f /\ incomplete_unreachable f.
Proof. exact wf_always. Qed.
Print Assumptions C04_wf_always.

(* one_record_per_name: no name is linked twice, in one bucket or in two *)
Theorem C04_one_record_per_name : forall bucket nlen H st0 sched,
  init_ok bucket nlen H st0 ->
  let f := fst (run bucket nlen H sched st0) in
  forall b1 b2 o1 o2 nm, In o1 (f_chain f b1) -> In o2 (f_chain f b2) ->
    name_at f o1 = Some nm -> name_at f o2 = Some nm -> b1 = b2 /\ o1 = o2.
Proof. exact one_record_per_name. Qed.
Print Assumptions C04_one_record_per_name.

(* monotone_bounded (1): no step of any process, from any reachable state,
   decreases a value, the limit or the size (and records keep their name) *)
Theorem C04_monotone : forall bucket nlen H st0 sched i,
  init_ok bucket nlen H st0 ->
  let st := run bucket nlen H sched st0 in
  let st' := step bucket nlen H st i in
  f_size (fst st) <= f_size (fst st') /\ f_limit (fst st) <= f_limit (fst st') /\
  forall o r, find_rec o (f_recs (fst st)) = Some r ->
    exists r', find_rec o (f_recs (fst st')) = Some r' /\ r_name r' = r_name r /\ r_val r <= r_val r'.
Proof. exact monotone. Qed.
Print Assumptions C04_monotone.

(* monotone_bounded (2) and exactness: at every reachable state every value
   is the saturated sum of its initial value and the increments whose cell
   CAS has succeeded (total), which is at most the increments begun on it *)
Theorem C04_bounded : forall bucket nlen H st0 sched,
  init_ok bucket nlen H st0 ->
  let st := run bucket nlen H sched st0 in
  forall r, In r (f_recs (fst st)) ->
    r_val r = sat (r_init r + total (r_off r) (snd st)) /\
    total (r_off r) (snd st) <= total_begun (r_off r) (snd st) /\
    r_val r <= sat (r_init r + total_begun (r_off r) (snd st)).
Proof. exact bounded. Qed.
Print Assumptions C04_bounded.

(* the ledger `total` sums over is exact: a process's t_succ grows exactly
   when its cell CAS succeeds, by (cell, amount) *)
Theorem C04_ledger_exact : forall bucket nlen H i f t,
  wf_shared bucket nlen H f -> (forall r, In r (f_recs f) -> r_val r <= MAX64) -> tinv bucket nlen H i f t ->
  let oa := fst (step_thread bucket nlen H i f t) in
  let t' := snd (step_thread bucket nlen H i f t) in
  match oa with
  | Some (AVal c v) => exists k, v = cell_add (load_val f c) k /\ t_succ t' = (c, k) :: t_succ t
  | _ => t_succ t' = t_succ t
  end.
Proof. exact ledger_exact. Qed.
Print Assumptions C04_ledger_exact.

(* exact_at_quiescence: for every kill set, once the survivors have returned,
   every value is the saturated sum of the increments whose cell CAS
   succeeded; a survivor has nothing pending (all it began has succeeded), a
   killed process has at most its last increment pending *)
Theorem C04_exact_at_quiescence : forall bucket nlen H st0 sched (killed : nat -> Prop),
  init_ok bucket nlen H st0 ->
  let st := run bucket nlen H sched st0 in
  (forall i t, nth_error (snd st) i = Some t -> ~ killed i -> t_pc t = Done) ->
  (forall r, In r (f_recs (fst st)) -> r_val r = sat (r_init r + total (r_off r) (snd st))) /\
  (forall i t, nth_error (snd st) i = Some t -> ~ killed i -> t_begun t = t_succ t) /\
  (forall i t, nth_error (snd st) i = Some t -> killed i ->
     t_begun t = t_succ t \/ exists c k, t_begun t = (c, k) :: t_succ t).
Proof. exact exact_at_quiescence. Qed.
Print Assumptions C04_exact_at_quiescence.

(* survivor_not_failed is REFUTED (known finding, class survivor-errcorrupt):
   two processes on the empty file, nobody killed, all names non-empty: the
   process with the one-page mapping loses its head CAS to a same-bucket
   record placed on page 2 and its duplicate walk fails (errCorrupt) *)
Theorem C04_survivor_failed_refuted :
  (forall nm, 1 <= w_nlen nm) /\ init_ok w_bucket w_nlen w_H w_st0 /\
  let st := run w_bucket w_nlen w_H w_sched w_st0 in
  results_of st 0%nat = [RCell 2208; RCell 6304; RCell 10400; RCell 16384] /\
  results_of st 1%nat = [RFail FBeyond] /\
  pc_of st 0%nat = Some Done /\ pc_of st 1%nat = Some Done /\
  f_size (fst st) = 32768 /\ f_chain (fst st) 1 = [16384].
Proof. exact (conj w_nlen_pos (conj w_init_ok w_run)). Qed.
Print Assumptions C04_survivor_failed_refuted.

(* the other route of the same class: ten remaps do not catch up with a
   process that keeps extending the file and linking records of the bucket
   (t_sched is computed by the driver t_rounds of Proofs/FileConcWitness.v) *)
Theorem C04_survivor_failed_refuted_tries :
  (forall nm, 1 <= w_nlen nm) /\ init_ok w_bucket w_nlen w_H t_st0 /\
  let st := run w_bucket w_nlen w_H t_sched t_st0 in
  results_of st 1%nat = [RFail FTries] /\ pc_of st 1%nat = Some Done /\
  forallb (fun r => match r with RCell _ => true | RFail _ => false end) (results_of st 0%nat) = true.
Proof. exact (conj w_nlen_pos (conj t_init_ok t_run)). Qed.
Print Assumptions C04_survivor_failed_refuted_tries.

(* survivor_not_failed, positive part: whatever the other processes do and
   whoever is killed, a call of newCounter fails only
   - for its own empty or over-long name (FEmpty, FTooLong), or
   - in the stale-mapping class of the known finding: the duplicate walk met
     an entry beyond the mapping (FBeyond) or ten remaps did not catch up
     (FTries), or
   - because the reservation would pass 4 GiB: errCorrupt of fix 633eed3 (FRange);
   in particular the cycle guards, writeEntryAt's bounds test, extend's
   length test and the two "corrupt limit" tests never fire. *)
Theorem C04_failures_classified : forall bucket nlen H st0 sched, init_ok bucket nlen H st0 ->
  forall i t e, nth_error (snd (run bucket nlen H sched st0)) i = Some t -> In (RFail e) (t_res t) ->
    e = FEmpty \/ e = FTooLong \/ e = FBeyond \/ e = FTries \/ e = FRange.
Proof. exact failures_classified. Qed.
Print Assumptions C04_failures_classified.

(* WHEN a call can fail, at every reachable state of every schedule: the
   failures one step appends to a process's results are its own argument
   (FEmpty, FTooLong), the 4 GiB test (FRange), FBeyond only if the process
   has already reserved and written its record (`mine`: it is in the link
   loop), FTries only after ten re-maps (t_tries counts them).  So a call that
   has reserved nothing and re-mapped fewer than ten times is never failed by
   what other processes do: the two shapes of the known finding
   survivor-errcorrupt are the only ones; the runner reports any other
   errCorrupt of a survivor as class survivor-errcorrupt-early. *)
Theorem C04_failure_shapes : forall bucket nlen H st0 sched i t,
  init_ok bucket nlen H st0 ->
  nth_error (snd (run bucket nlen H sched st0)) i = Some t ->
  let f := fst (run bucket nlen H sched st0) in
  exists l, t_res (snd (step_thread bucket nlen H i f t)) = t_res t ++ l /\
    forall e, In (RFail e) l ->
      e = FEmpty \/ e = FTooLong \/ e = FRange \/
      (e = FBeyond /\ mine i f (t_start t) (t_nm t) true true) \/
      (e = FTries /\ 10 <= t_tries t).
Proof. exact failure_shapes_reachable. Qed.
Print Assumptions C04_failure_shapes.

(* the allocation limit is never beyond the end of the file: at every instant
   of every schedule (so at every kill point), and the only step that moves
   the limit moves it to an offset the file had ALREADY reached before that
   step (the file is extended first, the limit published by CAS afterwards).
   The runner checks it on the implementation after every call of every
   process, with kills at every call and failing writes (suite create,
   scenarios grow / grow-fault, class limit-beyond-file). *)
Theorem C04_limit_within_file : forall bucket nlen H st0 sched i, init_ok bucket nlen H st0 ->
  let st := run bucket nlen H sched st0 in
  f_limit (fst st) <= f_size (fst st) /\
  (f_limit (fst (step bucket nlen H st i)) <> f_limit (fst st) ->
   f_limit (fst (step bucket nlen H st i)) <= f_size (fst st)).
Proof. exact limit_within_file. Qed.
Print Assumptions C04_limit_within_file.

(* the caller's mapping: t_map0 is the mapping the process held when it called
   newCounter (its other goroutines' counters point into it).  No step inside
   a call replaces it: it changes only in a step in which a call returns (the
   results grow); what the call re-maps or extends is its own t_map.  The
   runner checks the same on the implementation: a call must not unmap the
   mapping its caller holds (class caller-mapping-closed). *)
Theorem C04_caller_mapping_kept : forall bucket nlen H me f t,
  length (t_res (snd (step_thread bucket nlen H me f t))) = length (t_res t) ->
  t_map0 (snd (step_thread bucket nlen H me f t)) = t_map0 t.
Proof. exact caller_mapping_kept. Qed.
Print Assumptions C04_caller_mapping_kept.

(* nonblocking.  phi (Proofs/FileConcProgress.v) bounds the
   steps a process still needs for its current call; it depends on the file
   and on the process's own locals only, never on another process's program
   point, so a killed process holds nothing anybody waits for.
   progress f' t t' b := the call completed (fewer calls remain) or
   (same calls remain and phi f' t' < b). *)
Theorem C04_nonblocking : forall bucket nlen H st0 sched, init_ok bucket nlen H st0 ->
  let st := run bucket nlen H sched st0 in
  forall i t, nth_error (snd st) i = Some t ->
  (t_pc t <> Done ->
     exists t', nth_error (snd (step bucket nlen H st i)) i = Some t' /\
                progress bucket nlen H (fst (step bucket nlen H st i)) t t' (phi bucket nlen H (fst st) t)) /\
  (forall j, j <> i ->
     nth_error (snd (step bucket nlen H st j)) i = Some t /\
     phi bucket nlen H (fst (step bucket nlen H st j)) t
       <= phi bucket nlen H (fst st) t + 20 + 2 * Lc (fst (step bucket nlen H st j)) (bucket (t_nm t)) /\
     (~ cas_step bucket nlen H st j ->
        phi bucket nlen H (fst (step bucket nlen H st j)) t <= phi bucket nlen H (fst st) t)) /\
  (exists k t', nth_error (snd (run bucket nlen H (repeat i k) st)) i = Some t' /\ t_pc t' = Done).
Proof. exact nonblocking. Qed.
Print Assumptions C04_nonblocking.

(* the empty counter name (was the finding empty-name; fixed in /repo by
   342cd17): newCounter("") fails with its own error class before anything
   is read or written, like an over-long name; hence (C04_wf_always) every
   linked record has a name of at least one byte, with no hypothesis on the
   names the processes use *)
Theorem C04_empty_name_rejected : forall (nlen : name -> N) nm ops t, nlen nm = 0 ->
  dispatch nlen (OpNew nm :: ops) t = dispatch nlen ops (push_res (RFail FEmpty) (set_cell 0 t)).
Proof. exact empty_name_rejected. Qed.
Print Assumptions C04_empty_name_rejected.

Example C04_empty_name_example :
  results_of e_st0 0%nat = [RFail FEmpty] /\ pc_of e_st0 0%nat = Some Done /\
  let st := run w_bucket e_nlen w_H e_sched e_st0 in
  results_of st 0%nat = [RFail FEmpty] /\ results_of st 1%nat = [RCell 2176] /\
  f_chain (fst st) 7 = [2176] /\
  option_map r_name (find_rec 2176 (f_recs (fst st))) = Some 519 /\ e_nlen 7 = 0.
Proof. exact e_run. Qed.

(* the executable oracles that the runner evaluates on the decoded REAL file
   bytes (wf_obsb: well-formedness; uniq_obsb: one record per name; both in
   Model/FileConc.v) hold of the view of every reachable model file: the
   oracle asks of the implementation no more than the theorems establish *)
Theorem C04_oracle_accepts_reachable : forall bucket nlen H st0 sched, init_ok bucket nlen H st0 ->
  let f := fst (run bucket nlen H sched st0) in
  wf_obsb bucket nlen H false (obs_of f) = true /\ uniq_obsb (obs_of f) = true.
Proof. exact oracle_accepts_reachable. Qed.
Print Assumptions C04_oracle_accepts_reachable.

(* ---- creation of the file (Model/FileCreate.v: openMapped at the granularity
   of its file-system calls; the file abstracted to its length and the
   presence of the header).  From any file a killed creator may have left
   (cfile_ok: the header is there once the file has its full length; e.g.
   absent, empty, header only) and any number of openers, for every schedule
   and kill set: every process that finishes opening has succeeded, with a
   mapping of at least minFileLen bytes of a file that has its header ... *)
Theorem C04_create_total : forall HL st0 sched i o ok, cinit st0 ->
  nth_error (snd (crun true HL sched st0)) i = Some o -> o_pc o = CDone ok ->
  ok = true /\ MINLEN <= o_map o /\ c_hdr (fst (crun true HL sched st0)) = true /\
  MINLEN <= c_size (fst (crun true HL sched st0)).
Proof. exact create_total. Qed.
Print Assumptions C04_create_total.

(* ... and an opener running alone, on whatever file, is done after six calls *)
Theorem C04_create_solo_done : forall HL f, exists ok, o_pc (snd (solo HL 6 f fresh_opener)) = CDone ok.
Proof. exact create_solo_done. Qed.
Print Assumptions C04_create_solo_done.

(* what initialising EVERY short file is needed for: if only an empty file is
   initialised, a creator killed between its two writes leaves a file that no
   later opener can ever open *)
Theorem C04_create_only_empty_refuted :
  let st0 := (mkC 0 false, [fresh_opener; fresh_opener]) in
  let st := FileCreate.crun false 192 [0; 0; 0; 1; 1]%nat st0 in
  c_size (fst st) = 192 /\ option_map o_pc (nth_error (snd st) 1) = Some (CDone false) /\
  forall k, option_map o_pc (nth_error (snd (FileCreate.crun false 192 (repeat 1%nat k) st)) 1) = Some (CDone false).
Proof. exact create_only_empty_refuted. Qed.
Print Assumptions C04_create_only_empty_refuted.

(* non-vacuity: the hypotheses are satisfiable and the model computes *)
Example C04_init_nonvacuous : init_ok w_bucket w_nlen w_H w_st0.
Proof. exact w_init_ok. Qed.
Example C04_model_runs :
  f_limit (fst (run w_bucket w_nlen w_H w_sched w_st0)) = 20480.
Proof. vm_compute. reflexivity. Qed.
