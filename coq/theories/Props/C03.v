(* C03  Concurrent increments are counted exactly once and never crash the
   program.  Statements only; every proof is `exact <lemma>`.

   The object: Model/CounterConc, the transition system of one counter's
   state word, pointer, current mapping and persisted cells, one step per
   atomic operation of Add / releaseReader / releaseLock / add / invalidate /
   refresh / file.lookup and of the mapping changers (first open and rotation
   = rotate1, growth = newCounter1's cleanup).  `run np sched st` executes an
   arbitrary schedule (list of thread indices); threads: any number of adders
   with any amounts and any number of changers (`good_init`). *)
From Coq Require Import List ZArith NArith Bool.
From Tele Require Import Gen.Consts Gen.GoFns Model.CounterConc Proofs.CounterWord Proofs.CounterInv Proofs.CounterThms Proofs.GoFnsCounter.
From Tele Require Import Model.Register Proofs.RegisterFacts Proofs.CounterFault Proofs.CounterProgress Proofs.CounterMono.
From Tele Require Import Model.CounterMulti Proofs.CounterMultiFacts.
From Tele Require Proofs.CounterMultiCtl2 Proofs.CounterMultiCtl3.
From Tele Require Import Proofs.CounterMultiCtl.
Import ListNotations.
Open Scope Z_scope.

(* No wrap-around, at every instant of every interleaving: the state word is a
   64-bit value with extra <= 2^33-1; its reader field is the lock value or
   exactly the number of goroutines inside the reader section (never under- or
   overflows); every persisted cell is a 64-bit value. *)
Theorem C03_no_wrap : forall np s0 ts0 sched, good_init s0 ts0 ->
  let '(s, ts) := run np sched (s0, ts0) in
  0 <= s_word s < W64 /\ 0 <= w_extra (s_word s) <= MAXEXTRA /\
  (w_readers (s_word s) = LOCKED \/
   (w_readers (s_word s) = sumf rd ts /\ sumf rd ts <= Z.of_nat (length ts))) /\
  Forall (fun c => 0 <= c < W64) (s_cells s).
Proof. exact no_wrap. Qed.
Print Assumptions C03_no_wrap.

(* ... and as a statement about histories: between any two instants of any
   schedule (sched1, then sched2 more steps) no cell of any counter file goes
   down and none disappears, so the persisted value (the sum over the
   process's files) never goes down either - at the limit it sticks.  The
   harness checks the same on the implementation's observations (clause
   no-wrap; scenarios whose persisted value starts a few units below 2^64-1). *)
Theorem C03_persisted_never_decreases : forall np s0 ts0 sched1 sched2, good_init s0 ts0 ->
  let s1 := fst (run np sched1 (s0, ts0)) in
  let s2 := fst (run np (sched1 ++ sched2) (s0, ts0)) in
  cells_le (s_cells s1) (s_cells s2) /\ persisted s1 <= persisted s2.
Proof. exact persisted_never_decreases. Qed.
Print Assumptions C03_persisted_never_decreases.

(* Saturation instead of wrapping (one-step facts about the two adds). *)
Theorem C03_add_extra_saturates : forall w n, 0 <= w < W64 -> 0 <= n ->
  w_extra w <= w_extra (w_add_extra w n) <= MAXEXTRA /\
  w_extra (w_add_extra w n) <= w_extra w + n /\
  w_readers (w_add_extra w n) = w_readers w /\ w_have (w_add_extra w n) = w_have w.
Proof. exact add_extra_no_wrap. Qed.
Print Assumptions C03_add_extra_saturates.
Theorem C03_cell_add_saturates : forall old n, 0 <= old < W64 -> 0 <= n ->
  old <= cell_add old n <= old + n /\ cell_add old n < W64 /\
  ((W64 <=? old + n) = false -> cell_add old n = old + n).
Proof. exact cell_add_bounds. Qed.
Print Assumptions C03_cell_add_saturates.

(* At every instant: persisted value (summed over the process's files) plus
   the in-memory extra never exceeds the sum of the increments begun
   (sumf unbegun ts0 - sumf unbegun ts = amounts of the Adds that have started). *)
Theorem C03_upper_bound : forall np s0 ts0 sched, good_init s0 ts0 ->
  let '(s, ts) := run np sched (s0, ts0) in
  persisted s + w_extra (s_word s)
  <= persisted s0 + w_extra (s_word s0) + (sumf unbegun ts0 - sumf unbegun ts).
Proof. exact upper_bound. Qed.
Print Assumptions C03_upper_bound.

(* Once all calls have returned (and no amount reached a saturation limit):
   persisted + extra equals the sum of all increments, and no reader or lock
   is left on the word. *)
Theorem C03_exact_at_quiescence : forall np s0 ts0 sched, good_init s0 ts0 ->
  let '(s, ts) := run np sched (s0, ts0) in
  all_done ts = true -> s_sat s = false ->
  persisted s + w_extra (s_word s) = persisted s0 + w_extra (s_word s0) + sumf unbegun ts0 /\
  w_readers (s_word s) = 0.
Proof. exact exact_at_quiescence. Qed.
Print Assumptions C03_exact_at_quiescence.

(* Once a counter file is open and all calls have returned, nothing remains
   unpersisted (extra = 0), and a valid pointer refers to the current mapping:
   after a rotation increments land only in the new file. *)
Theorem C03_nothing_unpersisted : forall np s0 ts0 sched, good_init s0 ts0 ->
  let '(s, ts) := run np sched (s0, ts0) in
  all_done ts = true -> s_cur s <> None ->
  w_extra (s_word s) = 0 /\ (w_have (s_word s) = true -> s_ptr s = s_cur s).
Proof. exact nothing_unpersisted. Qed.
Print Assumptions C03_nothing_unpersisted.

(* No call dereferences a nil counter pointer (the `Crash` program point of
   Counter.add is unreachable). *)
Theorem C03_no_nil_deref : forall np s0 ts0 sched, good_init s0 ts0 ->
  Forall (fun t => crashed t = false) (snd (run np sched (s0, ts0))).
Proof. exact no_nil_deref. Qed.
Print Assumptions C03_no_nil_deref.

(* The layout constants the proofs depend on are the ones in the Go source. *)
Theorem C03_layout : LOCKED = HAVE - 1 /\ XUNIT = 2 * HAVE /\ (MAXEXTRA + 1) * XUNIT = W64 /\
  Z.of_N c_stateReaders = LOCKED /\ Z.of_N c_stateExtra = MAXEXTRA * XUNIT.
Proof. exact layout_facts. Qed.
Print Assumptions C03_layout.

(* The state-word operations of the model ARE the Go methods: Gen/GoFns.v is
   regenerated from internal/counter/counter.go on every run by the
   translator harness/tools/gofns, and for every 64-bit word (and every uint64
   amount) each translated method equals the model's operation. *)
Theorem C03_word_ops_are_the_go_code : forall b, 0 <= b < W64 ->
  go_counterStateBits_readers b = w_readers b /\
  go_counterStateBits_locked b = w_locked b /\
  go_counterStateBits_havePtr b = w_have b /\
  go_counterStateBits_extra b = w_extra b /\
  go_counterStateBits_incReader b = w_inc_reader b /\
  go_counterStateBits_decReader b = w_dec_reader b /\
  go_counterStateBits_setLocked b = w_set_locked b /\
  go_counterStateBits_clearLocked b = w_clear_locked b /\
  go_counterStateBits_setHavePtr b = w_set_have b /\
  go_counterStateBits_clearHavePtr b = w_clear_have b /\
  go_counterStateBits_clearExtra b = w_clear_extra b /\
  (forall n, 0 <= n < W64 -> go_counterStateBits_addExtra b n = w_add_extra b n).
Proof. exact word_ops_are_go. Qed.
Print Assumptions C03_word_ops_are_the_go_code.

(* No call waits for another goroutine: from EVERY reachable state, a call that
   is given the processor alone (schedule `repeat i n`) returns within `rank`
   of its own steps, where rank <= 116 + (the no-op operations of a changer)
   whatever the other goroutines were doing when they stopped running -- there
   is no spin-wait and no lock that another goroutine must release.  (Every
   retry in an arbitrary schedule is a failed CAS, i.e. caused by another
   goroutine's successful write: the protocol is lock-free.) *)
Theorem C03_no_call_waits : forall np s0 ts0 sched i t, good_init s0 ts0 ->
  nth_error (snd (run np sched (s0, ts0))) i = Some t ->
  exists n, (n <= rank np (fst (run np sched (s0, ts0))) t)%nat /\
    forall t', nth_error (snd (run np (repeat i n) (run np sched (s0, ts0)))) i = Some t' -> live t' = false.
Proof. exact solo_completes. Qed.
Print Assumptions C03_no_call_waits.
Theorem C03_call_length_bound : forall np s t, (forall k, t_pc t <> CNop k) -> (rank np s t <= rank_bound np)%nat.
Proof. exact rank_bounded. Qed.
Print Assumptions C03_call_length_bound.

(* The lock-free registration of counters in the file's list (file.register),
   any number of goroutines, several of which may register the same counter,
   every interleaving of the individual atomic operations: at every instant the
   list from the head is a duplicate-free chain ending at the end marker, and
   once all calls have returned every registered counter is in it (so every
   later invalidation reaches it). *)
Theorem C03_registration_list_well_formed : forall n who sched, Forall (fun c => c < n)%nat who ->
  let '(s, ts) := rrun sched (rinit n who) in
  exists l, HeadChain s l /\ NoDup l /\ (forall c, In c l -> (c < length (r_next s))%nat).
Proof. exact list_well_formed. Qed.
Print Assumptions C03_registration_list_well_formed.
Theorem C03_registration_complete : forall n who sched, Forall (fun c => c < n)%nat who ->
  let '(s, ts) := rrun sched (rinit n who) in
  forallb rdone ts = true ->
  exists l, HeadChain s l /\ NoDup l /\ forall t, In t ts -> In (rt_c t) l.
Proof. exact all_registered. Qed.
Print Assumptions C03_registration_complete.
Theorem C03_registration_oracle : forall n who sched, Forall (fun c => c < n)%nat who ->
  let '(s, ts) := rrun sched (rinit n who) in
  list_ok s = true /\ (forallb rdone ts = true -> quiescent_ok s ts = true).
Proof. exact oracle_accepts. Qed.
Print Assumptions C03_registration_oracle.

(* A register call can RETURN BEFORE its counter is on the list: a second
   goroutine finds c.next already set by the goroutine that claimed the counter
   and has not linked it yet (C03_register_early_return: computed witness).
   Before fix f518e0b the second goroutine's Add could then look the pointer up
   with no file mapped and return, the opener's invalidateCounters walk -
   started before the link - missed the counter, and the counter kept havePtr
   with a nil pointer: its increments stayed in memory with the file open (found
   by the multi-counter oracle scenarios of suite conc, thorough tier).  At
   every instant a returned call's counter is on the list or claimed by exactly
   one call that is still on its way to link it; that call now runs
   c.invalidate() and c.refresh() after linking (program points RInv, RRef). *)
Theorem C03_register_returned_means_listed_or_claimed : forall n who sched, Forall (fun c => c < n)%nat who ->
  let '(s, ts) := rrun sched (rinit n who) in
  forall t, In t ts -> rt_pc t = RDone ->
  exists l, HeadChain s l /\
    (In (rt_c t) l \/
     exists j u, nth_error ts j = Some u /\ rt_c u = rt_c t /\ rt_wrote u = true /\
       (rt_pc u = RHead \/ rt_pc u = RNext \/ rt_pc u = RLink \/ rt_pc u = RDbgFail)).
Proof. exact returned_means_listed_or_claimed. Qed.
Print Assumptions C03_register_returned_means_listed_or_claimed.
Theorem C03_register_early_return :
  let '(s, ts) := rrun [0; 0; 0; 0; 1; 1]%nat (rinit 1 [0; 0]%nat) in
  exists t, nth_error ts 1 = Some t /\ rt_pc t = RDone /\ r_head s = PNil.
Proof. exact early_return_before_link. Qed.
Print Assumptions C03_register_early_return.

(* REFUTED clause (known finding `use-after-unmap`): "no call faults" is false of
   the faithful model: a reader parked before its cell load while a changer
   stores a new mapping, invalidates, refreshes and closes the old mapping then
   accesses a closed mapping. *)
Definition uau_init : state :=
  (mkS HAVE (Some 0%nat) (Some 0%nat) [0%nat] [] [5] 0 false false None true, [adder 1; changer SameFile]).
Definition uau_sched : list nat := ([0; 0; 0; 1; 1; 1; 1; 1; 1; 1] ++ repeat 0 20)%nat.
Theorem C03_no_fault_refuted :
  good_init (fst uau_init) (snd uau_init) /\
  0 < s_faults (fst (run default_nops uau_sched uau_init)) /\
  all_done (snd (run default_nops uau_sched uau_init)) = true.
Proof.
  split; [|split; vm_compute; reflexivity].
  unfold good_init, uau_init. cbn [fst snd]. split; [vm_compute; split; [discriminate|reflexivity]|].
  split.
  { unfold wf. cbn. repeat split; try (intros g H; injection H as <-; auto);
      repeat constructor; vm_compute; try discriminate; reflexivity. }
  split; [constructor; [left; split; vm_compute; [reflexivity|discriminate] | constructor; [right; split; reflexivity | constructor]]|].
  split; [vm_compute; reflexivity|]. split; [vm_compute; reflexivity|].
  unfold init_clean. cbn [s_ptr s_cur s_word]. split; [intros _; reflexivity|]. split; [intros _ _; vm_compute; reflexivity|].
  vm_compute. intros H; discriminate H.
Qed.
Print Assumptions C03_no_fault_refuted.

(* ... and that is the ONLY way a fault can arise: a closed mapping is never the
   counter's pointer while a call could enter a section through it (havePtr is
   clear, or the lock holder is inside lookup and about to overwrite it), so no
   call ever ENTERS its reader section or starts a flush through a closed
   mapping; an access through a closed mapping is made only by a call that was
   already inside such a section when the mapping was closed (the known
   finding).  The oracle class `entered-through-closed-mapping` is therefore an
   ordinary violation. *)
Theorem C03_closed_pointer_unusable : forall np s0 ts0 sched, good_init2 s0 ts0 ->
  let '(s, ts) := run np sched (s0, ts0) in
  forall g, In g (s_closed s) -> s_ptr s = Some g ->
  w_have (s_word s) = false \/ 1 <= sumf look ts.
Proof. exact closed_pointer_unusable_from_init. Qed.
Print Assumptions C03_closed_pointer_unusable.
Theorem C03_no_entry_through_closed_mapping : forall np s0 ts0 sched i u s' u', good_init2 s0 ts0 ->
  let '(s, ts) := run np sched (s0, ts0) in
  nth_error ts i = Some u -> step_thread np s u = (s', u') ->
  (t_pc u = ACas /\ t_pc u' = ACellLoad) \/ (t_pc u = LCas /\ t_pc u' = LCellLoad) ->
  forall g, s_ptr s = Some g -> ~ In g (s_closed s).
Proof. exact no_entry_through_closed. Qed.
Print Assumptions C03_no_entry_through_closed_mapping.

(* Growth of the file from inside a call: when the record of the counter does
   not fit, the lock holder's own file.lookup extends the file, stores the new
   mapping, invalidates and refreshes every counter (its own too) and closes
   the previous mapping before it returns.  From the end of that invalidate the
   thread holds the lock with havePtr clear, so the pointer lookup returned is
   never used: the CAS on the saved word fails and the counter is looked up
   again (all theorems above cover these steps too: the transition system
   includes them). *)
Theorem C03_grower_must_look_up_again : forall np s0 ts0 sched, good_init s0 ts0 ->
  let '(s, ts) := run np sched (s0, ts0) in
  forall i t, nth_error ts i = Some t -> t_pc t = GRfLoad \/ t_pc t = GClose ->
  w_have (s_word s) = false /\ w_readers (s_word s) = LOCKED.
Proof. exact grower_must_look_up_again. Qed.
Print Assumptions C03_grower_must_look_up_again.

(* Non-vacuity: a concrete run with three adders and a rotation ends with
   everything persisted. *)
Example C03_example_run :
  let st := run default_nops
      [0;1;2;3; 3;3;3;3;3;3; 0;0;0;0;0;0;0;0;0;0; 1;1;1;1;1;1;1;1;1;1;1; 2;2;2;2;2;2;2;2;2;2;2]%nat
      (mkS 0 None None [] [] [] 0 false false None false, [adder 2; adder 3; adder 4; changer NewFile]) in
  all_done (snd st) = true /\ persisted (fst st) = 9 /\ w_extra (s_word (fst st)) = 0.
Proof. vm_compute. repeat split; reflexivity. Qed.

(* a full file: the first Add extends it from inside its lookup (mapping 1 of
   file 0), closes mapping 0, looks the counter up again and persists 3; a
   second adder interleaved with the growth ends in the same file *)
Example C03_example_inline_growth :
  let st := run default_nops (repeat 0 40 ++ repeat 1 20)%nat
      (mkS 0 None (Some 0%nat) [0%nat] [] [0] 0 false true None true, [adder 3; adder 4]) in
  all_done (snd st) = true /\ persisted (fst st) = 7 /\ w_extra (s_word (fst st)) = 0 /\
  s_cur (fst st) = Some 1%nat /\ s_ptr (fst st) = Some 1%nat /\ s_closed (fst st) = [0%nat] /\ s_full (fst st) = false.
Proof. vm_compute. repeat split; reflexivity. Qed.
Example C03_example_inline_growth_interleaved :
  let st := run default_nops ([0;0;0;0;0;0;0; 1;1;1; 0;0;0; 1;1] ++ repeat 0 40 ++ repeat 1 30)%nat
      (mkS 0 None (Some 0%nat) [0%nat] [] [0] 0 false true None true, [adder 3; adder 4]) in
  all_done (snd st) = true /\ persisted (fst st) = 7 /\ w_extra (s_word (fst st)) = 0 /\
  s_closed (fst st) = [0%nat].
Proof. vm_compute. repeat split; reflexivity. Qed.

(* the first open, by a process with a pending increment, of an existing file
   that has no room: the opener's own refresh-lookup extends the file (its
   cleanup runs inside the outer one); afterwards everything is persisted in the
   file, the first mapping is closed, and the counter points into the second *)
Example C03_example_open_of_full_file :
  let st := run default_nops (repeat 0 60 ++ repeat 1 30)%nat
      (mkS (3 * XUNIT) None None [] [] [] 0 false false None false, [changer FullFile; adder 4]) in
  all_done (snd st) = true /\ persisted (fst st) = 7 /\ w_extra (s_word (fst st)) = 0 /\
  s_cur (fst st) = Some 1%nat /\ s_ptr (fst st) = Some 1%nat /\ s_closed (fst st) = [0%nat] /\ s_full (fst st) = false.
Proof. vm_compute. repeat split; reflexivity. Qed.

(* ---- SEVERAL counters of one file object (Model/CounterMulti) ----
   N counters; threads `adderM nc k n` (Counter.Add(n) on counter k INCLUDING
   file.register: the claim of c.next, the CAS on the list head, and the
   registrar's invalidate+refresh of fix f518e0b) and `changerM nc tg` (rotate1:
   store of a new mapping, then file.invalidateCounters over EVERY counter of
   the list it loaded - all invalidates, then all refreshes - then the close);
   a lookup that finds the file full extends it inline and runs the same walk
   nested.  One atomic operation of the real code per step; the per-counter
   work of a step IS `step_thread` of Model/CounterConc on that counter's view
   (`proj k`), and `tsproj k` lists, for every multi thread, the (three)
   CounterConc threads it is in counter k's eyes.

   Hypotheses that recur: `mgood` (initial state: fresh threads, every
   counter's view a good single-counter initial state), `reg_init` (a counter
   is on the list, or untouched), and the two flags of the FINAL state:
   `ms_bad = false` (the run stayed inside the modelled envelope: no thread's
   lookups extended the file twice, and no Add extended the file on a counter
   that another goroutine was still registering) and `ms_chk = false` (the
   run-time self checks of the multi-level control never failed; the lock-step
   suite reports a set flag as a DIFF).  Both flags are monotone. *)

(* For EVERY counter k, every step of the multi system is a stutter, ONE step
   of the single-counter system, or one of two transitions of a changer thread
   that the single-counter system does not have: the registrar takes on its
   invalidate+refresh (CIdle -> IvLoad), or a changer drops its
   invalidate+refresh of a counter that is NOT on the list it loaded
   (IvLoad -> close), which is allowed only then. *)
Theorem C03_multi_step_projects_with_flags : forall k st i, (k < length (ms_ctrs (fst st)))%nat ->
  ms_chk (fst (mstep st i)) = false -> ms_bad (fst (mstep st i)) = false ->
  xstep (memn k (ms_list (fst st))) (sproj k st) (sproj k (mstep st i)).
Proof. exact mstep_projects. Qed.
Print Assumptions C03_multi_step_projects_with_flags.

(* ... hence the single-counter invariant holds of every counter's view at every
   instant of every multi schedule - also while a counter is claimed but not yet
   linked and a walk misses it: the claimer's pending redo answers for it
   (the race repaired by f518e0b; without the redo the skip has no justification). *)
Theorem C03_multi_invariant_with_flags : forall ms0 ts0 sched k, mgood ms0 ts0 -> reg_init ms0 ->
  ms_chk (fst (mrun sched (ms0, ts0))) = false -> ms_bad (fst (mrun sched (ms0, ts0))) = false ->
  (k < length (ms_ctrs ms0))%nat ->
  Inv (total_k k ms0 ts0) (sproj k (mrun sched (ms0, ts0))) /\
  Forall (fun t => done_ok t = true) (snd (mrun sched (ms0, ts0))).
Proof. exact multi_inv. Qed.
Print Assumptions C03_multi_invariant_with_flags.

(* every counter, at every instant: persisted + pending <= increments begun on it *)
Theorem C03_multi_upper_bound_with_flags : forall ms0 ts0 sched k, mgood ms0 ts0 -> reg_init ms0 ->
  let '(ms, ts) := mrun sched (ms0, ts0) in
  ms_chk ms = false -> ms_bad ms = false -> (k < length (ms_ctrs ms0))%nat ->
  persisted (proj k ms) + w_extra (c_word (getc ms k))
  <= persisted (proj k ms0) + w_extra (c_word (getc ms0 k)) + (sumf unbegun (tsproj k ts0) - sumf unbegun (tsproj k ts)).
Proof. exact multi_upper_bound. Qed.
Print Assumptions C03_multi_upper_bound_with_flags.

(* every counter, once all calls have returned and nothing saturated:
   persisted + pending = all increments on it, no reader or lock left *)
Theorem C03_multi_exact_at_quiescence_with_flags : forall ms0 ts0 sched k, mgood ms0 ts0 -> reg_init ms0 ->
  let '(ms, ts) := mrun sched (ms0, ts0) in
  ms_chk ms = false -> ms_bad ms = false -> (k < length (ms_ctrs ms0))%nat ->
  m_all_done ts = true -> c_sat (getc ms k) = false ->
  persisted (proj k ms) + w_extra (c_word (getc ms k))
  = persisted (proj k ms0) + w_extra (c_word (getc ms0 k)) + sumf unbegun (tsproj k ts0) /\
  w_readers (c_word (getc ms k)) = 0.
Proof. exact multi_exact_at_quiescence. Qed.
Print Assumptions C03_multi_exact_at_quiescence_with_flags.

(* no call on any counter dereferences a nil counter pointer *)
Theorem C03_multi_no_nil_deref_with_flags : forall ms0 ts0 sched k, mgood ms0 ts0 -> reg_init ms0 ->
  let '(ms, ts) := mrun sched (ms0, ts0) in
  ms_chk ms = false -> ms_bad ms = false -> (k < length (ms_ctrs ms0))%nat ->
  Forall (fun u => crashed u = false) (tsproj k ts).
Proof. exact multi_no_nil_deref. Qed.
Print Assumptions C03_multi_no_nil_deref_with_flags.

(* Non-vacuity, the race of f518e0b: counter 0 registered with 2 pending, counter 1
   fresh; goroutine 0 (Add 3 on counter 1) claims c.next and stops before linking;
   goroutine 1 (Add 2 on counter 1) finds the counter claimed and adds: it looks the
   pointer up with no file mapped; the opener (goroutine 2) runs to its end - its
   walk misses counter 1; goroutine 0 links, redoes invalidate+refresh, adds.
   Everything is persisted, both flags are clear. *)
Example C03_multi_example_registration_race :
  let st := mrun ([0;0;0;0] ++ repeat 1 12 ++ repeat 2 30 ++ repeat 0 40)%nat
      (minit [HAVE + 2 * XUNIT; 0] [0%nat], [adderM 2 1 3; adderM 2 1 2; changerM 2 NewFile]) in
  m_all_done (snd st) = true /\ mflags (fst st) = (false, false) /\
  map (fun c => fold_right Z.add 0 (c_cells c)) (ms_ctrs (fst st)) = [2; 5] /\
  map (fun c => w_extra (c_word c)) (ms_ctrs (fst st)) = [0; 0].
Proof. vm_compute. repeat split; reflexivity. Qed.

(* REFUTED for several goroutines registering one counter (a defect of the
   current tree, found by this model and confirmed on the real code:
   VH_REGWINDOW=1 of harness vh_conc): "no call ENTERS its reader section
   through a closed mapping" (C03_no_entry_through_closed_mapping, single
   counter, registered) does not extend to the window between register's claim
   of c.next and the link.  File open; goroutine 0 claims the fresh counter and
   stops before the link; goroutine 1's Add finds the counter claimed and gets
   a pointer into mapping 0; a rotation (goroutine 2) stores mapping 1, its walk
   misses the counter, it closes mapping 0; goroutine 3's Add(4) then goes
   through the closed mapping 0 (2 accesses: SIGSEGV in production; here the 4
   lands in the superseded file) - until goroutine 0 links and redoes the
   invalidate.  Both flags clear: the run is inside the envelope of the multi
   theorems, which do not speak about closed mappings. *)
Theorem C03_multi_entry_through_closed_mapping_refuted :
  let st := mrun regwin_sched regwin_init in
  m_all_done (snd st) = true /\ mflags (fst st) = (false, false) /\
  ms_closed (fst st) = [0%nat] /\
  map (fun c => (c_cells c, c_faults c)) (ms_ctrs (fst st)) = [([6; 1], 2)].
Proof. vm_compute. repeat split; reflexivity. Qed.
Print Assumptions C03_multi_entry_through_closed_mapping_refuted.

(* ---- the self-check flag is never set (PARTIAL: systems in which no lookup
   extends the file) ----
   `nogrow ms0 ts0`: the file is not full and every rotation opens a file with
   room (changerM NewFile), and the shared part of the control invariant holds
   initially (one c.next flag per counter; the registration list duplicate-free
   and made of claimed counters of this file; one cell per file for every
   counter).  For these systems - they include the registration race of
   f518e0b: any number of first Adds, several goroutines per fresh counter,
   racing with any number of rotations - the control invariant `GI` (where the
   embedded threads' program points are when the walk visits them, list lengths,
   the focus on a claimed counter, quiet embedded threads on return, ONE linker
   per claimed counter hence a duplicate-free list) holds initially and is
   preserved by every step, so NO schedule sets ms_chk, and none sets ms_bad
   either: the multi theorems hold without any hypothesis on the flags.
   Missing for the full statement: runs in which a lookup extends the file
   (changerM FullFile or an initially full file: the nested walk, the embedded
   `changer SameFile` threads, the own counter's G program points); there
   ms_chk = false remains a hypothesis that the lock-step suite tests. *)
Theorem C03_multi_control_invariant_partial : forall ms0 ts0 sched, mgood ms0 ts0 -> nogrow ms0 ts0 ->
  GI (mrun sched (ms0, ts0)).
Proof. exact multi_control_invariant. Qed.
Print Assumptions C03_multi_control_invariant_partial.

Theorem C03_multi_flags_clear_partial : forall ms0 ts0 sched, mgood ms0 ts0 -> nogrow ms0 ts0 ->
  ms_chk (fst (mrun sched (ms0, ts0))) = false /\ ms_bad (fst (mrun sched (ms0, ts0))) = false.
Proof. exact multi_flags_clear. Qed.
Print Assumptions C03_multi_flags_clear_partial.

Theorem C03_multi_step_projects_partial : forall ms0 ts0 sched k i, mgood ms0 ts0 -> nogrow ms0 ts0 ->
  (k < length (ms_ctrs ms0))%nat ->
  xstep (memn k (ms_list (fst (mrun sched (ms0, ts0))))) (sproj k (mrun sched (ms0, ts0)))
        (sproj k (mstep (mrun sched (ms0, ts0)) i)).
Proof. exact multi_step_projects_nogrow. Qed.
Print Assumptions C03_multi_step_projects_partial.

Theorem C03_multi_invariant_partial : forall ms0 ts0 sched k, mgood ms0 ts0 -> reg_init ms0 -> nogrow ms0 ts0 ->
  (k < length (ms_ctrs ms0))%nat ->
  Inv (total_k k ms0 ts0) (sproj k (mrun sched (ms0, ts0))) /\
  Forall (fun t => done_ok t = true) (snd (mrun sched (ms0, ts0))).
Proof. exact multi_inv_nogrow. Qed.
Print Assumptions C03_multi_invariant_partial.

Theorem C03_multi_upper_bound_partial : forall ms0 ts0 sched k, mgood ms0 ts0 -> reg_init ms0 -> nogrow ms0 ts0 ->
  let '(ms, ts) := mrun sched (ms0, ts0) in
  (k < length (ms_ctrs ms0))%nat ->
  persisted (proj k ms) + w_extra (c_word (getc ms k))
  <= persisted (proj k ms0) + w_extra (c_word (getc ms0 k)) + (sumf unbegun (tsproj k ts0) - sumf unbegun (tsproj k ts)).
Proof. exact multi_upper_bound_nogrow. Qed.
Print Assumptions C03_multi_upper_bound_partial.

Theorem C03_multi_exact_at_quiescence_partial : forall ms0 ts0 sched k, mgood ms0 ts0 -> reg_init ms0 -> nogrow ms0 ts0 ->
  let '(ms, ts) := mrun sched (ms0, ts0) in
  (k < length (ms_ctrs ms0))%nat -> m_all_done ts = true -> c_sat (getc ms k) = false ->
  persisted (proj k ms) + w_extra (c_word (getc ms k))
  = persisted (proj k ms0) + w_extra (c_word (getc ms0 k)) + sumf unbegun (tsproj k ts0) /\
  w_readers (c_word (getc ms k)) = 0.
Proof. exact multi_exact_at_quiescence_nogrow. Qed.
Print Assumptions C03_multi_exact_at_quiescence_partial.

Theorem C03_multi_no_nil_deref_partial : forall ms0 ts0 sched k, mgood ms0 ts0 -> reg_init ms0 -> nogrow ms0 ts0 ->
  let '(ms, ts) := mrun sched (ms0, ts0) in
  (k < length (ms_ctrs ms0))%nat -> Forall (fun u => crashed u = false) (tsproj k ts).
Proof. exact multi_no_nil_deref_nogrow. Qed.
Print Assumptions C03_multi_no_nil_deref_partial.

(* PARTIAL 2 (Proofs/CounterMultiCtl2.v): full files and rotations that open a
   full file (changerM FullFile) admitted (`ctl_init`), and the statement holds
   of every run UP TO ITS FIRST INLINE EXTENSION: as long as no thread's lookup
   has extended the file (`has_grown ... = false`; m_grown is set by the
   extension step and never reset) the control invariant holds and no flag is
   set.  Missing for the full statement: the second walk level - the nested
   walk over m_nest after an extension, the own thread at the G program points,
   the couplings at the growth step and at the nested close - so for runs beyond
   the first extension ms_chk = false is still a hypothesis of the general
   theorems, tested by the lock-step. *)
Theorem C03_multi_flags_clear_partial2 : forall ms0 ts0 sched, mgood ms0 ts0 -> CounterMultiCtl2.ctl_init ms0 ts0 ->
  CounterMultiCtl2.has_grown (snd (mrun sched (ms0, ts0))) = false ->
  ms_chk (fst (mrun sched (ms0, ts0))) = false /\ ms_bad (fst (mrun sched (ms0, ts0))) = false.
Proof. exact CounterMultiCtl2.multi_flags_clear_upto. Qed.
Print Assumptions C03_multi_flags_clear_partial2.

Theorem C03_multi_invariant_partial2 : forall ms0 ts0 sched k, mgood ms0 ts0 -> reg_init ms0 -> CounterMultiCtl2.ctl_init ms0 ts0 ->
  CounterMultiCtl2.has_grown (snd (mrun sched (ms0, ts0))) = false -> (k < length (ms_ctrs ms0))%nat ->
  Inv (total_k k ms0 ts0) (sproj k (mrun sched (ms0, ts0))) /\
  Forall (fun t => done_ok t = true) (snd (mrun sched (ms0, ts0))).
Proof. exact CounterMultiCtl2.multi_inv_upto. Qed.
Print Assumptions C03_multi_invariant_partial2.

(* PARTIAL 3 (Proofs/CounterMultiCtl3.v): the second walk level, per thread.
   The invariant `T3` of a thread is the base invariant CIb of its base view -
   control popped, the own embedded thread replaced by a stand-in at LCas (CIb
   looks at (pc, kind, prev, tgt) of the embedded threads only: `CIb_swap`) -
   plus, while a nested walk is on the stack, `NW`: `wstate` over the virtual
   family "m_nest j, or the own thread with its G program points mapped to
   IvLoad / IvCas / RfLoad / CClose".  One step of a thread that satisfies T3
   (shared part MW) preserves T3 and passes every self check - or sets ms_bad -
   for: every step of an unsuspended thread INCLUDING the inline extension (the
   coupling at the growth step: the SameFile changers of the other counters go
   CStore -> IvLoad, the own thread to GIvLoad, the base view keeps CIb), the
   nested head load, the nested loop control (next counter / second loop /
   close), and the nested close (the coupling back: GClose -> LCas, the SameFile
   changers CClose -> Done, the base activity resumes).
   MISSING for the full statement: (1) the visit step inside the nested walk
   (m_pc = MRun while suspended: excluded by hypothesis here; the step lemmas
   stepI / stepR2 / stepG / llook2_prev2 it needs are proved); (2) the assembly
   over the thread list (GI3: stability of T3 under other threads' steps, one
   linker per counter - as GI2_step of CounterMultiCtl2 with T3 in place of CI).
   Until then the general theorems keep the hypothesis ms_chk = false. *)
Theorem C03_multi_thread_step_partial3 : forall ms t ms' t', CounterMultiCtl2.MW ms -> CounterMultiCtl3.T3 ms t ->
  (CounterMultiCtl3.susp t = true -> m_pc t <> MRun) ->
  mstep_core ms t = (ms', t') -> CounterMultiCtl3.step3 ms t ms' t'.
Proof. exact CounterMultiCtl3.thread_step_partial3. Qed.
Print Assumptions C03_multi_thread_step_partial3.

(* ---- THE GENERAL THEOREMS, ms_bad = false the only flag hypothesis ----
   (Proofs/CounterMultiCtl3.v)  For every system whose initial state satisfies
   `ctl_init` (full files and rotations that open a full file - changerM
   FullFile - admitted) the control invariant `GI3` holds along every run that
   stays inside the envelope: every thread satisfies `T3` - the base invariant
   CIb of its base view plus, while a nested walk is on the stack, `wstate` over
   the virtual family "m_nest j, or the own thread with its G program points
   mapped to IvLoad / IvCas / RfLoad / CClose" - the registration list is
   duplicate-free with one linker per claimed counter, and `ms_chk` is clear.
   Every step of a thread preserves T3 and passes every self check or sets
   ms_bad (`thread_step3`: unsuspended steps incl. the inline extension, the
   nested head load, the visit step inside the nested walk - own thread at its
   G program points, SameFile changer of another counter -, the nested loop
   control, the nested close).  Hence the self checks of the multi-level control
   NEVER fail (C03_multi_self_check_never_fails), and the theorems below carry
   `ms_bad = false` - the run stayed inside the modelled envelope - as their only
   hypothesis on the flags.  (The versions with both flags as hypotheses, for
   arbitrary states, are the `_with_flags` theorems above.) *)
Theorem C03_multi_control_invariant : forall ms0 ts0 sched, mgood ms0 ts0 -> CounterMultiCtl2.ctl_init ms0 ts0 ->
  CounterMultiCtl3.GI3 (mrun sched (ms0, ts0)).
Proof. exact CounterMultiCtl3.multi_control_invariant3. Qed.
Print Assumptions C03_multi_control_invariant.

Theorem C03_multi_self_check_never_fails : forall ms0 ts0 sched, mgood ms0 ts0 -> CounterMultiCtl2.ctl_init ms0 ts0 ->
  ms_bad (fst (mrun sched (ms0, ts0))) = false -> ms_chk (fst (mrun sched (ms0, ts0))) = false.
Proof. exact CounterMultiCtl3.multi_chk_clear. Qed.
Print Assumptions C03_multi_self_check_never_fails.

Theorem C03_multi_step_projects : forall ms0 ts0 sched k i, mgood ms0 ts0 -> CounterMultiCtl2.ctl_init ms0 ts0 ->
  (k < length (ms_ctrs ms0))%nat -> ms_bad (fst (mstep (mrun sched (ms0, ts0)) i)) = false ->
  xstep (memn k (ms_list (fst (mrun sched (ms0, ts0))))) (sproj k (mrun sched (ms0, ts0)))
        (sproj k (mstep (mrun sched (ms0, ts0)) i)).
Proof. exact CounterMultiCtl3.multi_step_projects3. Qed.
Print Assumptions C03_multi_step_projects.

Theorem C03_multi_invariant : forall ms0 ts0 sched k, mgood ms0 ts0 -> reg_init ms0 -> CounterMultiCtl2.ctl_init ms0 ts0 ->
  ms_bad (fst (mrun sched (ms0, ts0))) = false -> (k < length (ms_ctrs ms0))%nat ->
  Inv (total_k k ms0 ts0) (sproj k (mrun sched (ms0, ts0))) /\
  Forall (fun t => done_ok t = true) (snd (mrun sched (ms0, ts0))).
Proof. exact CounterMultiCtl3.multi_inv3. Qed.
Print Assumptions C03_multi_invariant.

Theorem C03_multi_upper_bound : forall ms0 ts0 sched k, mgood ms0 ts0 -> reg_init ms0 -> CounterMultiCtl2.ctl_init ms0 ts0 ->
  let '(ms, ts) := mrun sched (ms0, ts0) in
  ms_bad ms = false -> (k < length (ms_ctrs ms0))%nat ->
  persisted (proj k ms) + w_extra (c_word (getc ms k))
  <= persisted (proj k ms0) + w_extra (c_word (getc ms0 k)) + (sumf unbegun (tsproj k ts0) - sumf unbegun (tsproj k ts)).
Proof. exact CounterMultiCtl3.multi_upper_bound3. Qed.
Print Assumptions C03_multi_upper_bound.

Theorem C03_multi_exact_at_quiescence : forall ms0 ts0 sched k, mgood ms0 ts0 -> reg_init ms0 -> CounterMultiCtl2.ctl_init ms0 ts0 ->
  let '(ms, ts) := mrun sched (ms0, ts0) in
  ms_bad ms = false -> (k < length (ms_ctrs ms0))%nat -> m_all_done ts = true -> c_sat (getc ms k) = false ->
  persisted (proj k ms) + w_extra (c_word (getc ms k))
  = persisted (proj k ms0) + w_extra (c_word (getc ms0 k)) + sumf unbegun (tsproj k ts0) /\
  w_readers (c_word (getc ms k)) = 0.
Proof. exact CounterMultiCtl3.multi_exact_at_quiescence3. Qed.
Print Assumptions C03_multi_exact_at_quiescence.

Theorem C03_multi_no_nil_deref : forall ms0 ts0 sched k, mgood ms0 ts0 -> reg_init ms0 -> CounterMultiCtl2.ctl_init ms0 ts0 ->
  let '(ms, ts) := mrun sched (ms0, ts0) in
  ms_bad ms = false -> (k < length (ms_ctrs ms0))%nat -> Forall (fun u => crashed u = false) (tsproj k ts).
Proof. exact CounterMultiCtl3.multi_no_nil_deref3. Qed.
Print Assumptions C03_multi_no_nil_deref.

From Coq Require Import Arith Lia.
(* Non-vacuity: the hypotheses hold of the initial state of the registration-race
   example above (one registered counter with 2 pending, one fresh counter, two
   goroutines adding to the fresh counter, one rotation). *)
Example C03_multi_example_hypotheses_hold :
  let ms0 := minit [HAVE + 2 * XUNIT; 0] [0%nat] in
  let ts0 := [adderM 2 1 3; adderM 2 1 2; changerM 2 NewFile] in
  mgood ms0 ts0 /\ reg_init ms0 /\ nogrow ms0 ts0.
Proof.
  cbv zeta. split; [|split].
  - unfold mgood. split; [reflexivity|]. split; [reflexivity|]. split.
    { constructor; [left; exists 1%nat, 3; repeat split; cbn; lia|]. constructor; [left; exists 1%nat, 2; repeat split; cbn; lia|].
      constructor; [right; exists NewFile; reflexivity|constructor]. }
    split; [vm_compute; reflexivity|].
    intros k Hk. cbn in Hk. destruct k as [|[|k]]; [| |lia].
    + split; [vm_compute; split; [discriminate|reflexivity]|]. split.
      { unfold wf. cbn. repeat split; try (intros g X; discriminate X); constructor. }
      split; [vm_compute; reflexivity|]. unfold init_clean. cbn [proj minit getc ms_ctrs map nth s_word s_ptr s_cur c_word c_ptr ms_cur].
      split; [reflexivity|]. split; [intros _ X; exfalso; apply X; reflexivity|]. intros _. split; vm_compute; reflexivity.
    + split; [vm_compute; split; [discriminate|reflexivity]|]. split.
      { unfold wf. cbn. repeat split; try (intros g X; discriminate X); constructor. }
      split; [vm_compute; reflexivity|]. unfold init_clean. cbn [proj minit getc ms_ctrs map nth s_word s_ptr s_cur c_word c_ptr ms_cur].
      split; [reflexivity|]. split; [intros _ X; exfalso; apply X; reflexivity|]. intros X. vm_compute in X. discriminate X.
  - intros k Hk. cbn in Hk. destruct k as [|[|k]]; [left|right|lia]; split; reflexivity.
  - split.
    + unfold MW, nc. cbn. split; [reflexivity|]. split.
      { intros j [<-|[]]. split; [lia|reflexivity]. }
      split; [repeat constructor; intros []|]. split; [repeat constructor|reflexivity].
    + repeat constructor; cbn; intros; try discriminate; reflexivity.
Qed.

(* Exactly which steps set ms_bad (leave the modelled envelope): a step at MRun
   that extends the file although this thread's lookups extended it before, or
   the head load of a nested walk that does not find on the list the counter
   whose lookup extended the file (an Add on a counter another goroutine is still
   registering).  No other step changes the flag. *)
Theorem C03_multi_bad_set_exactly_by : forall st i,
  ms_bad (fst (mstep st i)) =
  ms_bad (fst st) || match nth_error (snd st) i with Some t => CounterMultiCtl3.bad_cause (fst st) t | None => false end.
Proof. exact CounterMultiCtl3.mstep_bad. Qed.
Print Assumptions C03_multi_bad_set_exactly_by.

(* Non-vacuity of the general theorems: the first open of an existing FULL file by a
   process with a pending counter (changerM FullFile) and the first Add on a fresh
   counter: the hypotheses hold, and on this schedule the opener's own
   refresh-lookup extends the file (m_grown), the nested walk runs, mapping 0 is
   closed, everything is persisted and both flags stay clear. *)
Example C03_multi_example_open_of_full_file :
  let ms0 := minit [HAVE + 2 * XUNIT; 0] [0%nat] in
  let ts0 := [changerM 2 FullFile; adderM 2 1 3] in
  (mgood ms0 ts0 /\ reg_init ms0 /\ CounterMultiCtl2.ctl_init ms0 ts0) /\
  let st := mrun (repeat 0 90 ++ repeat 1 60)%nat (ms0, ts0) in
  m_all_done (snd st) = true /\ mflags (fst st) = (false, false) /\ map m_grown (snd st) = [true; false] /\
  ms_closed (fst st) = [0%nat] /\
  map (fun c => (fold_right Z.add 0 (c_cells c), w_extra (c_word c))) (ms_ctrs (fst st)) = [(2, 0); (3, 0)].
Proof.
  cbv zeta. split; [|vm_compute; repeat split; reflexivity]. split; [|split].
  - unfold mgood. split; [reflexivity|]. split; [reflexivity|]. split.
    { constructor; [right; exists FullFile; reflexivity|]. constructor; [left; exists 1%nat, 3; repeat split; cbn; lia|constructor]. }
    split; [vm_compute; reflexivity|].
    intros k Hk. cbn in Hk. destruct k as [|[|k]]; [| |lia].
    + split; [vm_compute; split; [discriminate|reflexivity]|]. split.
      { unfold wf. cbn. repeat split; try (intros g X; discriminate X); constructor. }
      split; [vm_compute; reflexivity|]. unfold init_clean. cbn [proj minit getc ms_ctrs map nth s_word s_ptr s_cur c_word c_ptr ms_cur].
      split; [reflexivity|]. split; [intros _ X; exfalso; apply X; reflexivity|]. intros _. split; vm_compute; reflexivity.
    + split; [vm_compute; split; [discriminate|reflexivity]|]. split.
      { unfold wf. cbn. repeat split; try (intros g X; discriminate X); constructor. }
      split; [vm_compute; reflexivity|]. unfold init_clean. cbn [proj minit getc ms_ctrs map nth s_word s_ptr s_cur c_word c_ptr ms_cur].
      split; [reflexivity|]. split; [intros _ X; exfalso; apply X; reflexivity|]. intros X. vm_compute in X. discriminate X.
  - intros k Hk. cbn in Hk. destruct k as [|[|k]]; [left|right|lia]; split; reflexivity.
  - split.
    + unfold CounterMultiCtl2.MW, CounterMultiCtl2.nc. cbn. split; [reflexivity|]. split.
      { intros j [<-|[]]. split; [lia|reflexivity]. }
      split; [repeat constructor; intros []|]. split; [repeat constructor|discriminate].
    + constructor; [intros _; right; reflexivity|]. constructor; [intros X; discriminate X|constructor].
Qed.
