(* C17  Chart configuration parsing and upload-config generation are faithful.
   This file holds only statements; every proof is `exact <lemma>`.

   Oracles (premises, never axioms):
     pf : strconv.ParseFloat(s, 64) as bits, None = error
     rf : strconv.FormatFloat(f, 'g', -1, 64) of a bit pattern
     is_valid true / vcmp true   : go/version.IsValid / Compare
     is_valid false / vcmp false : semver.IsValid / Compare
     canonical, prerelease       : semver.Canonical / Prerelease *)
From Coq Require Import List NArith ZArith Bool.
From Tele Require Import Lib.Bytes Lib.Text Model.ChartCfg Model.ConfigGen
  Proofs.ChartCfgFacts Proofs.ConfigGenFacts.
Import ListNotations.
Open Scope N_scope.
From Coq Require Import String. Open Scope string_scope. Open Scope N_scope. Open Scope list_scope.

(* ---- clause 1: parsing any text terminates with records or an error.
   parse is a structural recursion over the lines of the text (Fixpoint
   parse_lines), so it is total by construction; every byte string, every
   float oracle. *)
Theorem C17_parse_total : forall (pf : bytes -> option N) (data : bytes),
  (exists ln e, parse pf data = PErr ln e) \/ (exists rs, parse pf data = POk rs).
Proof. exact parse_total. Qed.
Print Assumptions C17_parse_total.

(* an error names a line of the text (0-based), unless it is the end-of-file error *)
Theorem C17_parse_error_line : forall pf st n ls k e,
  parse_lines pf st n ls = PErr (Some k) e -> n <= k < n + N.of_nat (List.length ls).
Proof. exact parse_lines_err_line. Qed.
Print Assumptions C17_parse_error_line.

(* Go walks the key table in map order: the result does not depend on it *)
Theorem C17_key_order_irrelevant : forall ks text,
  (forall k, In k ks <-> In k all_keys) -> match_key_in ks text = match_key text.
Proof. exact match_key_order_independent. Qed.
Print Assumptions C17_key_order_irrelevant.

(* depth: decimal rendering of every int64 parses back (strconv.ParseInt model) *)
Theorem C17_depth_roundtrip : forall z, in_int64 z = true -> parse_int64 (render_int z) = Some z.
Proof. exact parse_render_int. Qed.
Print Assumptions C17_depth_roundtrip.

(* ---- clause 2: rendering any valid list of records in the documented
   syntax and parsing it back returns the same records.  Every list length;
   every field optional or present; repeated issue fields; comments after
   values, blank and comment lines, empty records ("---" twice), any blanks
   around values, bucket lists on one line or one bucket per line
   (style_ok states what a layout may contain; valid_record what a record
   may contain: values trimmed, without '#', newline; braces only in
   `counter` and well formed; depth an int64; the float survives
   FormatFloat/ParseFloat). *)
Theorem C17_parse_render : forall (pf : bytes -> option N) (rf : N -> bytes) (items : list (chart * rstyle)),
  Forall (fun it => valid_record pf rf (fst it) = true /\ style_ok (fst it) (snd it) = true) items ->
  parse pf (render rf items) = POk (map fst items).
Proof. exact parse_render. Qed.
Print Assumptions C17_parse_render.

(* the canonical rendering ("key: value" lines, "---" between records) *)
Theorem C17_parse_render_canonical : forall (pf : bytes -> option N) (rf : N -> bytes) (multi : bool) (rs : list chart),
  Forall (fun r => valid_record pf rf r = true /\ multi_ok (c_counter r) (canon_rs multi) = true) rs ->
  parse pf (render_canonical rf multi rs) = POk rs.
Proof. exact parse_render_canonical. Qed.
Print Assumptions C17_parse_render_canonical.

(* the syntax has no limit on the length of a line: for every n there is a
   valid record whose canonical rendering is the single line
   "description: aaa...a" with n+1 letters, and it parses back *)
Theorem C17_parse_render_any_line_length : forall (pf : bytes -> option N) (rf : N -> bytes) (n : nat),
  let r := mkChart [] (repeat 97 (S n)) [] [] [] [] [] 0%Z 0 [] in
  render_canonical rf false [r] = key_name KDescription ++ [58; 32] ++ repeat 97 (S n) ++ [10]
  /\ parse pf (render_canonical rf false [r]) = POk [r].
Proof. exact parse_render_any_length. Qed.
Print Assumptions C17_parse_render_any_line_length.

(* the inside of a value is free: between two non-space ends every byte except
   newline and '#' (and braces) may occur - carriage returns, tabs, form feeds,
   Unicode spaces, control characters - and the record still parses back.  Only
   '\n' separates lines. *)
Theorem C17_parse_render_interior_bytes : forall (pf : bytes -> option N) (rf : N -> bytes) (m : bytes),
  has_byte 10 m = false -> has_byte 35 m = false -> has_byte 123 m = false -> has_byte 125 m = false ->
  let r := mkChart (120 :: m ++ [120]) [] [] [] [] [] [] 0%Z 0 [] in
  parse pf (render_canonical rf false [r]) = POk [r].
Proof. exact parse_render_interior. Qed.
Print Assumptions C17_parse_render_interior_bytes.

(* the executable oracle used on the implementation's answers is exact *)
Theorem C17_roundtrip_oracle : forall rs res, roundtrip_ok rs res = true <-> res = POk rs.
Proof. exact roundtrip_ok_iff. Qed.
Print Assumptions C17_roundtrip_oracle.

(* ---- clause 3: the generated configuration lists each record's counter
   expression under its program, as a stack iff it has a depth (> 0), as a
   counter otherwise, and nothing else. Premises: the comparators are total
   preorders. *)
Theorem C17_generate_lists :
  forall (is_valid : bool -> bytes -> bool) (vcmp : bool -> bytes -> bytes -> comparison)
         (canonical prerelease : bytes -> bytes),
  (forall tc a b c, cmp_le (vcmp tc a b) = true -> cmp_le (vcmp tc b c) = true -> cmp_le (vcmp tc a c) = true) ->
  (forall tc a b, vcmp tc a b = Gt -> cmp_le (vcmp tc b a) = true) ->
  forall go_versions proxy paddings patterns gcfgs out,
  generate is_valid vcmp canonical prerelease go_versions proxy paddings patterns gcfgs = GOk out ->
  (forall r, In r gcfgs -> exists o, In o out /\ o_name o = c_program r /\
      In (c_counter r, c_depth r) (if (0 <? c_depth r)%Z then o_stacks o else o_counters o)) /\
  (forall o, In o out ->
      (forall c, In c (o_counters o) -> exists r, In r gcfgs /\ c_program r = o_name o /\
                                          (c_counter r, c_depth r) = c /\ (0 <? c_depth r)%Z = false) /\
      (forall c, In c (o_stacks o) -> exists r, In r gcfgs /\ c_program r = o_name o /\
                                        (c_counter r, c_depth r) = c /\ (0 <? c_depth r)%Z = true) /\
      (exists r, In r gcfgs /\ c_program r = o_name o)).
Proof. exact generate_lists. Qed.
Print Assumptions C17_generate_lists.

Theorem C17_lists_oracle : forall gcfgs out, lists_ok gcfgs out = true <-> lists_spec gcfgs out.
Proof. exact lists_ok_iff. Qed.
Print Assumptions C17_lists_oracle.

(* ---- clause 4: versions.  `wanted gcfgs n v`: some record of program n has
   no minimum version or a minimum that is not above v (by the comparator of
   the program's kind). *)
(* ... which is "v is not older than the least minimum among n's records" *)
Theorem C17_wanted_is_not_older_than_least :
  forall (vcmp : bool -> bytes -> bytes -> comparison),
  (forall tc a b c, cmp_le (vcmp tc a b) = true -> cmp_le (vcmp tc b c) = true -> cmp_le (vcmp tc a c) = true) ->
  forall gcfgs n m v,
  ((exists r, In r gcfgs /\ c_program r = n /\ c_version r = m) /\
   forall r, In r gcfgs -> c_program r = n ->
     is_empty m = true \/ (is_empty (c_version r) = false /\ cmp_le (vcmp (is_toolchain n) m (c_version r)) = true)) ->
  wanted vcmp gcfgs n v = (is_empty m || cmp_le (vcmp (is_toolchain n) m v)).
Proof. exact wanted_iff_not_older_than_least. Qed.
Print Assumptions C17_wanted_is_not_older_than_least.

(* toolchain programs (cmd/...): exactly the valid known Go versions that are wanted, in the known order *)
Theorem C17_generate_versions_toolchain :
  forall (is_valid : bool -> bytes -> bool) (vcmp : bool -> bytes -> bytes -> comparison)
         (canonical prerelease : bytes -> bytes),
  (forall tc a b c, cmp_le (vcmp tc a b) = true -> cmp_le (vcmp tc b c) = true -> cmp_le (vcmp tc a c) = true) ->
  (forall tc a b, vcmp tc a b = Gt -> cmp_le (vcmp tc b a) = true) ->
  forall go_versions proxy paddings patterns gcfgs out o,
  generate is_valid vcmp canonical prerelease go_versions proxy paddings patterns gcfgs = GOk out ->
  In o out -> is_toolchain (o_name o) = true ->
  o_versions o = filter (fun v => is_valid true v && wanted vcmp gcfgs (o_name o) v) go_versions.
Proof. exact generate_versions_toolchain. Qed.
Print Assumptions C17_generate_versions_toolchain.

(* module programs: the wanted versions of the module's proxy list, padded
   (hence every wanted known version is listed) *)
Theorem C17_generate_versions_module :
  forall (is_valid : bool -> bytes -> bool) (vcmp : bool -> bytes -> bytes -> comparison)
         (canonical prerelease : bytes -> bytes),
  (forall tc a b c, cmp_le (vcmp tc a b) = true -> cmp_le (vcmp tc b c) = true -> cmp_le (vcmp tc a c) = true) ->
  (forall tc a b, vcmp tc a b = Gt -> cmp_le (vcmp tc b a) = true) ->
  forall go_versions proxy paddings patterns gcfgs out o,
  generate is_valid vcmp canonical prerelease go_versions proxy paddings patterns gcfgs = GOk out ->
  In o out -> is_toolchain (o_name o) = false ->
  exists r0 vs pd,
    find (fun r => beq (c_program r) (o_name o)) gcfgs = Some r0 /\
    lookup (c_module r0) proxy = Some vs /\ lookup (o_name o) paddings = Some pd /\
    pad_versions vcmp canonical prerelease (filter (fun v => wanted vcmp gcfgs (o_name o) v) vs) patterns pd
    = Some (o_versions o) /\
    forall v, In v vs -> wanted vcmp gcfgs (o_name o) v = true -> In v (o_versions o).
Proof. exact generate_versions_module. Qed.
Print Assumptions C17_generate_versions_module.

(* a program's entry (versions, counters, stacks) depends only on that
   program's own records - and the known Go versions, its module's proxy list
   and its padding, which are fixed here: not on the other programs of the
   configuration, on the order of the records of different programs, nor on
   whether other programs share its module.  (generate is a function of its
   inputs: nothing is carried from one call to the next; the suite checks the
   real generate against it over several calls in one process.) *)
Theorem C17_generate_entry_of_own_records :
  forall (is_valid : bool -> bytes -> bool) (vcmp : bool -> bytes -> bytes -> comparison)
         (canonical prerelease : bytes -> bytes),
  (forall tc a b c, cmp_le (vcmp tc a b) = true -> cmp_le (vcmp tc b c) = true -> cmp_le (vcmp tc a c) = true) ->
  (forall tc a b, vcmp tc a b = Gt -> cmp_le (vcmp tc b a) = true) ->
  forall go_versions proxy paddings patterns gcfgs1 gcfgs2 out1 out2 o1 o2,
  generate is_valid vcmp canonical prerelease go_versions proxy paddings patterns gcfgs1 = GOk out1 ->
  generate is_valid vcmp canonical prerelease go_versions proxy paddings patterns gcfgs2 = GOk out2 ->
  In o1 out1 -> In o2 out2 -> o_name o1 = o_name o2 ->
  filter (fun r => beq (c_program r) (o_name o1)) gcfgs1 = filter (fun r => beq (c_program r) (o_name o1)) gcfgs2 ->
  o1 = o2.
Proof. exact generate_entry_of_own_records. Qed.
Print Assumptions C17_generate_entry_of_own_records.

(* the executable oracles accept the model's output *)
Theorem C17_generate_oracles :
  forall (is_valid : bool -> bytes -> bool) (vcmp : bool -> bytes -> bytes -> comparison)
         (canonical prerelease : bytes -> bytes),
  (forall tc a b c, cmp_le (vcmp tc a b) = true -> cmp_le (vcmp tc b c) = true -> cmp_le (vcmp tc a c) = true) ->
  (forall tc a b, vcmp tc a b = Gt -> cmp_le (vcmp tc b a) = true) ->
  forall go_versions proxy paddings patterns gcfgs out,
  generate is_valid vcmp canonical prerelease go_versions proxy paddings patterns gcfgs = GOk out ->
  lists_ok gcfgs out = true /\ versions_ok is_valid vcmp go_versions proxy gcfgs out = true.
Proof.
  exact (fun iv vc ca pr T O gv px pd pt g out H =>
           conj (generate_lists_oracle iv vc ca pr T O gv px pd pt g out H)
                (generate_versions_oracle iv vc ca pr T O gv px pd pt g out H)).
Qed.
Print Assumptions C17_generate_oracles.

(* ---- clause 5: padded version lists contain all real versions ... *)
Theorem C17_pad_superset :
  forall (vcmp : bool -> bytes -> bytes -> comparison) (canonical prerelease : bytes -> bytes)
         versions patts pd out,
  pad_versions vcmp canonical prerelease versions patts pd = Some out ->
  forall v, In v versions -> In v out.
Proof. exact pad_superset. Qed.
Print Assumptions C17_pad_superset.

(* ... are sorted (adjacent elements in semver.Sort order; premise: Compare is antisymmetric) ... *)
Theorem C17_pad_sorted :
  forall (vcmp : bool -> bytes -> bytes -> comparison) (canonical prerelease : bytes -> bytes),
  (forall a b, vcmp false a b = CompOpp (vcmp false b a)) ->
  forall versions patts pd out,
  pad_versions vcmp canonical prerelease versions patts pd = Some out ->
  adjacent_ok vcmp out = true.
Proof. exact pad_sorted. Qed.
Print Assumptions C17_pad_sorted.
Theorem C17_sorted_meaning : forall vcmp l, adjacent_ok vcmp l = true <-> adjacent (sem_less vcmp) l.
Proof. exact adjacent_ok_iff. Qed.
Print Assumptions C17_sorted_meaning.

(* ... and free of duplicates, given duplicate-free versions and patterns
   (premises: vX.Y.Z and vX.Y.Z-<pattern> are canonical; padding counts below 2^64) *)
Theorem C17_pad_nodup :
  forall (vcmp : bool -> bytes -> bytes -> comparison) (canonical prerelease : bytes -> bytes) (patts : list bytes),
  (forall a b c, canonical (rel_string a b c) = rel_string a b c) ->
  (forall a b c patt, In patt patts ->
     canonical (pre_string (rel_string a b c) patt) = pre_string (rel_string a b c) patt) ->
  forall versions pd out,
  NoDup versions -> NoDup patts ->
  (pd_maj pd < 2 ^ 64 /\ pd_majmin pd < 2 ^ 64 /\ pd_patch pd < 2 ^ 64)%Z ->
  pad_versions vcmp canonical prerelease versions patts pd = Some out -> NoDup out.
Proof. exact pad_nodup. Qed.
Print Assumptions C17_pad_nodup.
Theorem C17_nodup_oracle : forall l, nodup_b l = true <-> NoDup l.
Proof. exact nodup_b_iff. Qed.
Print Assumptions C17_nodup_oracle.
Theorem C17_superset_oracle : forall a b, superset_b a b = true <-> (forall v, In v a -> In v b).
Proof. exact superset_b_iff. Qed.
Print Assumptions C17_superset_oracle.

(* ---- finding (class pad-panic): padVersions is not total.  It panics exactly
   when the latest release does not parse back, and it does not for the
   valid semantic version v9223372036854775808.0.0 (major = 2^63: fmt.Sscanf
   "%d" overflows int).  The three theorems above are about the lists that are
   produced. *)
Theorem C17_pad_defined_iff : forall vcmp canonical prerelease versions patts pd,
  pad_versions vcmp canonical prerelease versions patts pd = None
  <-> parse_mmp (latest_release vcmp canonical prerelease (sem_sort vcmp versions)) = None.
Proof. exact pad_defined_iff. Qed.
Print Assumptions C17_pad_defined_iff.
Theorem C17_pad_total_refuted :
  pad_versions (fun _ => bcmp) (fun v => v) (fun _ => [])
    [s2b "v9223372036854775808.0.0"] [] (mkPad 1 1 1 1 0) = None.
Proof. exact pad_total_refuted. Qed.
Print Assumptions C17_pad_total_refuted.

(* ---- non-vacuity *)
(* float oracle stand-ins for the examples: "0.1" <-> bits 1 *)
Definition ex_pf (s : bytes) : option N := if beq s (s2b "0.1") then Some 1 else None.
Definition ex_rf (f : N) : bytes := s2b "0.1".

Definition ex_rec1 : chart :=
  mkChart (s2b "Editor Distribution") (s2b "measure editor distribution for gopls users.")
          [s2b "https://go.dev/issue/61038"; s2b "https://go.dev/issue/62214"] (s2b "partition")
          (s2b "golang.org/x/tools/gopls") (s2b "golang.org/x/tools/gopls")
          (s2b "gopls/editor:{emacs,vim,vscode,other}") 0%Z 1 (s2b "v1.0.0").
Definition ex_rec2 : chart :=
  mkChart (s2b "Gopls bug reports.") [] [s2b "https://go.dev/12345"] (s2b "stack")
          (s2b "golang.org/x/tools/gopls") [] (s2b "gopls/bug") 10%Z 0 [].

(* the premises of C17_parse_render hold for a two-record set in both layouts,
   and the rendering is the documented syntax *)
Example C17_example_valid :
  valid_record ex_pf ex_rf ex_rec1 = true /\ valid_record ex_pf ex_rf ex_rec2 = true /\
  style_ok ex_rec1 (canon_rs true) = true /\ style_ok ex_rec2 (canon_rs false) = true.
Proof. repeat split; vm_compute; reflexivity. Qed.
Example C17_example_render_multi :
  render_canonical ex_rf true [ex_rec2; ex_rec1] =
  s2b "counter: gopls/bug
title: Gopls bug reports.
issue: https://go.dev/12345
type: stack
program: golang.org/x/tools/gopls
depth: 10
---
counter: gopls/editor:{
  emacs,
  vim,
  vscode,
  other
}
title: Editor Distribution
description: measure editor distribution for gopls users.
issue: https://go.dev/issue/61038
issue: https://go.dev/issue/62214
type: partition
program: golang.org/x/tools/gopls
module: golang.org/x/tools/gopls
version: v1.0.0
error: 0.1
".
Proof. vm_compute. reflexivity. Qed.
Example C17_example_parse :
  parse ex_pf (render_canonical ex_rf true [ex_rec2; ex_rec1]) = POk [ex_rec2; ex_rec1].
Proof. vm_compute. reflexivity. Qed.
(* a carriage return inside a title and inside a bucket name written on its own line *)
Definition ex_rec_cr : chart :=
  mkChart (s2b "progress:" ++ [13] ++ s2b "100% done") [] [] [] [] [] (s2b "gopls/editor:{v" ++ [13] ++ s2b "im,emacs}") 0%Z 0 [].
Example C17_example_interior_cr :
  valid_record ex_pf ex_rf ex_rec_cr = true /\ style_ok ex_rec_cr (canon_rs true) = true /\
  parse ex_pf (render_canonical ex_rf true [ex_rec_cr]) = POk [ex_rec_cr].
Proof. repeat split; vm_compute; reflexivity. Qed.

(* errors are reachable: the cases of TestParseErrors *)
Example C17_example_errors :
  parse ex_pf (s2b "
title: foo
--- # comments aren't allowed after separators
") = PErr (Some 2) EBadLine /\
  parse ex_pf (s2b "counter: foo{
  bar,
  baz,
}") = PErr (Some 3) ECloseAfterComma /\
  parse ex_pf (s2b "counter: foo{
  bar
---") = PErr (Some 2) EEndOfRecord /\
  parse ex_pf (s2b "counter: foo{") = PErr None EEndOfFile /\
  parse ex_pf (s2b "depth: 9223372036854775808") = PErr (Some 0) EBadInt /\
  parse ex_pf (s2b "title: a
title: b") = PErr (Some 1) ERepeated.
Proof. repeat split; vm_compute; reflexivity. Qed.

(* the comparator premises are satisfiable *)
Example C17_example_comparator : exists vcmp : bool -> bytes -> bytes -> comparison,
  (forall tc a b c, cmp_le (vcmp tc a b) = true -> cmp_le (vcmp tc b c) = true -> cmp_le (vcmp tc a c) = true) /\
  (forall tc a b, vcmp tc a b = Gt -> cmp_le (vcmp tc b a) = true) /\
  (forall a b, vcmp false a b = CompOpp (vcmp false b a)).
Proof. exists (fun _ _ _ => Eq). repeat split; intros; try reflexivity; discriminate. Qed.

(* generate and padVersions compute something: versions compared as byte strings *)
Definition ex_cmp (_ : bool) (a b : bytes) : comparison := bcmp a b.
Definition ex_gen := generate (fun _ _ => true) ex_cmp (fun v => v) (fun _ => [])
  [s2b "go1.20"; s2b "go1.21"; s2b "go1.22"] [] [] [].
Definition ex_tool (ver : string) (depth : Z) (ctr : string) : chart :=
  mkChart (s2b "t") [] [s2b "i"] (if (depth =? 0)%Z then s2b "partition" else s2b "stack")
          (s2b "cmd/go") [] (s2b ctr) depth 0 (s2b ver).
Example C17_example_generate :
  ex_gen [ex_tool "go1.22" 0 "a"; ex_tool "go1.21" 5 "b"] =
  GOk [mkOprog (s2b "cmd/go") [s2b "go1.21"; s2b "go1.22"] [(s2b "a", 0%Z)] [(s2b "b", 5%Z)]].
Proof. vm_compute. reflexivity. Qed.
Example C17_example_pad :
  pad_versions ex_cmp (fun v => v) (fun _ => []) [s2b "v0.1.0"; s2b "v0.2.3"] [s2b "pre.1"]
               (mkPad 2 0 1 1 1)
  = Some [s2b "v0.1.0"; s2b "v0.2.3"; s2b "v0.2.4"; s2b "v0.2.4-pre.1"; s2b "v0.3.0"; s2b "v0.3.0-pre.1";
          s2b "v0.3.1"; s2b "v0.3.1-pre.1"].
Proof. vm_compute. reflexivity. Qed.
