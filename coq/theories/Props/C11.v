(* C11  Uploader, server and local viewer agree on what is approved.
   Statements only; every proof is `exact <lemma>`.

   Deciders: Model/Report.filter_upload (uploader, reports.go), Model/Approval
   server_validate (godev/cmd/telemetrygodev/main.go validate) and
   viewer_summary / viewer_active (cmd/gotelemetry/internal/view/view.go
   summary, newCounterFile).  Documented semantics: Model/ApprovalSpec
   (approved_buildb, approved_counterb, approved_stackb) and the Props of
   Proofs/ConfigFacts (approved_build, counter_entry, stack_entry). *)
From Coq Require Import List ZArith NArith Bool.
From Tele Require Import Lib.Bytes Lib.Str Lib.Assoc Lib.Calendar Model.Config Model.ApprovalSpec Model.Report
  Model.Approval Proofs.ConfigFacts Proofs.AggregateFacts Proofs.ReportFacts Proofs.ApprovalFacts Proofs.ApprovalOracle Proofs.ReportPrograms Proofs.ApprovalReports Proofs.ApprovalSequences Proofs.ApprovalCharts.
From Coq Require Import Permutation.
Import ListNotations.
From Coq Require Import String. Open Scope string_scope. Open Scope N_scope. Open Scope list_scope.

(* ---- One specification, three deciders.  For every configuration and every
   program build: the uploader's build test, the server's build test, the
   conjunction of the viewer's five ActiveMeta flags and the negation of the
   viewer's "no data from this set would be uploaded" all equal the documented
   approval of the build. *)
Theorem C11_deciders_build_agree : forall u i f, f_ident f = i ->
  build_ok (new_config u) i = approved_buildb u i /\
  server_build_ok (new_config u) i = approved_buildb u i /\
  forallb (fun b => b) (viewer_active_meta (new_config u) i) = approved_buildb u i /\
  summary_excludes_set (viewer_summary (new_config u) f) = negb (approved_buildb u i).
Proof. exact deciders_build_agree. Qed.
Print Assumptions C11_deciders_build_agree.

(* the boolean specification means what the documentation says *)
Theorem C11_approved_build_meaning : forall u i, approved_buildb u i = true <-> approved_build u i.
Proof. exact approved_buildb_spec. Qed.
Print Assumptions C11_approved_build_meaning.

Theorem C11_approved_counter_meaning : forall u prog k,
  approved_counterb u prog k = true <-> exists r, counter_entry u prog k r.
Proof. exact approved_counterb_spec. Qed.
Print Assumptions C11_approved_counter_meaning.

Theorem C11_approved_stack_meaning : forall u prog k,
  approved_stackb u prog k = true <-> exists r, stack_entry u prog (stack_title k) r.
Proof. exact approved_stackb_spec. Qed.
Print Assumptions C11_approved_stack_meaning.

(* per counter / stack counter: the uploader at the most permissive X (rates
   are >= 0, so X = 0) and the viewer's registration test both equal the
   documented approval of the item; at any X the uploader keeps no more *)
Theorem C11_deciders_item_agree : forall u prog k,
  uploader_keeps (new_config u) 0 prog k = approved_itemb u prog k /\
  viewer_registered (new_config u) prog k = approved_itemb u prog k.
Proof. exact deciders_item_agree. Qed.
Print Assumptions C11_deciders_item_agree.

Theorem C11_uploader_keeps_mono : forall c x prog k,
  uploader_keeps c x prog k = true -> uploader_keeps c 0 prog k = true.
Proof. exact uploader_keeps_mono. Qed.
Print Assumptions C11_uploader_keeps_mono.

(* ---- Server.  It accepts a report iff the week is a date, the Config is
   valid semver (oracle boolean), X is not zero and every program build,
   counter and stack (by its title) is approved. *)
Theorem C11_server_validate_spec : forall u semver_ok r,
  server_validate (new_config u) semver_ok r = VOk <->
  parse_date (r_week r) <> None /\ semver_ok = true /\ x_is_zero (r_x r) = false /\
  forall p, In p (r_programs r) -> prog_within u p.
Proof. exact server_validate_spec. Qed.
Print Assumptions C11_server_validate_spec.

(* it accepts every report the uploader produces under that configuration (X <> 0) *)
Theorem C11_server_accepts_uploader : forall gate u cfgver week lastweek x files local up,
  create_report gate u cfgver week lastweek x files = Some (local, Some up) ->
  parse_date week <> None -> x_is_zero x = false ->
  server_validate (new_config u) true up = VOk.
Proof. exact server_accepts_uploader. Qed.
Print Assumptions C11_server_accepts_uploader.

(* and rejects any report containing a program build, counter or stack outside it *)
Theorem C11_server_rejects_outside : forall u semver_ok r p,
  In p (r_programs r) -> ~ prog_within u p -> server_validate (new_config u) semver_ok r <> VOk.
Proof. exact server_rejects_outside. Qed.
Print Assumptions C11_server_rejects_outside.

(* known finding 15: X = 0 is a possible draw of the uploader and is refused *)
Theorem C11_server_x_zero_refuted :
  exists u cfgver week lastweek files local up,
    create_report true u cfgver week lastweek 0 files = Some (local, Some up) /\
    parse_date week <> None /\
    server_validate (new_config u) true up = VBadX.
Proof. exact server_x_zero_refuted. Qed.
Print Assumptions C11_server_x_zero_refuted.

(* ---- Viewer.  "No data from this set would be uploaded" iff the build is
   not approved iff the uploader drops the program for every X and every
   week's worth of files containing this one. *)
Theorem C11_viewer_set_iff_uploader : forall u f,
  (summary_excludes_set (viewer_summary (new_config u) f) = true <-> ~ approved_build u (f_ident f)) /\
  (~ approved_build u (f_ident f) <->
   forall files x, In f files -> ~ In (f_ident f) (akeys (filter_upload (new_config u) x (aggregate files)))).
Proof. exact viewer_set_iff_uploader. Qed.
Print Assumptions C11_viewer_set_iff_uploader.

(* For an approved build the summary lists exactly the (displayed names of
   the) counters the uploader drops at X = 0, and each Active flag is the
   uploader's decision at X = 0 ... *)
Theorem C11_viewer_items_iff_uploader : forall u f,
  approved_build u (f_ident f) ->
  let c := new_config u in
  let prog := id_program (f_ident f) in
  let dropped := map (fun kv => display_name (fst kv))
                     (filter (fun kv => negb (uploader_keeps c 0 prog (fst kv))) (f_counts f)) in
  viewer_summary c f = match dropped with [] => SClean | l => SCounters l end /\
  viewer_active c f = map (fun kv => (fst kv, uploader_keeps c 0 prog (fst kv))) (f_counts f).
Proof. exact viewer_items_iff_uploader. Qed.
Print Assumptions C11_viewer_items_iff_uploader.

(* ... which is membership in the report the uploader builds at X = 0 *)
Theorem C11_uploader_keeps_iff_uploaded : forall u files f k v0,
  In f files -> In (k, v0) (f_counts f) -> approved_build u (f_ident f) ->
  (uploader_keeps (new_config u) 0 (id_program (f_ident f)) k = true <->
   exists cs ss v, In (f_ident f, (cs, ss)) (filter_upload (new_config u) 0 (aggregate files)) /\
                   In (k, v) (if is_stack k then ss else cs)).
Proof. exact uploader_keeps_iff_uploaded. Qed.
Print Assumptions C11_uploader_keeps_iff_uploaded.

(* ---- The executable server oracle applied to the implementation's verdicts
   reports nothing on the model's verdict, except class x-zero for an uploader
   report with X = 0. *)
Theorem C11_server_oracle_model : forall u from_uploader semver_ok r,
  (from_uploader = true -> (forall p, In p (r_programs r) -> prog_within u p) /\
                           parse_date (r_week r) <> None /\ semver_ok = true) ->
  forall cl, In cl (server_check u from_uploader (is_some (parse_date (r_week r))) semver_ok r
                                 (server_validate (new_config u) semver_ok r)) ->
  cl = AXZero /\ x_is_zero (r_x r) = true /\ from_uploader = true.
Proof. exact server_check_model. Qed.
Print Assumptions C11_server_oracle_model.

(* The executable viewer oracle reports nothing on the model's summary,
   ActiveMeta, Active flags and the X = 0 upload of the WHOLE week the file
   belongs to, for every configuration, week and file of it. *)
Theorem C11_viewer_oracle_model : forall u files f, In f files ->
  viewer_check u f (viewer_summary (new_config u) f) (viewer_active_meta (new_config u) (f_ident f))
               (viewer_active (new_config u) f) (Some (filter_upload (new_config u) 0 (aggregate files))) = [].
Proof. exact viewer_check_model. Qed.
Print Assumptions C11_viewer_oracle_model.

(* ---- Approval is per program: what the uploader keeps of one program of a
   weekly report does not depend on the other programs of the report or on
   their order; the verdict on an item involves only its own program's name. *)
Theorem C11_upload_program_independent : forall c x before p after,
  filter_upload c x (before ++ p :: after) =
  filter_upload c x before ++ filter_upload c x [p] ++ filter_upload c x after.
Proof. exact upload_program_independent. Qed.
Print Assumptions C11_upload_program_independent.

Theorem C11_upload_item_verdict : forall c x ps i cs0 ss0 k v,
  In (i, (cs0, ss0)) ps -> build_ok c i = true ->
  (In (k, v) cs0 -> keep_counter c x (id_program i) (k, v) = true ->
   exists cs ss, In (i, (cs, ss)) (filter_upload c x ps) /\ In (k, v) cs) /\
  (In (k, v) ss0 -> keep_stack c x (id_program i) (k, v) = true ->
   exists cs ss, In (i, (cs, ss)) (filter_upload c x ps) /\ In (k, v) ss).
Proof. exact upload_item_verdict. Qed.
Print Assumptions C11_upload_item_verdict.

(* ---- Program builds are told apart by all five identity fields, the
   Program path in full: the values uploaded for build i are sums over the
   files whose identity IS i (C01_upload_values); a file of another program -
   even one with the same base name, version, Go version and platform -
   contributes nothing to them and is judged (by all three deciders) on its own. *)
Theorem C11_values_from_same_identity_only : forall files i k v,
  In v (spec_entries files i k) <-> exists f, In f files /\ f_ident f = i /\ In (k, v) (f_counts f).
Proof. exact spec_entries_in. Qed.
Print Assumptions C11_values_from_same_identity_only.

Theorem C11_other_program_contributes_nothing : forall files g i k,
  f_ident g <> i -> spec_entries (g :: files) i k = spec_entries files i k.
Proof. exact other_program_contributes_nothing. Qed.
Print Assumptions C11_other_program_contributes_nothing.

(* ---- Viewer, weekly reports (newTelemetryReport after fix a1becfe: summary
   from the identity fields, the Counters and the Stacks).  For every program
   of a report whose Counters keys are plain names and whose Stacks keys are
   stack names (every report the uploader writes): the names listed are
   exactly the displayed names (a stack's title) of the counters AND stack
   counters that are not approved, i.e. that the uploader drops ... *)
Theorem C11_viewer_report_names : forall u p,
  approved_build u (fst p) -> plain_keys p ->
  summary_names (viewer_report_summary (new_config u) p) =
  map display_name (filter (fun k => negb (approved_itemb u (id_program (fst p)) k)) (report_items p)).
Proof. exact viewer_report_names. Qed.
Print Assumptions C11_viewer_report_names.

(* ... so the report view never calls an approved counter or stack excluded,
   and leaves out nothing the uploader drops (formerly finding 19) ... *)
Theorem C11_viewer_report_lists_dropped : forall u p, approved_build u (fst p) -> plain_keys p ->
  (forall n, In n (summary_names (viewer_report_summary (new_config u) p)) ->
             exists k, In k (report_items p) /\ display_name k = n /\ approved_itemb u (id_program (fst p)) k = false) /\
  (forall k, In k (report_items p) -> approved_itemb u (id_program (fst p)) k = false ->
             In (display_name k) (summary_names (viewer_report_summary (new_config u) p))).
Proof. exact viewer_report_lists_dropped. Qed.
Print Assumptions C11_viewer_report_lists_dropped.

(* ... its set verdict is the documented one ... *)
Theorem C11_viewer_report_set : forall u p,
  summary_excludes_set (viewer_report_summary (new_config u) p) = negb (approved_buildb u (fst p)).
Proof. exact viewer_report_set. Qed.
Print Assumptions C11_viewer_report_set.

(* ... and the executable report oracle reports nothing on the model. *)
Theorem C11_viewer_report_oracle_model : forall u p, plain_keys p ->
  viewer_report_check u p (viewer_report_summary (new_config u) p) = [].
Proof. exact viewer_report_check_model. Qed.
Print Assumptions C11_viewer_report_oracle_model.

(* ---- Sequences of requests.  One upload handler: every body is decoded into
   a fresh report, so the answer to a request in ANY sequence is the answer to
   that request alone; hence the server accepts every report the uploader
   produces whatever was posted before, and refuses one with an item outside
   the configuration whatever was posted before. *)
Theorem C11_serve_sequence_pointwise : forall c before r after,
  nth (List.length before) (serve_sequence c (before ++ r :: after)) 0 =
  server_status (server_validate c (fst r) (snd r)).
Proof. exact serve_sequence_pointwise. Qed.
Print Assumptions C11_serve_sequence_pointwise.

Theorem C11_server_accepts_uploader_in_sequence :
  forall gate u cfgver week lastweek x files local up before after,
  create_report gate u cfgver week lastweek x files = Some (local, Some up) ->
  parse_date week <> None -> x_is_zero x = false ->
  nth (List.length before) (serve_sequence (new_config u) (before ++ (true, up) :: after)) 0 = 200.
Proof. exact server_accepts_uploader_in_sequence. Qed.
Print Assumptions C11_server_accepts_uploader_in_sequence.

Theorem C11_server_rejects_outside_in_sequence : forall u sem r p before after,
  In p (r_programs r) -> ~ prog_within u p ->
  nth (List.length before) (serve_sequence (new_config u) (before ++ (sem, r) :: after)) 0 = 400.
Proof. exact server_rejects_outside_in_sequence. Qed.
Print Assumptions C11_server_rejects_outside_in_sequence.

(* One viewer Server: configAt resolves the requested configuration version on
   every request; the page for a request in ANY sequence is the page of that
   request's configuration, and each of its summaries passes the oracle under
   that configuration (so the page for "latest" agrees with the uploader, which
   downloads the latest configuration at each run, whatever pages were shown before). *)
Theorem C11_viewer_pages_pointwise : forall st files before r after,
  nth (List.length before) (viewer_pages st files (before ++ r :: after)) [] =
  viewer_page (config_at st (fst r) (snd r)) files.
Proof. exact viewer_pages_pointwise. Qed.
Print Assumptions C11_viewer_pages_pointwise.

Theorem C11_viewer_summary_oracle_model : forall u f,
  viewer_summary_check u f (viewer_summary (new_config u) f) = [].
Proof. exact viewer_summary_check_model. Qed.
Print Assumptions C11_viewer_summary_oracle_model.

(* requests served at the same time (several clients, one configuration object,
   one handler): in whatever order the handler gets to them, each receives the
   answer it would receive alone. *)
Theorem C11_serve_sequence_permutation : forall c reqs reqs',
  Permutation reqs reqs' -> Permutation (serve_sequence c reqs) (serve_sequence c reqs').
Proof. exact serve_sequence_permutation. Qed.
Print Assumptions C11_serve_sequence_permutation.

(* ---- What the server stores.  An accepted report is stored by encoding the
   DECODED report again, a refused one stores nothing: the stored object is the
   report that was validated - within the configuration, no other member - and
   the stored-object oracle (applied to the TEXT of the object read back from
   the bucket) accepts the model. *)
Theorem C11_server_store_within : forall u sem r s,
  server_store (new_config u) sem r = Some s -> s = r /\ report_withinb u s = true.
Proof. exact server_store_within. Qed.
Print Assumptions C11_server_store_within.

Theorem C11_stored_oracle_model : forall u sem r,
  stored_check u (match server_validate (new_config u) sem r with VOk => true | _ => false end)
               (server_store (new_config u) sem r) false = [].
Proof. exact stored_check_model. Qed.
Print Assumptions C11_stored_oracle_model.

(* ---- Viewer, Charts section (charts() after fix c8e437d).  A chart is shown
   as present in the configuration iff some configured counter of the program
   belongs to it (its collapsed name is <chart>:..., or it expands to the
   chart's name) or a configured stack has its name ... *)
Theorem C11_viewer_chart_active_listed : forall u prog name,
  viewer_chart_active (new_config u) prog name = chart_listedb u prog name.
Proof. exact viewer_chart_active_listed. Qed.
Print Assumptions C11_viewer_chart_active_listed.

(* ... so no chart drawing an approved plain counter (one the uploader sends)
   is called "not present in the telemetry config" - with or without a bucket
   list in its configured name - for configurations whose bucket lists do not
   introduce the chart separator ... *)
Theorem C11_approved_counter_chart_active : forall u prog k,
  chart_prefix_ok u -> is_stack k = false -> approved_counterb u prog k = true ->
  viewer_chart_active (new_config u) prog (chart_name k) = true.
Proof. exact approved_counter_chart_active. Qed.
Print Assumptions C11_approved_counter_chart_active.

(* ... nor any chart of an approved stack counter.  (Before c8e437d the
   configured stacks were not consulted and such a chart was called "not
   present in the telemetry config": finding 20, oracle class viewer-chart-stack.) *)
Theorem C11_approved_stack_chart_active : forall u prog k,
  is_stack k = true -> approved_stackb u prog k = true ->
  viewer_chart_active (new_config u) prog (chart_name k) = true.
Proof. exact approved_stack_chart_active. Qed.
Print Assumptions C11_approved_stack_chart_active.

(* The chart oracle reports nothing on the model. *)
Theorem C11_viewer_chart_oracle_model : forall u files prog name, chart_prefix_ok u ->
  viewer_chart_check u files prog name (viewer_chart_active (new_config u) prog name) = [].
Proof. exact viewer_chart_check_model. Qed.
Print Assumptions C11_viewer_chart_oracle_model.

(* ---- Non-vacuity *)
Definition ex_cfg : upload_cfg :=
  mkUC [s2b "linux"] [s2b "amd64"] [s2b "go1.22.1"] 0
       [mkPC (s2b "cmd/go") [s2b "go1.22.1"] [mkCC (s2b "chart:{a,b}") bits_one] [mkCC (s2b "stk") bits_one]].
Definition ex_id (os : string) : ident := mkId (s2b "cmd/go") (s2b "go1.22.1") (s2b "go1.22.1") (s2b os) (s2b "amd64").
Definition ex_file (os : string) : cfile :=
  mkFile (ex_id os) [(s2b "chart:a", 1); (s2b "chart:c", 5); (s2b "stk" ++ [10] ++ s2b "f", 7); (s2b "st" ++ [10] ++ s2b "f", 1)].

Example ex_viewer_counters :
  viewer_summary (new_config ex_cfg) (ex_file "linux") = SCounters [s2b "chart:c"; s2b "st"].
Proof. vm_compute. reflexivity. Qed.
Example ex_viewer_set : viewer_summary (new_config ex_cfg) (ex_file "beos") = SOsArch.
Proof. vm_compute. reflexivity. Qed.
Example ex_server_ok :
  match create_report true ex_cfg (s2b "v1.0.0") (s2b "2024-01-08") (s2b "") bits_half [ex_file "linux"; ex_file "beos"] with
  | Some (_, Some up) => server_validate (new_config ex_cfg) true up
  | _ => VBadWeek
  end = VOk.
Proof. vm_compute. reflexivity. Qed.
Example ex_server_rejects_local :
  match create_report true ex_cfg (s2b "v1.0.0") (s2b "2024-01-08") (s2b "") bits_half [ex_file "linux"] with
  | Some (local, _) => server_validate (new_config ex_cfg) true local
  | _ => VOk
  end = VUnknownCounter.
Proof. vm_compute. reflexivity. Qed.

(* a week with two approved programs that both recorded the stack "stk",
   approved for cmd/go only: kept for cmd/go, dropped for cmd/compile, in both file orders *)
Definition ex_cfg2 : upload_cfg :=
  mkUC [s2b "linux"] [s2b "amd64"] [s2b "go1.22.1"] 0
       [mkPC (s2b "cmd/go") [s2b "go1.22.1"] [] [mkCC (s2b "stk") bits_one];
        mkPC (s2b "cmd/compile") [s2b "go1.22.1"] [mkCC (s2b "c") bits_one] []].
Definition ex_f (prog : string) : cfile :=
  mkFile (mkId (s2b prog) (s2b "go1.22.1") (s2b "go1.22.1") (s2b "linux") (s2b "amd64"))
         [(s2b "stk" ++ [10] ++ s2b "f", 2); (s2b "c", 1)].
Example ex_two_programs_order1 :
  map (fun p => (List.length (fst (snd p)), List.length (snd (snd p))))
      (filter_upload (new_config ex_cfg2) bits_half (aggregate [ex_f "cmd/go"; ex_f "cmd/compile"])) = [(0%nat, 1%nat); (1%nat, 0%nat)].
Proof. vm_compute. reflexivity. Qed.
Example ex_two_programs_order2 :
  map (fun p => (List.length (fst (snd p)), List.length (snd (snd p))))
      (filter_upload (new_config ex_cfg2) bits_half (aggregate [ex_f "cmd/compile"; ex_f "cmd/go"])) = [(1%nat, 0%nat); (0%nat, 1%nat)].
Proof. vm_compute. reflexivity. Qed.

(* the report view on a local report: dropped counter and dropped stack both listed, approved ones not *)
Example ex_report_view :
  viewer_report_summary (new_config ex_cfg)
    (ex_id "linux", ([(s2b "chart:a", 1%Z); (s2b "chart:c", 5%Z)],
                     [(s2b "stk" ++ [10] ++ s2b "f", 7%Z); (s2b "st" ++ [10] ++ s2b "f", 1%Z)]))
  = SCounters [s2b "chart:c"; s2b "st"].
Proof. vm_compute. reflexivity. Qed.
