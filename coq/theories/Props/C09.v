(* C09  Counter-file week boundaries are computed and honoured consistently.
   This file holds only statements; every proof is `exact <lemma>`. *)
From Coq Require Import List ZArith NArith Bool.
From Tele Require Import Lib.Bytes Lib.Calendar Model.Span Proofs.CalendarFacts Proofs.SpanFacts Proofs.SpanShare Proofs.SpanChain.
Import ListNotations.
Open Scope Z_scope.
From Coq Require Import String. Open Scope string_scope. Open Scope Z_scope. Open Scope list_scope.

(* Every current time (all Z seconds), every week-end setting: the span begins
   at 00:00 UTC today and ends at 00:00 UTC of the first later day that falls
   on the configured weekday, one to seven days later. *)
Theorem C09_span_shape : forall now w, 0 <= w < 7 ->
  let '(b, e) := counter_span now w in
  b = now / 86400 * 86400 /\
  exists k, 1 <= k <= 7 /\ e = b + k * 86400 /\ weekday (b / 86400 + k) = w /\
            forall j, 1 <= j < k -> weekday (b / 86400 + j) <> w.
Proof. exact span_shape. Qed.
Print Assumptions C09_span_shape.

(* The executable oracle applied to implementation observations accepts the model. *)
Theorem C09_span_oracle : forall now w, 0 <= w < 7 -> span_ok now w (counter_span now w) = true.
Proof. exact span_ok_model. Qed.
Print Assumptions C09_span_oracle.

(* The calendar the span is computed with is the real one: civil date of a
   day number maps back to that day and is a valid month/day, for all Z. *)
Theorem C09_calendar_roundtrip : forall z,
  let '(y, m, d) := civil_from_days z in
  days_from_civil y m d = z /\ valid_civil y m d = true.
Proof. exact civil_roundtrip. Qed.
Print Assumptions C09_calendar_roundtrip.

(* time.Date(y, m, d + k) normalisation = k days later, across every month,
   year and leap boundary. *)
Theorem C09_date_normalisation : forall y m d k,
  days_from_civil y m (d + k) = days_from_civil y m d + k.
Proof. exact days_linear. Qed.
Print Assumptions C09_date_normalisation.

(* The file name carries the begin date (years 0000..9999). *)
Theorem C09_name_carries_begin_date : forall now w, 0 <= w < 7 -> in_range now ->
  parse_date (name_date (counter_span now w)) = Some (now / 86400).
Proof. exact name_date_roundtrip. Qed.
Print Assumptions C09_name_carries_begin_date.

(* Rotation: once the recorded end is reached the recomputed span differs
   (a new file is started) and the new span begins at or after the old end;
   within the begin day the file is kept. *)
Theorem C09_rotation_at_end : forall now0 now w, 0 <= w < 7 ->
  snd (counter_span now0 w) <= now ->
  rotate_keeps (counter_span now0 w) now w = false /\
  snd (counter_span now0 w) <= fst (counter_span now w).
Proof. exact rotate_after_end. Qed.
Print Assumptions C09_rotation_at_end.

(* A long-lived rotating process: every rotate() arms one timer for the
   recorded end; whenever each timer fires at that end (or later that day, any
   number of weeks in a row) the spans of the files it counts into tile the
   time line - each begins exactly at its predecessor's recorded end and lasts
   one whole week - and there is one file per firing. *)
Theorem C09_rotation_chain_tiles : forall now w fires, 0 <= w < 7 -> fires_on_time now w fires ->
  match timer_chain now w fires with
  | [] => False
  | s :: r => s = counter_span now w /\ tiles (snd s) r
  end.
Proof. exact chain_tiles. Qed.
Print Assumptions C09_rotation_chain_tiles.
(* The delay the timer is armed with - until the recorded end, at least one
   minute -: due never before the end, exactly at it when it is at least the
   minimum away, and less than the minimum after it otherwise. *)
Theorem C09_timer_due_at_end : forall mn now e, 0 < mn -> now < e ->
  e <= now + timer_delay mn now e /\
  (mn <= e - now -> now + timer_delay mn now e = e) /\
  now + timer_delay mn now e < e + mn.
Proof. exact timer_due. Qed.
Print Assumptions C09_timer_due_at_end.
(* Hence a process that lives n weeks beyond its first file, each timer firing
   when due: n+1 files, the first of the opening time's span, the others whole
   weeks, each beginning at its predecessor's recorded end. *)
Theorem C09_self_timed_process_tiles : forall n now w, 0 <= w < 7 ->
  match timer_chain now w (self_timed n now w) with
  | [] => False
  | s :: r => s = counter_span now w /\ tiles (snd s) r /\ List.length r = n
  end.
Proof. exact self_timed_tiles. Qed.
Print Assumptions C09_self_timed_process_tiles.
(* The span computed at a clock reading contains that reading, so "the span an
   increment was made in" is determined by the clock reading at the increment.
   The harness (case rotfail: a rotation that fails once, then weeks of
   further increments and rotations) requires that no file holds more
   increments than were made while its own span contained the clock. *)
Theorem C09_span_contains_now : forall now w, 0 <= w < 7 ->
  fst (counter_span now w) <= now < snd (counter_span now w).
Proof. exact span_contains_now. Qed.
Print Assumptions C09_span_contains_now.
Theorem C09_rotation_chain_length : forall now w fires, List.length (timer_chain now w fires) = S (List.length fires).
Proof. exact chain_length. Qed.
Print Assumptions C09_rotation_chain_length.

Theorem C09_rotation_keeps_same_day : forall now0 now w,
  now0 / 86400 = now / 86400 -> rotate_keeps (counter_span now0 w) now w = true.
Proof. exact rotate_same_day. Qed.
Print Assumptions C09_rotation_keeps_same_day.

(* The uploader reads back exactly the span the counter side recorded ... *)
Theorem C09_uploader_reads_counter_span : forall now w, 0 <= w < 7 -> in_range now ->
  uploader_reads (meta_time_begin (counter_span now w)) (meta_time_end (counter_span now w))
  = Some (counter_span now w).
Proof. exact uploader_reads_what_counter_wrote. Qed.
Print Assumptions C09_uploader_reads_counter_span.

(* ONE run over ANY set of count files of any programs and weeks (program,
   recorded end, count): the entries of the reports it writes are exactly the
   finished files' counts, each under the week named by ITS OWN end date and
   under its program; the others are left; none is both or neither. *)
Theorem C09_run_reports_each_file_under_its_week : forall files start wk p n,
  In (wk, p, n) (run_entries files start) <->
  exists e, In (p, e, n) files /\ uploader_consumes e start = true /\ wk = uploader_week e.
Proof. exact run_entries_spec. Qed.
Print Assumptions C09_run_reports_each_file_under_its_week.
Theorem C09_run_leaves_unfinished : forall files start p e n,
  In (p, e, n) (run_leaves files start) <-> In (p, e, n) files /\ uploader_consumes e start = false.
Proof. exact run_leaves_spec. Qed.
Print Assumptions C09_run_leaves_unfinished.
Theorem C09_run_partition : forall files start,
  (List.length (run_entries files start) + List.length (run_leaves files start) = List.length files)%nat.
Proof. exact run_partition_length. Qed.
Print Assumptions C09_run_partition.

(* ... treats the file as finished exactly when that end is before the start
   instant (nanosecond resolution) ... *)
Theorem C09_finished_iff_end_before_start : forall tend ssec snsec, 0 <= snsec ->
  uploader_consumes tend (ssec, snsec) = true <-> (tend < ssec \/ (tend = ssec /\ 0 < snsec)).
Proof. exact consumes_iff_ended_before_start. Qed.
Print Assumptions C09_finished_iff_end_before_start.

(* ... and names the week by that end date, which is the configured weekday. *)
Theorem C09_week_is_end_date : forall now w, 0 <= w < 7 -> in_range now ->
  let e := snd (counter_span now w) in
  parse_date (uploader_week e) = Some (e / 86400) /\ weekday (e / 86400) = w /\
  e = e / 86400 * 86400.
Proof. exact week_name_is_end_date. Qed.
Print Assumptions C09_week_is_end_date.

(* Missing / malformed setting: any file content gives a weekday in 0..6 or
   the "empty" error (exactly when nothing but white space is in the file). *)
Theorem C09_weekend_total : forall f w, weekend_of_bytes f = Some w -> 0 <= w < 7.
Proof. exact weekend_in_range. Qed.
Print Assumptions C09_weekend_total.
Theorem C09_weekend_error_iff_blank : forall f, weekend_of_bytes f = None <-> trim_space f = [].
Proof. exact weekend_none_iff. Qed.
Print Assumptions C09_weekend_error_iff_blank.

(* A process that meets an existing file of the same program and begin date
   (the name carries nothing else) counts into it only if the file's recorded
   span is its own, so its rotation instant is the recorded end and the
   uploader reads the same week from the header; otherwise the file is refused
   and nothing of that process lands in it. *)
Theorem C09_shared_file_has_own_span : forall now0 w0 now1 w1 s,
  0 <= w0 < 7 -> 0 <= w1 < 7 -> in_range now0 -> in_range now1 ->
  second_opener (counter_span now0 w0) (counter_span now1 w1) = Some s ->
  s = counter_span now1 w1 /\
  uploader_reads (meta_time_begin s) (meta_time_end s) = Some (counter_span now1 w1).
Proof. exact second_opener_own_span. Qed.
Print Assumptions C09_shared_file_has_own_span.
Theorem C09_foreign_span_refused_iff : forall first mine,
  second_opener first mine = None <->
  name_date first = name_date mine /\
  ~ (meta_time_begin first = meta_time_begin mine /\ meta_time_end first = meta_time_end mine).
Proof. exact second_opener_refused_iff. Qed.
Print Assumptions C09_foreign_span_refused_iff.

(* Non-vacuity: concrete instances. 2024-02-28 12:00:00 UTC (Wednesday),
   week end Sunday: begins 2024-02-28, ends 2024-03-03 (leap year crossing). *)
Example C09_example_leap :
  counter_span 1709121600 0 = (1709078400, 1709424000) /\
  meta_time_end (counter_span 1709121600 0) = s2b "2024-03-03T00:00:00Z" /\
  name_date (counter_span 1709121600 0) = s2b "2024-02-28" /\
  in_range 1709121600.
Proof. split; [|split; [|split]]; try (vm_compute; reflexivity). unfold in_range. vm_compute. split; [discriminate | reflexivity]. Qed.
(* 2024-02-28, week end Sunday, then a second process the same day with week end Thursday: refused *)
Example C09_example_refused :
  second_opener (counter_span 1709121600 0) (counter_span 1709125200 4) = None /\
  second_opener (counter_span 1709121600 0) (counter_span 1709125200 0) = Some (counter_span 1709121600 0).
Proof. split; vm_compute; reflexivity. Qed.
Example C09_example_weekend : weekend_of_bytes (s2b "9
") = Some 2 /\ weekend_of_bytes (s2b "  ") = None.
Proof. split; vm_compute; reflexivity. Qed.
