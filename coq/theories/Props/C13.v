(* C13  Merging and charting count every stored report exactly once.
   Statements only; every proof is `exact <lemma>`.  Model: Model/Worker.v
   (godev/cmd/worker: handleMerge, readMergedReports, handleChart, group,
   charts, partition, goMajorMinor...).  encoding/json, semver.Compare,
   go/version.Compare, sort.Slice and Go's map iteration order are not
   modelled: they appear as universally quantified functions constrained by
   the premises written in each statement. *)
From Coq Require Import List ZArith NArith Bool Permutation Sorted.
From Tele Require Import Lib.Bytes Lib.Calendar Lib.Sort Gen.Consts Model.Worker Model.WorkerStore
  Proofs.WorkerFacts Proofs.WorkerSpec Proofs.WorkerChart Proofs.WorkerOracle Proofs.WorkerProps Proofs.WorkerStoreFacts.
Import ListNotations.

(* ---- merging ------------------------------------------------------- *)

(* For every JSON codec (enc = Encoder.Encode without its newline, dec =
   Decoder.Decode of the first value) such that an encoding holds no raw
   newline, is not empty, and decodes to the value: if every stored object of
   the day decodes (to rs), the merge succeeds, reports |objs| in its
   response, and the merged object has exactly one line per stored object, in
   order, each decoding to what its object decodes to.  No bound on sizes. *)
Theorem C13_merge_one_line_per_object :
  forall (R : Type) (enc : R -> bytes) (dec : bytes -> option R),
  (forall r, ~ In nl (enc r)) -> (forall r, enc r <> []) -> (forall r, dec (enc r) = Some r) ->
  forall objs rs, map dec objs = map (@Some R) rs ->
  exists file,
    merge R enc dec objs = (file, length objs, true) /\
    unframe file = map enc rs /\
    length (unframe file) = length objs /\
    Forall2 (fun o l => dec l = dec o /\ dec o <> None) objs (unframe file).
Proof. exact merge_one_line_per_object. Qed.
Print Assumptions C13_merge_one_line_per_object.

(* Reading the merged object back yields every report, whatever the line
   lengths (the json.Decoder reader of fix afdbfb6; the bufio.Scanner reader
   it replaced stopped silently at the first line over 64KiB). *)
Theorem C13_read_all :
  forall (R : Type) (enc : R -> bytes) (dec : bytes -> option R),
  (forall r, ~ In nl (enc r)) -> (forall r, enc r <> []) -> (forall r, dec (enc r) = Some r) ->
  forall objs rs, map dec objs = map (@Some R) rs ->
  read_merged R dec (fst (fst (merge R enc dec objs))) = Some rs.
Proof. exact read_all. Qed.
Print Assumptions C13_read_all.

(* the framing itself: lines without newline bytes, none empty, any number, any length *)
Theorem C13_unframe_frame : forall ls,
  Forall (fun l => ~ In nl l) ls -> Forall (fun l : bytes => l <> []) ls -> unframe (frame ls) = ls.
Proof. exact unframe_frame. Qed.
Print Assumptions C13_unframe_frame.

(* an undecodable stored object makes the merge fail (it is not skipped) *)
Theorem C13_merge_undecodable_fails :
  forall (R : Type) (enc : R -> bytes) (dec : bytes -> option R) objs,
  Exists (fun o => dec o = None) objs -> snd (merge R enc dec objs) = false.
Proof. exact merge_undecodable. Qed.
Print Assumptions C13_merge_undecodable_fails.

(* ---- charting ------------------------------------------------------ *)

(* NumReports is the number of reports merged in the days of the range, and
   a chart object is produced only if every day of the range was read. *)
Theorem C13_num_reports_is_count :
  forall it lts ltg cfg read start end_ name cd,
  iter_ok it -> cfg_ok lts ltg cfg ->
  handle_chart it lts ltg cfg read start end_ = ChartOk name cd ->
  cd_num cd = length (days_reports read start (Z.to_nat (end_ - start + 1))) /\
  forall i, (i < Z.to_nat (end_ - start + 1))%nat -> exists rs, read (start + Z.of_nat i)%Z = ROk rs.
Proof. exact num_reports_is_count. Qed.
Print Assumptions C13_num_reports_is_count.

(* Each datum's value is the number of distinct X among the reports that
   have a program report for that program carrying a configured bucket which
   normalises to the datum's key -- whatever the map iteration orders and
   the sort implementation (iter_ok), for every request whose less is a
   strict total order on its keys (req_ok; all of charts()'s normalisers are
   total). *)
Theorem C13_partition_value_spec :
  forall it rs pk q c,
  iter_ok it -> req_ok q -> run_req it (group rs) pk q = Some (Some c) ->
  forall wk key v, In (wk, key, v) (c_data c) ->
    exists ids, NoDup ids /\
      (forall x, In x ids <->
         exists r p b, In r rs /\ In p (r_progs r) /\ pr_prog p = pk /\ In b (q_buckets q) /\
                       q_norm q b = Some key /\ In (q_chart q, b) (prog_cells p) /\ r_x r = x) /\
      v = Z.of_nat (length ids).
Proof. exact partition_value_spec. Qed.
Print Assumptions C13_partition_value_spec.

(* Which data a chart has: the chart is omitted exactly when no report
   counts for any of its keys; otherwise the keys are distinct, in the order
   of the comparator, every datum carries the latest week among the reports
   with a program report, and every key (with a positive count when empty
   buckets are ignored) is present with its count. *)
Theorem C13_partition_shape :
  forall it rs pk q, iter_ok it -> req_ok q ->
  exists oc, run_req it (group rs) pk q = Some oc /\
    match oc with
    | None => forall key x, ~ counted rs pk q key x
    | Some c =>
        (exists key x, counted rs pk q key x) /\
        NoDup (map d_key (c_data c)) /\ wsorted d_key (q_lt q) (c_data c) /\
        (forall wk key v, In (wk, key, v) (c_data c) ->
           is_max_week rs wk /\ key_of q key /\ ((0 < v)%Z \/ q_ignore q = false)) /\
        (forall key n, key_of q key -> count_is rs pk q key n -> ((0 < n)%Z \/ q_ignore q = false) ->
           exists wk, In (wk, key, n) (c_data c))
    end.
Proof. exact partition_shape. Qed.
Print Assumptions C13_partition_shape.

(* The whole chart object of handleChart: date range, NumReports, one entry
   per configured program in order, its charts being exactly the non-nil
   partitions of charts()'s requests (Version unless toolchain, GOOS, GOARCH,
   GoVersion normalised by goMajorMinor, one per configured counter), each
   meeting the specification above (chartdata_spec, Proofs/WorkerChart.v). *)
Theorem C13_chart_meets_spec :
  forall it lts ltg cfg read start end_ name cd,
  iter_ok it -> cfg_ok lts ltg cfg ->
  handle_chart it lts ltg cfg read start end_ = ChartOk name cd ->
  (start <= end_)%Z /\
  (forall i, (i < Z.to_nat (end_ - start + 1))%nat -> exists rs, read (start + Z.of_nat i)%Z = ROk rs) /\
  name = chart_object_name start end_ /\
  chartdata_spec lts ltg cfg (fmt_date start) (fmt_date end_)
                 (days_reports read start (Z.to_nat (end_ - start + 1))) cd.
Proof. exact handle_chart_ok_spec. Qed.
Print Assumptions C13_chart_meets_spec.

(* ... and a chart object is produced whenever every day of the range is
   readable (cfg_ok holds only the premises on the two comparators). *)
Theorem C13_chart_total :
  forall it lts ltg cfg read start end_,
  iter_ok it -> cfg_ok lts ltg cfg -> (start <= end_)%Z ->
  (forall i, (i < Z.to_nat (end_ - start + 1))%nat -> exists rs, read (start + Z.of_nat i)%Z = ROk rs) ->
  exists cd, handle_chart it lts ltg cfg read start end_ = ChartOk (chart_object_name start end_) cd.
Proof. exact handle_chart_total. Qed.
Print Assumptions C13_chart_total.

(* Determinism: two runs with arbitrary (permutation-valued) map iteration
   orders and arbitrary sort.Slice implementations (iter_ok it, iter_ok it'),
   over merge buckets holding day by day the same reports in any order, give
   the same result (chart object or error). *)
Theorem C13_chart_deterministic :
  forall it it' lts ltg cfg read read' start end_,
  iter_ok it -> iter_ok it' -> cfg_ok lts ltg cfg ->
  (forall day, day_equiv (read day) (read' day)) ->
  handle_chart it lts ltg cfg read start end_ = handle_chart it' lts ltg cfg read' start end_.
Proof. exact chart_deterministic. Qed.
Print Assumptions C13_chart_deterministic.

(* ... also when the reports of the range are moved between its days: only
   the multiset of reports in the range matters. *)
Theorem C13_chart_deterministic_across_days :
  forall it it' lts ltg cfg read read' start end_,
  iter_ok it -> iter_ok it' -> cfg_ok lts ltg cfg ->
  day_equiv (read_days read start (Z.to_nat (end_ - start + 1)))
            (read_days read' start (Z.to_nat (end_ - start + 1))) ->
  handle_chart it lts ltg cfg read start end_ = handle_chart it' lts ltg cfg read' start end_.
Proof. exact handle_chart_deterministic. Qed.
Print Assumptions C13_chart_deterministic_across_days.

(* the sorted permutation is unique: what makes the output independent of the
   order in which `merged` is ranged over and of the sort algorithm *)
Theorem C13_sorted_permutation_unique :
  forall (A K : Type) (kf : A -> K) (lt : K -> K -> bool) (D : K -> Prop),
  lt_total K lt D -> forall l1 l2,
  Permutation l1 l2 -> NoDup (map kf l1) -> Forall (fun a => D (kf a)) l1 ->
  wsorted kf lt l1 -> wsorted kf lt l2 -> l1 = l2.
Proof. exact wsorted_unique. Qed.
Print Assumptions C13_sorted_permutation_unique.

(* compareLexically is a strict total order on every set of keys; so is
   compareSemver (semver.Compare, ties broken lexically) when semver.Compare
   is a total preorder. *)
Theorem C13_lexical_order : forall D, order_ok bltb D.
Proof. exact lex_order_ok. Qed.
Print Assumptions C13_lexical_order.

Theorem C13_compare_semver_order :
  forall cmp : bytes -> bytes -> comparison,
  (forall x y, cmp y x = CompOpp (cmp x y)) ->
  (forall x y z, cmp x y = Lt -> cmp y z = Lt -> cmp x z = Lt) ->
  (forall x y z, cmp x y = Lt -> cmp y z = Eq -> cmp x z = Lt) ->
  (forall x y z, cmp x y = Eq -> cmp y z = Lt -> cmp x z = Lt) ->
  (forall x y z, cmp x y = Eq -> cmp y z = Eq -> cmp x z = Eq) ->
  order_ok (semver_lt cmp) (fun _ => True).
Proof. exact semver_lt_order. Qed.
Print Assumptions C13_compare_semver_order.

(* A missing day: no chart object; and "not found" when the days before it
   in the range are readable. *)
Theorem C13_missing_day_not_found :
  forall it lts ltg cfg read start end_ day,
  (start <= day <= end_)%Z -> read day = RNotFound ->
  (forall name cd, handle_chart it lts ltg cfg read start end_ <> ChartOk name cd) /\
  ((forall d', (start <= d' < day)%Z -> exists rs, read d' = ROk rs) ->
   handle_chart it lts ltg cfg read start end_ = ChartNotFound).
Proof. exact handle_chart_missing_day. Qed.
Print Assumptions C13_missing_day_not_found.

(* the oracle the runner evaluates on the implementation's chart object is
   the specification, and the model's chart object passes it *)
Theorem C13_oracle_is_spec :
  forall lts ltg cfg s e rs cd,
  chart_ok lts ltg cfg s e rs cd = true <-> chartdata_spec lts ltg cfg s e rs cd.
Proof. exact chart_ok_iff. Qed.
Print Assumptions C13_oracle_is_spec.

Theorem C13_oracle_accepts_model :
  forall it lts ltg cfg read start end_ name cd,
  iter_ok it -> cfg_ok lts ltg cfg ->
  handle_chart it lts ltg cfg read start end_ = ChartOk name cd ->
  chart_ok lts ltg cfg (fmt_date start) (fmt_date end_)
           (days_reports read start (Z.to_nat (end_ - start + 1))) cd = true.
Proof. exact chart_ok_accepts_model. Qed.
Print Assumptions C13_oracle_accepts_model.

(* ---- totality (finding 16, fixed by 48ba0d4) ----------------------- *)

(* charts() and handleChart never panic: for ALL configurations (any
   GoVersion strings, incl. "go1", "g", ""), all reports, all iteration
   orders, sort implementations and comparators -- no premise at all.
   Before the fix goMajorMinor sliced "go1" out of range and the model had
   a refuted theorem here. *)
Theorem C13_charts_never_panics :
  forall it lts ltg cfg s e d xs, charts it lts ltg cfg s e d xs <> None.
Proof. exact charts_never_panics. Qed.
Print Assumptions C13_charts_never_panics.

Theorem C13_handle_chart_never_panics :
  forall it lts ltg cfg read start end_, handle_chart it lts ltg cfg read start end_ <> ChartPanic.
Proof. exact handle_chart_never_panics. Qed.
Print Assumptions C13_handle_chart_never_panics.

(* the former witness: goMajorMinor now maps go1, g, "", go12 to "" (and
   go1.21.3 to go1.21), and the configuration GoVersion=["go1"] is charted *)
Theorem C13_goversion_witness_charted :
  map go_major_minor [[103; 111; 49]%N; [103%N]; []; [103; 111; 49; 50]%N; [103; 111; 49; 46; 50; 49; 46; 51]%N]
    = [[]; []; []; []; [103; 111; 49; 46; 50; 49]%N] /\
  exists name ps,
    handle_chart iter_id bltb bltb witness_cfg (fun _ => ROk [witness_report]) 0 0
      = ChartOk name (mkCD (fmt_date 0) (fmt_date 0) ps 1).
Proof. exact goversion_witness_charted. Qed.
Print Assumptions C13_goversion_witness_charted.

(* ---- sequences of operations on the buckets (round 2) --------------- *)

(* Writing an object replaces it: a later read sees the last write only,
   whatever (longer, shorter) was stored under the name before. *)
Theorem C13_write_replaces_object :
  forall (V : Type) n (v : V) b n', b_get (b_put n v b) n' = if beq n' n then Some v else b_get b n'.
Proof. exact @b_get_put. Qed.
Print Assumptions C13_write_replaces_object.

(* After ANY history of uploads, withdrawals, re-uploads under the same name,
   merges and charts (run_ops from any state), merging a day whose currently
   stored objects decode to rs answers "merged |rs| reports" and leaves a
   merged object with exactly one line per currently stored report, which
   reads back as exactly rs -- nothing of an earlier, longer merged object
   survives; the other days' objects are untouched.  ord = the listing order
   of the bucket (any function). *)
Theorem C13_remerge_reads_current :
  forall (R : Type) (enc : R -> bytes) (dec : bytes -> option R) (proj : R -> report)
         (ord : bucket bytes -> bucket bytes) (pos : list bool) it lts ltg cfg,
  (forall r, ~ In nl (enc r)) -> (forall r, enc r <> []) -> (forall r, dec (enc r) = Some r) ->
  forall st0 ops date rs,
  let st := fst (run_ops R enc dec proj ord pos it lts ltg cfg st0 ops) in
  map dec (day_objects ord pos st date) = map (@Some R) rs ->
  let '(st', resp) := do_merge R enc dec ord pos st date in
  resp = RespMerge (length rs) true /\
  ws_upload st' = ws_upload st /\ ws_stray st' = ws_stray st /\ ws_chart st' = ws_chart st /\
  (forall n, n <> date ++ json_ext -> b_get (ws_merged st') n = b_get (ws_merged st) n) /\
  exists file, b_get (ws_merged st') (date ++ json_ext) = Some file /\
               unframe file = map enc rs /\ read_merged R dec file = Some rs.
Proof.
  exact (fun R enc dec proj ord pos it lts ltg cfg H1 H2 H3 st0 ops date rs =>
           remerge_reads_current R enc dec ord pos H1 H2 H3
             (fst (run_ops R enc dec proj ord pos it lts ltg cfg st0 ops)) date rs).
Qed.
Print Assumptions C13_remerge_reads_current.

(* ... and charting that day afterwards writes (replacing any earlier chart
   object) a chart with NumReports = |rs| that meets the specification for
   exactly the currently stored reports. *)
Theorem C13_chart_after_remerge :
  forall (R : Type) (enc : R -> bytes) (dec : bytes -> option R) (proj : R -> report)
         (ord : bucket bytes -> bucket bytes) (pos : list bool),
  (forall r, ~ In nl (enc r)) -> (forall r, enc r <> []) -> (forall r, dec (enc r) = Some r) ->
  forall it lts ltg cfg st day rs,
  iter_ok it -> cfg_ok lts ltg cfg ->
  map dec (day_objects ord pos st (fmt_date day)) = map (@Some R) rs ->
  let st1 := fst (do_merge R enc dec ord pos st (fmt_date day)) in
  exists cd,
    do_chart R dec proj it lts ltg cfg st1 day day =
      (mkWS (ws_upload st1) (ws_stray st1) (ws_merged st1) (b_put (chart_object_name day day) cd (ws_chart st1)),
       RespChart (ChartOk (chart_object_name day day) cd)) /\
    cd_num cd = length rs /\
    chart_ok lts ltg cfg (fmt_date day) (fmt_date day) (map proj rs) cd = true.
Proof. exact chart_after_remerge. Qed.
Print Assumptions C13_chart_after_remerge.

(* ---- the listing and the date range (round 4) --------------------- *)

(* The listing a merge works from is the stored objects with the day's
   prefix, wherever unlistable stray directories (ws_stray, any number, any
   names) fall in the walk (pos) -- so every theorem above about "the
   currently stored reports" holds whatever else lies in the bucket. *)
Theorem C13_listing_ignores_strays :
  forall ord pos st date,
  day_objects ord pos st date = map snd (filter (fun nv => has_prefix (fst nv) date) (ord (ws_upload st))).
Proof. exact listing_ignores_strays. Qed.
Print Assumptions C13_listing_ignores_strays.

(* After any history from the empty buckets (uploads, withdrawals, re-uploads,
   stray directories, bucket directories moved behind symbolic links
   [OpRelocate], merges, charts) the listing a merge works from is exactly the
   objects currently stored under the day's prefix, each with its current
   content: what can be written and read back by name is also listed. *)
Theorem C13_listing_is_what_was_written :
  forall (R : Type) (enc : R -> bytes) (dec : bytes -> option R) (proj : R -> report)
         (ord : bucket bytes -> bucket bytes), (forall l, Permutation (ord l) l) ->
  forall pos it lts ltg cfg ops date n d,
  let st := fst (run_ops R enc dec proj ord pos it lts ltg cfg ws_empty ops) in
  In (n, d) (walk (day_entries ord pos st) date) <->
  b_get (ws_upload st) n = Some d /\ has_prefix n date = true.
Proof. exact listing_is_what_was_written. Qed.
Print Assumptions C13_listing_is_what_was_written.

(* The range of /chart/ and /copy/ is every day from start to end inclusive,
   across month and year boundaries and over any number of years (days are
   day numbers; Lib/Calendar renders them). *)
Theorem C13_range_is_every_day :
  forall start end_ day, In day (range_days start end_) <-> (start <= day <= end_)%Z.
Proof. exact range_days_in. Qed.
Print Assumptions C13_range_is_every_day.

(* handleCopy: every object of every day of the range arrives with its content *)
Theorem C13_copy_covers_range :
  forall (ord : bucket bytes -> bucket bytes), (forall l, Permutation (ord l) l) ->
  forall src, NoDup (map fst src) ->
  forall dst start end_ day n v,
  (start <= day <= end_)%Z -> In (n, v) src -> has_prefix n (fmt_date day) = true ->
  b_get (copy_range ord src dst start end_) n = Some v.
Proof. exact copy_covers_range. Qed.
Print Assumptions C13_copy_covers_range.

(* ---- descriptors (round 5) ------------------------------------------ *)

(* "Any number" of stored reports includes more reports than the process may
   have open files: with room for ONE reader (free >= 1) the merge under the
   descriptor bound is the unbounded merge, for every number of objects. *)
Theorem C13_merge_any_number_under_fd_limit :
  forall (R : Type) (enc : R -> bytes) (dec : bytes -> option R) free objs,
  (1 <= free)%nat -> merge_fd R enc dec free objs = merge R enc dec objs.
Proof. exact merge_fd_any_number. Qed.
Print Assumptions C13_merge_any_number_under_fd_limit.

(* the readers handleMerge opens: never more than one at a time, none left
   when it returns (also when an object does not decode) *)
Theorem C13_merge_one_reader_at_a_time :
  forall (R : Type) (dec : bytes -> option R) objs,
  open_peak (merge_events R dec objs) 0 0 = ((if is_nil objs then 0 else 1)%nat, 0%nat).
Proof. exact merge_one_reader_at_a_time. Qed.
Print Assumptions C13_merge_one_reader_at_a_time.

(* ---- the request context (round 7) --------------------------------- *)

(* Whatever the request context does while /chart/ runs (live, cancelled or
   past its deadline before the request or after any number of objects have
   been opened), the request is served as with a live context; so a chart
   object answered under a done context still has NumReports = the number of
   merged reports of the range and meets the specification for all of them. *)
Theorem C13_chart_independent_of_request_context :
  forall it lts ltg cfg read start end_ c,
  handle_chart_ctx it lts ltg c cfg read start end_ = handle_chart it lts ltg cfg read start end_ /\
  forall name cd, iter_ok it -> cfg_ok lts ltg cfg ->
    handle_chart_ctx it lts ltg c cfg read start end_ = ChartOk name cd ->
    cd_num cd = length (days_reports read start (Z.to_nat (end_ - start + 1))) /\
    chartdata_spec lts ltg cfg (fmt_date start) (fmt_date end_)
                   (days_reports read start (Z.to_nat (end_ - start + 1))) cd.
Proof. exact chart_independent_of_request_context. Qed.
Print Assumptions C13_chart_independent_of_request_context.

(* ---- read faults (fix 0ab09db) -------------------------------------- *)

(* A /chart/ request whose reader of a merged object fails after k records
   (connection reset, reader bound to a done context) is never answered with
   a chart of fewer reports: any chart produced under a fault is the
   fault-free chart; and a fault on a day of the range whose merged object
   exists fails the request.  (Before the fix the reader ended the data
   silently at the fault: a chart of k reports, answered 200.) *)
Theorem C13_chart_read_fault_is_error :
  forall it lts ltg cfg read start end_ fault,
  (forall name cd, handle_chart_fault it lts ltg fault cfg read start end_ = ChartOk name cd ->
                   handle_chart it lts ltg cfg read start end_ = ChartOk name cd) /\
  (forall fd k, fault = Some (fd, k) -> (start <= fd <= end_)%Z -> read fd <> RNotFound ->
                forall name cd, handle_chart_fault it lts ltg fault cfg read start end_ <> ChartOk name cd).
Proof. exact chart_read_fault_is_error. Qed.
Print Assumptions C13_chart_read_fault_is_error.

(* ... and it leaves every bucket, the chart object included, as it was *)
Theorem C13_chart_fault_leaves_state :
  forall (R : Type) (enc : R -> bytes) (dec : bytes -> option R) (proj : R -> report)
         (ord : bucket bytes -> bucket bytes) pos it lts ltg cfg st s e fd k,
  (s <= fd <= e)%Z -> read_state_day R dec proj st fd <> RNotFound ->
  exists r, step R enc dec proj ord pos it lts ltg cfg st (OpChartFault s e fd k) = (st, RespChart r) /\
            forall name cd, r <> ChartOk name cd.
Proof. exact chart_fault_leaves_state. Qed.
Print Assumptions C13_chart_fault_leaves_state.

(* ---- non-vacuity --------------------------------------------------- *)

(* the identity iteration orders with insertion sort satisfy iter_ok *)
Example C13_iter_ok_inhabited : iter_ok iter_id.
Proof. exact iter_id_ok. Qed.
(* the JSON premises of the merge theorems are satisfiable *)
Example C13_merge_premises_satisfiable :
  exists (enc : nat -> bytes) (dec : bytes -> option nat),
    (forall r, ~ In nl (enc r)) /\ (forall r, enc r <> []) /\ (forall r, dec (enc r) = Some r).
Proof. exact merge_premises_satisfiable. Qed.
(* a configuration with cfg_ok for the lexical order (GoVersion go1.21.3, go1.21, go1.9; one program
   with versions [v1] and counter f:{a,b}) and the chart of four reports, two
   of them with the same X: X=7 is counted once under v1, go1.21.3 and go1.21
   merge into go1.21, the report without program reports counts in NumReports *)
Example C13_example_cfg_ok : cfg_ok bltb bltb example_cfg.
Proof. exact example_cfg_ok. Qed.
Example C13_example_chart :
  exists name ps,
    handle_chart iter_id bltb bltb example_cfg (fun _ => ROk example_reports) 19737 19737
      = ChartOk name (mkCD (fmt_date 19737) (fmt_date 19737) ps 4) /\
    map (fun c => (c_name c, map (fun x : datum => (d_key x, snd x)) (c_data c))) (flat_map po_charts ps) =
      [ (c_versionCounter, [([118; 49]%N, 1%Z)]);
        (c_goosCounter, [([100%N], 1%Z); ([108%N], 2%Z)]);
        (c_goversionCounter, [([103; 111; 49; 46; 50; 49]%N, 1%Z); ([103; 111; 49; 46; 57]%N, 1%Z)]);
        ([102%N], [([97%N], 1%Z); ([98%N], 1%Z)]) ].
Proof. exact example_chart. Qed.
(* three reports merged, one withdrawn and one re-stored shorter, merged again:
   the merged object is the two-line one *)
Example C13_example_remerge :
  let '(st, resps) := run_ops nat ex_enc ex_dec (fun _ => mkReport [] 0%Z []) (fun b => b) [true] iter_id bltb bltb
                              (mkCfg [] [] [] []) ws_empty ex_ops in
  resps = [RespNone; RespNone; RespNone; RespMerge 3 true; RespNone; RespNone; RespNone; RespMerge 2 true] /\
  b_get (ws_merged st) ([100%N] ++ json_ext) = Some (frame [ex_enc 1; ex_enc 2]).
Proof. exact example_remerge. Qed.
