From Coq Require Import List ZArith NArith Bool.
From Tele Require Import Lib.Bytes Lib.Sort Model.Worker.
Import ListNotations.
Theorem C13_placeholder : frame [] = [].
Proof. exact eq_refl. Qed.
Print Assumptions C13_placeholder.
