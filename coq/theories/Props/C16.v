(* C16  The telemetry sidecar starts only when permitted and never recursively.
   This file holds only statements; every proof is `exact <lemma>`.

   Model/Start: `start_run marker upload_var cfg mode localdir_ok period now
   token` mirrors Start/parent/child of start.go and yields the outcome, the
   ordered list of effects and the token afterwards; `spawned fuel ...` is the
   list of all processes started, transitively to depth `fuel`, with the marker
   variables each finds in its environment; `trun`/`tstep` run any number of
   acquireUploadToken callers under an arbitrary schedule (one atomic step per
   file-system call, time passing in between).  The marker and the mode range
   over arbitrary byte strings, the flags over bool, times over Z. *)
From Coq Require Import List ZArith NArith Bool.
From Tele Require Import Lib.Bytes Lib.Sched Gen.Consts Model.Start Proofs.StartFacts.
Import ListNotations.
Open Scope Z_scope.

(* --------------------------------------------------- launch decision *)

(* A sidecar is exec'ed only if the marker is empty, the mode is not "off",
   the local directory could be statted, and crash reporting is requested or
   (the upload flag is set and the token was acquired: absent or older than the
   period; the token file is then (re)created with the current time). *)
Theorem C16_launch_only_if : forall marker uv c mode ld period now tok cr up,
  In (EExec cr up) (r_effects (start_run marker uv c mode ld period now tok)) ->
  marker = [] /\ mode <> lit_off /\ ld = true /\
  cr = c_crash c /\ (cr = true \/ up = true) /\
  (up = true -> c_upload c = true /\ token_state_allows period now tok = true
                /\ r_token (start_run marker uv c mode ld period now tok) = Some now).
Proof. exact launch_only_if. Qed.
Print Assumptions C16_launch_only_if.

(* The decision is exactly that (so the statement above is not vacuous). *)
Theorem C16_launch_iff : forall uv c mode period now tok, mode <> lit_off ->
  (launches c period now tok = true <->
   In (EExec (c_crash c) (c_upload c && token_state_allows period now tok))
      (r_effects (start_run [] uv c mode true period now tok))).
Proof. exact launch_iff. Qed.
Print Assumptions C16_launch_iff.

(* --------------------------------------------------- no recursion *)

(* A process whose marker is "1" (the sidecar) or "2" (a descendant) execs no
   sidecar, whatever the flags, mode and token. *)
Theorem C16_no_exec_in_child : forall marker uv c mode ld period now tok,
  marker = lit_1 \/ marker = lit_2 ->
  forall e, In e (r_effects (start_run marker uv c mode ld period now tok)) -> is_exec e = false.
Proof. exact no_exec_in_child. Qed.
Print Assumptions C16_no_exec_in_child.

(* The sidecar's first effect is to rewrite the marker to "2" (before
   counter.Open, the crash monitor, and the uploader that runs the go command). *)
Theorem C16_child_sets_marker_first : forall uv c mode ld period now tok,
  exists rest, r_effects (start_run lit_1 uv c mode ld period now tok) = ESetMarker2 :: rest /\
               r_outcome (start_run lit_1 uv c mode ld period now tok) = OChildExit.
Proof. exact child_sets_marker_first. Qed.
Print Assumptions C16_child_sets_marker_first.

(* Every process started, transitively and to any depth, by a process calling
   Start is either the one sidecar of an application (marker "1", launched
   under the conditions above) or a program run by the sidecar's uploader, which
   finds marker "2". *)
Theorem C16_process_tree_shape : forall fuel marker uv c mode ld period now tok p,
  In p (spawned fuel marker uv c mode ld period now tok) ->
    (p_kind p = KSidecar /\ p_marker p = lit_1 /\ marker = [] /\ mode <> lit_off /\
     launches c period now tok = true /\
     (p_upload p = true -> uv = true \/
        (c_upload c = true /\ token_state_allows period now tok = true)))
    \/ (p_kind p = KDelegated /\ p_marker p = lit_2 /\ mode = lit_on).
Proof. exact spawned_shape. Qed.
Print Assumptions C16_process_tree_shape.

(* To any depth: an application causes at most one sidecar in total; a
   sidecar, a descendant of one, or a process with any other marker, none. *)
Theorem C16_sidecars_bounded : forall fuel marker uv c mode ld period now tok,
  (count is_sidecar (spawned fuel marker uv c mode ld period now tok)
   <= if beq marker [] then 1 else 0)%nat.
Proof. exact sidecars_bounded. Qed.
Print Assumptions C16_sidecars_bounded.

Theorem C16_no_recursion : forall fuel marker uv c mode ld period now tok,
  marker = lit_1 \/ marker = lit_2 ->
  forall p, In p (spawned fuel marker uv c mode ld period now tok) ->
    p_kind p = KDelegated /\ p_marker p = lit_2.
Proof. exact no_recursion. Qed.
Print Assumptions C16_no_recursion.

(* --------------------------------------------------- both entry points *)

(* child() is reached through Start or through MaybeChild (the pattern of
   programs such as cmd/go: MaybeChild first, Start later).  For every marker,
   flag, mode and token the two patterns do the same thing ... *)
Theorem C16_entry_points_agree : forall e marker uv c mode ld period now tok,
  program_run e marker uv c mode ld period now tok = start_run marker uv c mode ld period now tok.
Proof. exact program_run_eq. Qed.
Print Assumptions C16_entry_points_agree.

(* ... in particular, whichever entry point ran the sidecar, its first effect
   rewrites the marker, so the environment of everything it starts afterwards
   carries "2" ... *)
Theorem C16_child_marks_environment : forall e uv c mode ld period now tok,
  exists rest,
    r_effects (program_run e lit_1 uv c mode ld period now tok) = ESetMarker2 :: rest /\
    r_outcome (program_run e lit_1 uv c mode ld period now tok) = OChildExit /\
    env_marker_after lit_1 (r_effects (program_run e lit_1 uv c mode ld period now tok)) = lit_2 /\
    (forall pre post, rest = pre ++ post -> env_marker_after lit_1 (ESetMarker2 :: pre) = lit_2).
Proof. exact child_marks_environment. Qed.
Print Assumptions C16_child_marks_environment.

(* ... and a process that finds "2" does nothing and starts nothing, by either
   entry point, to any depth. *)
Theorem C16_marker2_inert : forall e fuel uv c mode ld period now tok,
  program_run e lit_2 uv c mode ld period now tok = mkR OReturned [] tok /\
  spawned_e fuel e lit_2 uv c mode ld period now tok = [].
Proof. exact marker2_inert. Qed.
Print Assumptions C16_marker2_inert.

(* The process tree of a program with either entry pattern (its sidecar is the
   same program; the delegated go command uses MaybeChild-then-Start). *)
Theorem C16_process_tree_shape_any_entry : forall fuel e marker uv c mode ld period now tok p,
  In p (spawned_e fuel e marker uv c mode ld period now tok) ->
    (p_kind p = KSidecar /\ p_marker p = lit_1 /\ marker = [] /\ mode <> lit_off /\
     launches c period now tok = true /\
     (p_upload p = true -> uv = true \/
        (c_upload c = true /\ token_state_allows period now tok = true)))
    \/ (p_kind p = KDelegated /\ p_marker p = lit_2 /\ mode = lit_on).
Proof. exact spawned_e_shape. Qed.
Print Assumptions C16_process_tree_shape_any_entry.

Theorem C16_sidecars_bounded_any_entry : forall fuel e marker uv c mode ld period now tok,
  (count is_sidecar (spawned_e fuel e marker uv c mode ld period now tok)
   <= if beq marker [] then 1 else 0)%nat.
Proof. exact sidecars_bounded_e. Qed.
Print Assumptions C16_sidecars_bounded_any_entry.

(* --------------------------------------------------- mode off *)

(* Mode off: nothing is started by anybody, to any depth ... *)
Theorem C16_off_inert_no_launch : forall fuel marker uv c ld period now tok,
  spawned fuel marker uv c lit_off ld period now tok = [].
Proof. exact off_inert_no_launch. Qed.
Print Assumptions C16_off_inert_no_launch.

(* ... the application's Start reads the mode file and does nothing else: no
   counter file, no token access ... *)
Theorem C16_off_inert_no_write : forall uv c ld period now tok,
  start_run [] uv c lit_off ld period now tok = mkR OReturned [EReadMode] tok.
Proof. exact off_inert_no_write. Qed.
Print Assumptions C16_off_inert_no_write.

(* ... and for every marker other than "1" no effect writes or execs.  (A
   process that already is a sidecar is governed by the mode tests of
   counter.Open and the uploader, which are not part of start.go.) *)
Theorem C16_off_inert_effects : forall marker uv c ld period now tok, marker <> lit_1 ->
  forall e, In e (r_effects (start_run marker uv c lit_off ld period now tok)) ->
    is_write e = false /\ is_exec e = false.
Proof. exact off_inert_effects. Qed.
Print Assumptions C16_off_inert_effects.

(* --------------------------------------------------- no directory *)

(* telemetry.Default: Config.TelemetryDir if given, else the directory below
   os.UserConfigDir(), else the zero Dir (Model/Start: program_run_env,
   spawned_env with the two booleans).  Without either, the mode is off
   whatever files exist in the working directory or elsewhere: nothing is
   started, by any marker, entry point, flags, to any depth ... *)
Theorem C16_no_directory_no_launch : forall fuel e marker uv c mode ld period now tok,
  spawned_env fuel e false false marker uv c mode ld period now tok = [].
Proof. exact no_directory_no_launch. Qed.
Print Assumptions C16_no_directory_no_launch.

(* ... the application's Start only asks for the mode ... *)
Theorem C16_no_directory_app : forall e uv c mode ld period now tok,
  program_run_env e false false [] uv c mode ld period now tok = mkR OReturned [EReadMode] tok.
Proof. exact no_directory_app. Qed.
Print Assumptions C16_no_directory_app.

(* ... and no process other than one that already is a sidecar writes or execs. *)
Theorem C16_no_directory_effects : forall e marker uv c mode ld period now tok, marker <> lit_1 ->
  forall x, In x (r_effects (program_run_env e false false marker uv c mode ld period now tok)) ->
    is_write x = false /\ is_exec x = false.
Proof. exact no_directory_effects. Qed.
Print Assumptions C16_no_directory_effects.

(* With a directory from either source the mode read from it decides. *)
Theorem C16_known_directory_run : forall e a b marker uv c mode ld period now tok, dir_known a b = true ->
  program_run_env e a b marker uv c mode ld period now tok = start_run marker uv c mode ld period now tok /\
  spawned_env 4 e a b marker uv c mode ld period now tok = spawned 4 marker uv c mode ld period now tok.
Proof. exact known_directory_run. Qed.
Print Assumptions C16_known_directory_run.

Theorem C16_oracle_accepts_model_env : forall fuel e a b marker uv c mode ld period now tok,
  let m := effective_mode (dir_known a b) mode in
  let r := program_run_env e a b marker uv c mode ld period now tok in
  start_ok marker uv c m period now tok (token_created r) (fs_changed r)
           (spawned_env fuel e a b marker uv c mode ld period now tok) = true.
Proof. exact oracle_accepts_model_env. Qed.
Print Assumptions C16_oracle_accepts_model_env.

(* --------------------------------------------------- the mode file *)

(* Start takes the mode from the mode FILE (Model/Start: mode_of_bytes =
   TrimSpace of the whole content, then the part before the first space;
   program_run_file, spawned_file).  A file that reads as "off" - however it was
   written - makes Start inert: nothing started by any marker, entry point,
   flags, to any depth; the application only reads the mode; nobody but an
   already running sidecar writes. *)
Theorem C16_off_file_inert : forall fuel e a b marker uv c d ld period now tok, mode_of_bytes d = lit_off ->
  spawned_file fuel e a b marker uv c (Some d) ld period now tok = [] /\
  program_run_file e a b [] uv c (Some d) ld period now tok = mkR OReturned [EReadMode] tok /\
  (marker <> lit_1 ->
   forall x, In x (r_effects (program_run_file e a b marker uv c (Some d) ld period now tok)) ->
     is_write x = false /\ is_exec x = false).
Proof. exact off_file_inert. Qed.
Print Assumptions C16_off_file_inert.

(* The hand-written spellings: off, off+LF, off+CRLF, blanks around, with a
   date, with a date and a line end, with garbage after a space, NBSP ... *)
Theorem C16_off_spelling_is_off : forall d, In d off_spellings -> mode_of_bytes d = lit_off.
Proof. exact off_spelling_is_off. Qed.
Print Assumptions C16_off_spelling_is_off.

Theorem C16_oracle_accepts_model_file : forall fuel e a b marker uv c file ld period now tok,
  let m := effective_mode (dir_known a b) (mode_of_file file) in
  let r := program_run_file e a b marker uv c file ld period now tok in
  start_ok marker uv c m period now tok (token_created r) (fs_changed r)
           (spawned_file fuel e a b marker uv c file ld period now tok) = true.
Proof. exact oracle_accepts_model_file. Qed.
Print Assumptions C16_oracle_accepts_model_file.

(* --------------------------------------------------- upload token *)

(* Any number n of starters, any schedule (any interleaving of their Stat /
   Remove / Create steps with time passing): if all of it happens within less
   than the period (the translated 24h constant) and the token, if present at
   the start, is still younger than the period at the end, at most one starter
   acquires the token. *)
Theorem C16_token_at_most_once : forall n now tok sched,
  ticks sched < c_tokenPeriod_ns ->
  (forall m, tok = Some m -> now + ticks sched - m < c_tokenPeriod_ns) ->
  (winners (trun c_tokenPeriod_ns sched (tinit n now tok)) <= 1)%nat.
Proof. exact (token_at_most_once c_tokenPeriod_ns). Qed.
Print Assumptions C16_token_at_most_once.

(* With such a young token present, nobody acquires it. *)
Theorem C16_token_fresh_no_winner : forall n now m sched,
  ticks sched < c_tokenPeriod_ns -> now + ticks sched - m < c_tokenPeriod_ns ->
  winners (trun c_tokenPeriod_ns sched (tinit n now (Some m))) = 0%nat.
Proof. exact (token_fresh_no_winner c_tokenPeriod_ns). Qed.
Print Assumptions C16_token_fresh_no_winner.

(* The hypothesis is needed: with a stale token two starters can both win,
   without any time passing (Stat, Stat, Remove, Create, Remove, Create).  This
   is the race the comment in acquireUploadToken describes and accepts; the
   property excludes it ("with no stale token present"), so it is not a
   finding. *)
Theorem C16_token_stale_refuted :
  ticks stale_race_schedule = 0 /\
  winners (trun c_tokenPeriod_ns stale_race_schedule (tinit 2 c_tokenPeriod_ns (Some 0))) = 2%nat.
Proof. exact (token_stale_refuted c_tokenPeriod_ns eq_refl). Qed.
Print Assumptions C16_token_stale_refuted.

(* --------------------------------------------------- UploadStartTime, histories of starts *)

(* Config.UploadStartTime (the uploader's simulated clock) has no part in the
   launch decision: the token's age is measured on the real clock. *)
Theorem C16_upload_start_time_irrelevant : forall fuel e a b marker uv c s1 s2 file ld period now tok,
  program_run_cfg e a b marker uv c s1 file ld period now tok
  = program_run_cfg e a b marker uv c s2 file ld period now tok /\
  spawned_cfg fuel e a b marker uv c s1 file ld period now tok
  = spawned_cfg fuel e a b marker uv c s2 file ld period now tok.
Proof. exact upload_start_time_irrelevant. Qed.
Print Assumptions C16_upload_start_time_irrelevant.

(* Every history of starts one after the other, at any real times and with any
   UploadStartTime values: two acquisitions of the token are at least 24 h of
   real time apart (and the first at least 24 h after a token found at the
   beginning) ... *)
Theorem C16_history_is_spaced : forall starts tok,
  history_spaced c_tokenPeriod_ns tok
    (combine (map fst starts) (fst (history_run c_tokenPeriod_ns starts tok))) = true.
Proof. exact (history_is_spaced c_tokenPeriod_ns). Qed.
Print Assumptions C16_history_is_spaced.

(* ... a refused start does not touch the token (the 24 h run from the last
   ACQUISITION, not from the last attempt), an acquisition stamps it with the
   real time ... *)
Theorem C16_refused_start_keeps_token : forall period t tok,
  (token_state_allows period t tok = false -> snd (acquire_seq period t tok) = tok) /\
  (token_state_allows period t tok = true -> snd (acquire_seq period t tok) = Some t).
Proof. exact refused_start_keeps_token. Qed.
Print Assumptions C16_refused_start_keeps_token.

(* ... so a start 24 h or more after the last acquisition acquires, however
   many refused starts came in between. *)
Theorem C16_history_acquires_after_period : forall t s rest m, c_tokenPeriod_ns <= t - m ->
  fst (history_run c_tokenPeriod_ns ((t, s) :: rest) (Some m))
  = true :: fst (history_run c_tokenPeriod_ns rest (Some t)).
Proof. exact (history_acquires_after_period c_tokenPeriod_ns). Qed.
Print Assumptions C16_history_acquires_after_period.

Theorem C16_history_refused_then_same : forall t s rest m, t - m < c_tokenPeriod_ns ->
  history_run c_tokenPeriod_ns ((t, s) :: rest) (Some m) =
  (false :: fst (history_run c_tokenPeriod_ns rest (Some m)), snd (history_run c_tokenPeriod_ns rest (Some m))).
Proof. exact (history_refused_then_same c_tokenPeriod_ns). Qed.
Print Assumptions C16_history_refused_then_same.

Theorem C16_oracle_accepts_model_cfg : forall fuel e a b marker uv c s file ld period now tok,
  let m := effective_mode (dir_known a b) (mode_of_file file) in
  let r := program_run_cfg e a b marker uv c s file ld period now tok in
  start_ok marker uv c m period now tok (token_created r) (fs_changed r)
           (spawned_cfg fuel e a b marker uv c s file ld period now tok) = true.
Proof. exact oracle_accepts_model_cfg. Qed.
Print Assumptions C16_oracle_accepts_model_cfg.

(* --------------------------------------------------- the oracle *)

(* The executable oracle the correspondence suite evaluates on the observed
   process records accepts the model's own behaviour. *)
Theorem C16_oracle_accepts_model : forall fuel marker uv c mode ld period now tok,
  let r := start_run marker uv c mode ld period now tok in
  start_ok marker uv c mode period now tok (token_created r) (fs_changed r)
           (spawned fuel marker uv c mode ld period now tok) = true.
Proof. exact oracle_accepts_model. Qed.
Print Assumptions C16_oracle_accepts_model.

Theorem C16_oracle_accepts_model_any_entry : forall fuel e marker uv c mode ld period now tok,
  let r := program_run e marker uv c mode ld period now tok in
  start_ok marker uv c mode period now tok (token_created r) (fs_changed r)
           (spawned_e fuel e marker uv c mode ld period now tok) = true.
Proof. exact oracle_accepts_model_e. Qed.
Print Assumptions C16_oracle_accepts_model_any_entry.

(* --------------------------------------------------- non-vacuity *)
From Coq Require Import String. Open Scope string_scope. Open Scope list_scope.

Example C16_example_constants :
  c_telemetryChildVar = s2b "GO_TELEMETRY_CHILD" /\
  c_telemetryUploadVar = s2b "GO_TELEMETRY_CHILD_UPLOAD" /\
  c_tokenPeriod_ns = (24 * 3600 * 1000000000)%Z.
Proof. repeat split; vm_compute; reflexivity. Qed.

(* upload requested, mode on, token 25h old at time 100h: the sidecar is
   launched with the upload variable, and its uploader's go command finds "2" *)
Example C16_example_launch :
  let h := 3600000000000%Z in
  spawned 4 [] false (mkCfg false true) (s2b "on") true c_tokenPeriod_ns (100 * h) (Some (75 * h))
  = [mkProc KSidecar (s2b "1") true; mkProc KDelegated (s2b "2") true] /\
  spawned 4 [] false (mkCfg false true) (s2b "on") true c_tokenPeriod_ns (100 * h) (Some (99 * h)) = [] /\
  spawned 4 [] false (mkCfg true true) (s2b "garbage") true c_tokenPeriod_ns (100 * h) (Some (99 * h))
  = [mkProc KSidecar (s2b "1") false] /\
  r_outcome (start_run (s2b "x") false (mkCfg true true) (s2b "on") true c_tokenPeriod_ns 0 None) = OFatal.
Proof. repeat split; vm_compute; reflexivity. Qed.

(* three starters, token absent, an interleaved schedule with time passing:
   exactly one wins *)
Example C16_example_race :
  let sched := [Step 0; Step 1; Tick 5; Step 2; Step 1; Step 0; Tick 7; Step 2]%nat in
  ticks sched = 12%Z /\
  winners (trun c_tokenPeriod_ns sched (tinit 3 1000 None)) = 1%nat /\
  t_token (trun c_tokenPeriod_ns sched (tinit 3 1000 None)) = Some 1005%Z.
Proof. repeat split; vm_compute; reflexivity. Qed.

(* a MaybeChild-then-Start program whose sidecar uploads in mode on: the go
   command finds "2" *)
Example C16_example_maybechild :
  let h := 3600000000000%Z in
  spawned_e 4 EntryMaybeChild [] false (mkCfg false true) (s2b "on") true c_tokenPeriod_ns (100 * h) None
  = [mkProc KSidecar (s2b "1") true; mkProc KDelegated (s2b "2") true] /\
  spawned_e 4 EntryMaybeChild (s2b "1") true (mkCfg false true) (s2b "on") true c_tokenPeriod_ns (100 * h) None
  = [mkProc KDelegated (s2b "2") true].
Proof. split; vm_compute; reflexivity. Qed.

Example C16_example_mode_files :
  mode_of_bytes (s2b "off" ++ [10%N]) = s2b "off" /\ mode_of_bytes (s2b "off 2024-01-05" ++ [13%N; 10%N]) = s2b "off" /\
  mode_of_bytes (s2b "on" ++ [10%N]) = s2b "on" /\ mode_of_bytes (s2b "offf") = s2b "offf" /\
  mode_of_bytes (s2b "off" ++ [10%N] ++ s2b "2024-01-05") <> s2b "off" /\ mode_of_file None = s2b "local" /\
  List.length off_spellings = 13%nat.
Proof. repeat split; try (vm_compute; reflexivity). vm_compute. discriminate. Qed.

(* starts at 0h, 13h, 26h, 27h (hours as ns), the second with UploadStartTime a
   year ahead: acquired, refused, acquired, refused *)
Example C16_example_history :
  let h := 3600000000000%Z in
  history_run c_tokenPeriod_ns [(0, None); (13 * h, Some (9000 * h)); (26 * h, None); (27 * h, None)] None
  = ([true; false; true; false], Some (26 * h)).
Proof. vm_compute. reflexivity. Qed.
