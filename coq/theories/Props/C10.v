(* C10  Written counter files conform to the documented v1 on-disk format.
   This file holds only statements; every proof is `exact <lemma>`.

   Model: Model/Layout.v (part 1 mirrors internal/counter/file.go: round, hash,
   mappedHeader, place, entryAt, lookup, newCounter, extend, openMapped for one
   writer; part 2 is the documented layout as a reader/checker wf_file /
   spec_read and an independent writer spec_encode).  *)
From Coq Require Import String.
From Coq Require Import List ZArith NArith Bool Permutation.
From Tele Require Import Lib.Bytes Lib.BytesN Gen.Consts Gen.GoFns Model.DecodeStack Model.Layout Model.LayoutMulti Model.LayoutRef
  Model.Parse Proofs.LayoutArith Proofs.LayoutRead Proofs.LayoutWrite Proofs.WriterFacts
  Proofs.WriterInv Proofs.ParseFacts Proofs.EncodeFacts Proofs.FormatExtras Proofs.GoFnsLayout Proofs.MultiFacts.
From Tele Require Model.FileConc Proofs.FileConcInv Proofs.FileConcThms.
Import ListNotations.
Open Scope N_scope.

(* ---- the model functions ARE the Go functions: round, hash and
   mappedFile.place of internal/counter/file.go, as translated from the current
   source into Gen/GoFns.v (explicit uint32 / int64 wrap) on every run, equal
   the model's for all inputs in the range of their Go types *)
Theorem C10_round_is_the_go_code :
  (forall x unit, x < 4294967296 -> 1 <= unit <= 4294967296 ->
     Z.of_N (round_u32 x unit) = go_round_uint32 (Z.of_N x) (Z.of_N unit)) /\
  (forall x unit, 1 <= unit -> (Z.of_N x + Z.of_N unit < 9223372036854775808)%Z ->
     Z.of_N (round_int x unit) = go_round_int (Z.of_N x) (Z.of_N unit)).
Proof. exact (conj round_u32_is_go round_int_is_go). Qed.
Print Assumptions C10_round_is_the_go_code.

Theorem C10_hash_is_the_go_code : forall name, Forall (fun c => c < 256) name ->
  Z.of_N (hash name) = go_hash (map Z.of_N name).
Proof. exact hash_is_go. Qed.
Print Assumptions C10_hash_is_the_go_code.

Theorem C10_place_is_the_go_code : forall hdr limit (name : bytes),
  hdr < 4294967296 -> limit < 4294967296 -> (Z.of_nat (length name) < 4611686018427387904)%Z ->
  go_mappedFile_place (Z.of_N hdr) (Z.of_N limit) (map Z.of_N name)
  = (Z.of_N (fst (place hdr limit (len name))), Z.of_N (snd (place hdr limit (len name)))).
Proof. exact place_is_go. Qed.
Print Assumptions C10_place_is_the_go_code.

(* ---- record placement: every allocation limit and every name length 1..4096
   for which uint32 arithmetic does not wrap (limit + 32 KiB <= 4 GiB; the
   format's 32-bit offsets cap a file at 4 GiB): the record starts at the first
   32-byte boundary at or after the limit (after the hash table for the first
   record) unless it would then reach into the last 32-byte unit of its 16 KiB
   page, in which case it starts on the next page; it has the rounded size
   16+namelen; it never touches the last unit of a page. *)
Theorem C10_place_ok : forall hdr limit nl,
  1 <= nl <= 4096 -> limit < 4294967296 -> place_lim hdr limit + 32768 <= 4294967296 ->
  let '(s, e) := place hdr limit nl in
  let lim := place_lim hdr limit in
  let r32 := (lim + 31) / 32 * 32 in
  let n := rec_size nl in
  s mod 32 = 0 /\ lim <= s /\ s < lim + 16384 /\
  e = s + n /\
  s mod 16384 + n <= 16384 - 32 /\
  (s = r32 \/ (s = (r32 / 16384 + 1) * 16384 /\ 16384 - 32 < r32 mod 16384 + n)).
Proof. exact place_ok. Qed.
Print Assumptions C10_place_ok.

(* with no assumption at all (any uint32 limit, wraps included) the start is
   a multiple of 32 and the end is start + size in uint32 *)
Theorem C10_place_aligned_any_limit : forall hdr limit nl,
  fst (place hdr limit nl) mod 32 = 0 /\
  snd (place hdr limit nl) = u32 (fst (place hdr limit nl) + round_u32 (u32 (16 + nl)) c_recordUnit).
Proof. exact place_aligned_all. Qed.
Print Assumptions C10_place_aligned_any_limit.

(* the executable oracle the runner applies to the real place is implied *)
Theorem C10_place_oracle : forall hdr limit nl,
  1 <= nl <= 4096 -> limit < 4294967296 -> place_lim hdr limit + 32768 <= 4294967296 ->
  place_ok_b hdr limit nl (place hdr limit nl) = true.
Proof. exact place_ok_b_model. Qed.
Print Assumptions C10_place_oracle.

(* ---- the hash fixed by the format: FNV-1a 32 with the published offset basis
   and prime (constants translated from the source), xor-folded by 16 bits,
   modulo the 512 buckets *)
Theorem C10_hash_is_fnv1a : forall name,
  c_fnv_offset32 = 2166136261 /\ c_fnv_prime32 = 16777619 /\ c_numHash = 512 /\
  hash name = hash_ref name.
Proof. exact hash_is_fnv1a. Qed.
Print Assumptions C10_hash_is_fnv1a.

(* ---- the constants of the source are the numbers of the v1 format (the
   layout checker below uses the numbers, not the constants) *)
Theorem C10_constants :
  c_recordUnit = 32 /\ c_pageSize = 16384 /\ c_minFileLen = 16384 /\ c_numHash = 512 /\
  c_maxNameLen = 4096 /\ c_maxMetaLen = 512 /\ c_limitOff = 0 /\ c_hashOff = 4 /\
  c_hdrPrefix = [35; 32; 116; 101; 108; 101; 109; 101; 116; 114; 121; 47; 99; 111; 117; 110; 116; 101; 114;
                 32; 102; 105; 108; 101; 32; 118; 49; 10].
Proof. exact v1_constants. Qed.
Print Assumptions C10_constants.

(* ---- header: length-prefixed, 32-aligned, and a file that starts with it
   reads back (length, metadata) *)
Theorem C10_header_shape : forall meta h, mapped_header meta = Some h ->
  len h = (len meta + 63) / 32 * 32 /\ len meta <= 512 /\ 32 <= len h <= 544 /\ len h mod 32 = 0 /\
  32 + len meta <= len h.
Proof. exact mapped_header_len. Qed.
Print Assumptions C10_header_shape.

Theorem C10_header_reads_back : forall bs meta h,
  mapped_header meta = Some h -> has_prefix bs h = true -> ~ In 0 meta -> len h + 2052 <= len bs ->
  spec_header bs = Some (len h, meta).
Proof. exact spec_header_of_prefix. Qed.
Print Assumptions C10_header_reads_back.

(* ---- what the checker wf_file means (the v1 layout, clause by clause).
   The allocation limit is "the byte offset of the end of counter records": every
   record's own bytes end at or before it; the format does not ask for a multiple
   of 32 there (that is a fact about the WRITER, C10_writer_limit_rounded) *)
Theorem C10_wf_file_meaning : forall bs, wf_file bs = true ->
  exists hdr meta kv limit rs,
    spec_header bs = Some (hdr, meta) /\ meta_kv meta = Some kv /\ spec_records bs = Some rs /\
    has_prefix bs c_hdrPrefix = true /\ get32 bs 28 = hdr /\ hdr mod 32 = 0 /\ (32 <= hdr /\ hdr <= 16384) /\
    meta = cut_nul (slice bs 32 (hdr - 32)) /\
    len bs mod 16384 = 0 /\ 16384 <= len bs /\
    limit = get32 bs hdr /\ limit <= len bs /\ (limit = 0 \/ hdr + 2052 <= limit) /\
    (forall r, In r rs ->
       r_off r mod 32 = 0 /\ hdr + 4 + 4 * 512 <= r_off r /\ r_off r + 16 + len (r_name r) <= limit /\
       1 <= len (r_name r) <= 4096 /\
       r_off r mod 16384 + rec_size (len (r_name r)) <= 16384 - 32 /\
       r_name r = slice bs (r_off r + 16) (len (r_name r)) /\ r_val r = get64 bs (r_off r) /\
       exists c, In r c /\
         spec_chain (chain_fuel limit) bs hdr limit (get32 bs (hdr + 4 + 4 * hash (r_name r))) = Some c) /\
    (forall r r', In r rs -> In r' rs -> r <> r' ->
       (r_end r <= r_off r' \/ r_end r' <= r_off r) /\ r_name r <> r_name r').
Proof. exact wf_file_meaning. Qed.
Print Assumptions C10_wf_file_meaning.

(* ---- writer_wf: after every operation of every sequence of newCounter /
   Add / extend / close-and-reopen by one writer on a file it created, the file
   follows the layout.  Names of any content: those of 1..4096 bytes get a
   record, the empty name and longer ones are refused by the code and leave the
   file unchanged; every operation is applied to a file at least 64 KiB below
   the 4 GiB cap of the format (all_small). *)
Theorem C10_writer_wf : forall meta s0 ops, meta_ok meta -> create [] meta = Some s0 ->
  all_small s0 ops ->
  forall n, wf_file (w_bs (snd (run_ops s0 (firstn n ops)))) = true.
Proof. exact writer_wf. Qed.
Print Assumptions C10_writer_wf.

(* ... and, for the files the library writes (not for every v1 file): the limit is
   a multiple of 32 and every record's whole 32-byte-unit block lies below it *)
Theorem C10_writer_limit_rounded : forall meta s0 ops, meta_ok meta -> create [] meta = Some s0 ->
  all_small s0 ops ->
  forall n, let bs := w_bs (snd (run_ops s0 (firstn n ops))) in
    limit_of bs mod 32 = 0 /\
    forall rs r, spec_records bs = Some rs -> In r rs -> r_end r <= limit_of bs.
Proof. exact writer_limit_rounded. Qed.
Print Assumptions C10_writer_limit_rounded.

(* the invariant behind it, preserved by every single operation, together with:
   the allocation limit only grows, the file only grows *)
Theorem C10_limit_monotone : forall s o, Inv s -> small s ->
  limit_of (w_bs s) <= limit_of (w_bs (snd (step s o))) /\ len (w_bs s) <= len (w_bs (snd (step s o))).
Proof. exact limit_monotone. Qed.
Print Assumptions C10_limit_monotone.

Theorem C10_limit_le_size : forall s, Inv s -> limit_of (w_bs s) <= len (w_bs s).
Proof. exact limit_le_size. Qed.
Print Assumptions C10_limit_le_size.

Theorem C10_invariant_reachable : forall ops s, Inv s -> all_small s ops ->
  Inv (snd (run_ops s ops)).
Proof. exact run_ops_inv. Qed.
Print Assumptions C10_invariant_reachable.

(* ---- failing file growth.  step_f s o (Some k): the k-th file-system call of
   the operation (extend = Stat, [WriteAt], then openMapped = OpenFile, Stat,
   mmap's Stat) fails with an errno.  After EVERY operation of every sequence,
   failed ones included, the file is well-formed and its allocation limit is
   within the file (the limit is published only after a successful growth); a
   failed operation changes no record and does not lower the limit. *)
Theorem C10_writer_wf_with_failing_growth : forall meta s0 ops, meta_ok meta -> create [] meta = Some s0 ->
  all_small_f s0 ops ->
  forall n, let s := snd (run_fops s0 (firstn n ops)) in
            wf_file (w_bs s) = true /\ limit_of (w_bs s) <= len (w_bs s).
Proof. exact writer_wf_faults. Qed.
Print Assumptions C10_writer_wf_with_failing_growth.

Theorem C10_failed_op_changes_no_record : forall s o p rs, Inv s -> small s -> reads s rs ->
  fst (step_f s o p) = RFail -> reads (snd (step_f s o p)) rs /\
  limit_of (w_bs s) <= limit_of (w_bs (snd (step_f s o p))) /\
  limit_of (w_bs (snd (step_f s o p))) <= len (w_bs (snd (step_f s o p))).
Proof. exact failed_op_changes_no_record. Qed.
Print Assumptions C10_failed_op_changes_no_record.

(* ---- several writers starting on the same file that does not exist yet.
   Model/LayoutMulti.cstep: openMapped of every writer split at its file-system
   calls (OpenFile, Stat, WriteAt(header, 0), WriteAt(4 zero bytes, 16380), Stat,
   mmap's Stat followed by the writer's newCounter / Add operations).  For EVERY
   schedule (list of writer indices: all interleavings of any number of
   writers, writers that stop anywhere included) the shared file is absent,
   header-only, or well-formed; once it has its first page, limit <= size and an
   independent reader finds exactly the abstract map of the operations performed
   so far: the two creation writes are idempotent on a file that is in use. *)
Theorem C10_racing_creation : forall meta h, meta_ok meta -> mapped_header meta = Some h ->
  forall progs sched,
  Forall (Forall count_op) progs -> csmall meta h (cinit [] progs) sched ->
  let st := crun meta h (cinit [] progs) sched in
  let m := snd (crun_abs meta h (cinit [] progs) (fun _ => None) sched) in
  file_ok meta h (c_file st) /\
  (16384 <= len (c_file st) ->
     wf_file (c_file st) = true /\ limit_of (c_file st) <= len (c_file st) /\
     exists rs, spec_records (c_file st) = Some rs /\ NoDup (map r_name rs) /\
                forall k v, In (k, v) (pairs rs) <-> m k = Some v).
Proof. exact race_ok. Qed.
Print Assumptions C10_racing_creation.

(* ---- several writers, every interleaving of their atomic operations (cited
   from C04; Model/FileConc.v is the transition system of lookup, the remap
   loop, place, the limit CAS, extend, writeEntryAt and the link loop with its
   duplicate walk at one program point per atomic operation, which refines the
   file-system-call granularity of Model/LayoutRace.v that the race cases of
   vh_layout replay): at every reachable state of every schedule, from any
   well-formed file, for any number of processes, names and hash function,
   a name has at most one linked record, and no step of any process decreases
   the allocation limit, the file size or a value. *)
Theorem C10_several_writers_one_record_per_name : forall bucket nlen H st0 sched,
  FileConcInv.init_ok bucket nlen H st0 ->
  let f := fst (FileConc.run bucket nlen H sched st0) in
  forall b1 b2 o1 o2 nm, In o1 (FileConc.f_chain f b1) -> In o2 (FileConc.f_chain f b2) ->
    FileConcInv.name_at f o1 = Some nm -> FileConcInv.name_at f o2 = Some nm -> b1 = b2 /\ o1 = o2.
Proof. exact FileConcThms.one_record_per_name. Qed.
Print Assumptions C10_several_writers_one_record_per_name.

Theorem C10_several_writers_limit_monotone : forall bucket nlen H st0 sched i,
  FileConcInv.init_ok bucket nlen H st0 ->
  let st := FileConc.run bucket nlen H sched st0 in
  let st' := FileConc.step bucket nlen H st i in
  FileConc.f_size (fst st) <= FileConc.f_size (fst st') /\
  FileConc.f_limit (fst st) <= FileConc.f_limit (fst st') /\
  forall o r, FileConc.find_rec o (FileConc.f_recs (fst st)) = Some r ->
    exists r', FileConc.find_rec o (FileConc.f_recs (fst st')) = Some r' /\
               FileConc.r_name r' = FileConc.r_name r /\ FileConc.r_val r <= FileConc.r_val r'.
Proof. exact FileConcThms.monotone. Qed.
Print Assumptions C10_several_writers_limit_monotone.

(* one newCounter / Add grows the file by at most two 16 KiB pages *)
Theorem C10_growth_bounded : forall s o, Inv s -> small s -> count_op o ->
  len (w_bs (snd (step s o))) <= len (w_bs s) + 32768.
Proof. exact step_growth. Qed.
Print Assumptions C10_growth_bounded.

(* a well-formed file never makes a valid operation fail (no "corrupt", no
   endless extension): names of 1..4096 bytes get their record *)
Theorem C10_ops_succeed : forall s o, Inv s -> small s -> ok_result o (fst (step s o)).
Proof. exact ops_succeed. Qed.
Print Assumptions C10_ops_succeed.

(* ---- roundtrip, first half: an independent reader of the layout finds
   exactly what the operations wrote (names distinct; value = sum of the deltas
   mod 2^64, 0 for a counter only created) *)
Theorem C10_roundtrip_written : forall meta s0 ops, meta_ok meta -> create [] meta = Some s0 ->
  all_small s0 ops ->
  let '(s, m) := run_abs s0 (fun _ => None) ops in
  exists rs, spec_records (w_bs s) = Some rs /\ NoDup (map r_name rs) /\
             forall k v, In (k, v) (pairs rs) <-> m k = Some v.
Proof. exact roundtrip_written. Qed.
Print Assumptions C10_roundtrip_written.

(* ---- roundtrip, second half: files written by the independent encoder are
   well-formed, hold exactly the given counters, and the library's Parse reads
   them identically (names of 1..4096 arbitrary bytes, values < 2^64, metadata
   of "key: value" lines up to 512 bytes) *)
Theorem C10_encode_wf : forall meta cs, meta_ok meta -> cs_ok cs ->
  exists bs rs, spec_encode meta cs = Some bs /\ wf_file bs = true /\ spec_records bs = Some rs /\
                NoDup (map r_name rs) /\ Permutation (pairs rs) cs.
Proof. exact encode_wf. Qed.
Print Assumptions C10_encode_wf.

Theorem C10_encode_parse : forall oob meta cs, meta_ok meta -> cs_ok cs ->
  exists bs kv cs', spec_encode meta cs = Some bs /\ meta_kv meta = Some kv /\
    parse_with oob bs = POk kv (map (fun c => (decode_stack (fst c), snd c)) cs') /\ Permutation cs' cs.
Proof. exact encode_parse. Qed.
Print Assumptions C10_encode_parse.

(* ---- non-vacuity and boundaries *)
Example C10_meta_ok_example : meta_ok wit_meta.
Proof. exact wit_meta_ok. Qed.

Example C10_example_run :
  let f := file_after [OpAdd (s2b "gopls/client:vscode") 3; OpNew (s2b "b"); OpAdd (s2b "gopls/client:vscode") 4;
                       OpExtend 20000; OpReopen wit_meta] in
  wf_file f = true /\ len f = 32768 /\
  parse f = POk [(s2b "Program", s2b "p")] [(s2b "gopls/client:vscode", 7); (s2b "b", 0)].
Proof. exact example_run. Qed.

Example C10_fnv_vectors :
  fnv1a [] = 2166136261 /\ fnv1a (s2b "a") = 3826002220 /\ fnv1a (s2b "foobar") = 3214735720.
Proof. exact fnv_vectors. Qed.

(* names outside 1..4096 bytes are refused and change nothing *)
Example C10_refused_names :
  fst (run_ops fresh_state [OpNew []; OpAdd (repeat 120 4097) 1]) = [REmpty; RLong] /\
  file_after [OpNew []; OpAdd (repeat 120 4097) 1] = file_after [].
Proof. exact refused_names. Qed.

(* outside the no-wrap hypothesis of C10_place_ok *)
Example C10_place_wraps_near_4GiB : place 32 (4294967296 - 10) 1 = (0, 32).
Proof. exact place_wraps_near_4GiB. Qed.
