(* C05  Telemetry failures never crash, hang or block the host program:
   the counter-file half.  Statements only; every proof is `exact <lemma>`.

   (1) Files at rest.  Model/FileRest.v: ONE process on a counter file found
   in an ARBITRARY state: `bfile` = any length and any bytes (b_at : N -> N);
   byte-level load32 / entryAt / lookup / newCounter (place, extend,
   writeEntryAt, link, with the uint32 wrap-around of the Go arithmetic) /
   Counter.add.  Outcomes *Fault = a memory access outside the mapping (in Go:
   panic or memory fault), *Fuel = a loop that does not end (in Go: a hang).
   H is the header length (from the metadata, not from the file).
   (2) File-system faults.  Model/FileFault.v: rotate1 / weekEnd / openMapped /
   extend as functions of a fault plan (call index -> ok | error | short
   write), for every plan. *)
From Coq Require Import List ZArith NArith Bool.
From Tele Require Import Lib.Bytes Gen.Consts Model.FileRest Model.FileFault Model.CounterConc Model.Parse
  Proofs.FileRestFacts Proofs.FileRestWitness Proofs.FileFaultFacts Proofs.ParseFacts.
Import ListNotations.
Open Scope N_scope.

(* ---- (1) corrupt files at rest ---- *)

(* lookup_total: for EVERY file (at least as long as the hash table) and every
   name, lookup returns within len/32 + 3 iterations of its walk (that is the
   fuel `walk_fuel f` that `lookup` runs on) and makes no access outside the
   mapping.  The bound is the one of fix a9b3f3d. *)
Theorem C05_lookup_total : forall f H name, table_end H <= b_len f ->
  lookup f H name <> LFuel /\ lookup f H name <> LFault.
Proof. exact lookup_total. Qed.
Print Assumptions C05_lookup_total.

(* without that bound (the code before fix a9b3f3d) lookup is NOT total: on a
   file with a self-linked record it runs out of every fuel *)
Theorem C05_lookup_unbounded_refuted :
  table_end wH <= b_len cyc /\ (forall fuel, lookup_gen false fuel cyc wH ny = LFuel) /\
  lookup cyc wH ny = LBad.
Proof. exact lookup_unbounded_refuted. Qed.
Print Assumptions C05_lookup_unbounded_refuted.

(* newcounter_total: for EVERY file and every name newCounter returns (a cell
   or an error) after at most one extension and one walk, without a fault.
   (Before fix 633eed3 this failed for allocation limits just below 4 GiB:
   finding limit-wrap-hang.) *)
Theorem C05_newcounter_total : forall f H name, table_end H + 4 <= b_len f ->
  fst (new_counter f H name) <> NFuel /\ fst (new_counter f H name) <> NFault.
Proof. exact newcounter_total. Qed.
Print Assumptions C05_newcounter_total.

(* the file of the former finding: the limit 0xFFFFFF00 makes place return a
   record whose page end wraps to 0; the call now fails with errCorrupt and
   leaves the file as it is *)
Theorem C05_newcounter_wrap_fixed :
  place32 wH 4294967040 (N.of_nat (length nx)) = (4294967040, 4294967072) /\ round32 4294967072 RPAGE = 0 /\
  new_counter wrapf wH nx = (NErr RCorrupt, wrapf).
Proof. exact newcounter_wrap_fixed. Qed.
Print Assumptions C05_newcounter_wrap_fixed.

(* Parse (the reader, Model/Parse.v of C06) is total on every byte string *)
Theorem C05_parse_total : forall oob bs, parse_with oob bs <> PDiverge.
Proof. exact parse_total. Qed.
Print Assumptions C05_parse_total.

(* failure isolation, frame rule: whatever the file, a call newCounter(name),
   successful or not, changes no byte of the file as found except: the limit
   word, the head word of name's own bucket, bytes 8.. of the record it
   reserved, which lies after the hash table (fix 69df376) and at or after the
   limit found in the file (fix 633eed3: no wrap-around), and, when a file
   whose length is not a multiple of 4 is extended, its last <= 3 bytes *)
Theorem C05_newcounter_frame : forall f H name r f', table_end H + 4 <= b_len f ->
  new_counter f H name = (r, f') ->
  b_len f <= b_len f' /\
  forall o, o < b_len f -> b_at f' o <> b_at f o ->
    in_range (H + c_limitOff) 4 o \/ in_range (head_off H name) 4 o \/
    (let s := fst (place32 H (rd32 f (H + c_limitOff)) (N.of_nat (length name))) in
     table_end H <= s /\ rd32 f (H + c_limitOff) <= s /\ in_range (s + 8) (8 + N.of_nat (length name)) o) \/
    (exists e', b_len f < e' /\ e' <= o + 4).
Proof. exact new_counter_frame. Qed.
Print Assumptions C05_newcounter_frame.

Theorem C05_add_frame : forall f cell k f', add_cell f cell k = Some f' ->
  b_len f' = b_len f /\ forall o, b_at f' o <> b_at f o -> in_range cell 8 o.
Proof. exact add_cell_frame. Qed.
Print Assumptions C05_add_frame.

(* hence: the value cell of any record that lies after the hash table and
   below the allocation limit found in the file keeps its value through a
   newCounter call on any name, successful or failed *)
Theorem C05_other_cell_preserved : forall f H name r f' c,
  table_end H + 4 <= b_len f -> new_counter f H name = (r, f') ->
  table_end H <= c -> c + 12 <= b_len f -> c + 8 <= rd32 f (H + c_limitOff) ->
  rd64 f' c = rd64 f c.
Proof. exact other_cell_preserved. Qed.
Print Assumptions C05_other_cell_preserved.

(* what the bound of fix 69df376 is needed for: without it a small damaged
   limit makes newCounter write a record over the bucket heads *)
Theorem C05_table_unprotected_refuted :
  fst (new_counter lowf wH nx) = NErr RCorrupt /\
  (forall o, o < 16384 -> ~ in_range (wH + c_limitOff) 4 o ->
     b_at (snd (new_counter lowf wH nx)) o = b_at lowf o) /\
  fst (new_counter_gen true false (walk_fuel lowf) 3 lowf wH nx) = NCell 64 /\
  rd32 lowf 72 = 0 /\ rd32 (snd (new_counter_gen true false (walk_fuel lowf) 3 lowf wH nx)) 72 = 4278190081 /\
  72 <> head_off wH nx /\ wH + c_hashOff <= 72 /\ 72 + 4 <= table_end wH.
Proof. exact table_unprotected_refuted. Qed.
Print Assumptions C05_table_unprotected_refuted.

(* isolation is REFUTED for records ABOVE the limit found in the file (known
   finding limit-below-records): a limit that points into the record area
   makes the next newCounter reuse the space of an existing record *)
Theorem C05_isolation_limit_refuted :
  lookup stale wH na = LFound 2112 /\ rd64 stale 2112 = 5 /\
  let '(r, f1) := new_counter stale wH nb in
  r = NCell 2112 /\ lookup f1 wH na = LNotFound 2112 /\
  match add_cell f1 2112 1 with Some f2 => rd64 f2 2112 = 6 | None => False end.
Proof. exact isolation_limit_refuted. Qed.
Print Assumptions C05_isolation_limit_refuted.

(* ---- (2) file-system faults ---- *)

(* for EVERY fault plan, weekday draw, content of the mode file (absent, empty,
   blank, garbage, off, ...) and initial directory state, opening
   makes at most 12 file-system calls and ends mapped or parked (the model's
   Panic = the index buf[0] on an empty weekends file, is unreachable) *)
Theorem C05_open_total : forall p day sd mode fs,
  let '(o, n, _) := rotate1 p day sd mode fs in (n <= 12)%nat /\ (o = Mapped \/ o = Parked).
Proof. exact rotate1_total. Qed.
Print Assumptions C05_open_total.

Theorem C05_extend_total : forall p i, (i + 1 <= snd (extend p i) <= i + 6)%nat.
Proof. exact extend_total. Qed.
Print Assumptions C05_extend_total.

Theorem C05_scenario_total : forall p day sd mode fs,
  let '(o, i, ok, n) := scenario p day sd mode fs in
  (i <= 12 /\ n <= 18 /\ i <= n)%nat /\ (o = Mapped \/ o = Parked) /\ (ok = true -> o = Mapped).
Proof. exact scenario_total. Qed.
Print Assumptions C05_scenario_total.

(* parked = no current mapping, hence no counter pointer: every step of every
   Add, in any interleaving (one-step fact of the C03 transition system
   Model/CounterConc.v), leaves all persisted cells and the parked state as
   they are; the amount goes to the in-memory word *)
Theorem C05_parked_add_in_memory : forall np s t,
  add_pc (t_pc t) = true -> t_kind t = Adder -> s_cur s = None -> s_ptr s = None ->
  let '(s', t') := step_thread np s t in
  s_cells s' = s_cells s /\ s_cur s' = None /\ s_ptr s' = None /\ s_closed s' = s_closed s /\
  add_pc (t_pc t') = true /\ t_kind t' = Adder.
Proof. exact parked_add_in_memory. Qed.
Print Assumptions C05_parked_add_in_memory.

(* non-vacuity *)
Example C05_model_runs : fst (new_counter stale wH na) = NCell 2112.
Proof. vm_compute. reflexivity. Qed.
Example C05_fault_model_runs :
  scenario (fun i => if Nat.eqb i 7 then KShort else KOk) 51 true None (mkFS None CAbsent) = (Parked, 8%nat, false, 8%nat).
Proof. vm_compute. reflexivity. Qed.

(* ---- (3) the uploader half: upload.Run under faults of every os / http /
        entropy call ----
   Model/UploaderFault.v: ONE solo uploader.Run (the thread program of
   Model/Uploader.v, C07/C08) in which every call - ReadDir, ReadFile, Stat,
   OpenFile(O_EXCL), File.Write, File.Close, WriteFile, Remove, MkdirAll,
   http.Post and the crypto/rand read of computeRandom - has an index in
   program order, and a FAULT PLAN maps the index to ok | error | short write
   | (for Post) 4xx | 5xx.  `picks` is the order in which Go's map iteration
   visits the weeks.  `x_panic` marks the one panic the code can raise:
   computeRandom panics when crypto/rand fails (the exported upload.Run
   recovers it and returns; the slice panic of uploadReportContents on a
   short report name is gone since fix 8d04c54). *)
From Coq Require Strings.String.
From Tele Require Lib.FS Model.Span Model.Uploader Model.UploaderFault Proofs.UploaderBase Proofs.UploaderNames
  Proofs.UploaderData Proofs.UploaderNoDup Proofs.UploaderFaultFacts Proofs.UploaderFaultInv Proofs.UploaderFaultIso
  Proofs.UploaderFaultKeep Proofs.UploaderFaultDrop.

Section UploaderHalf.
Import Coq.Strings.String.
Import Lib.FS Model.Span Model.Uploader Model.UploaderFault Proofs.UploaderBase Proofs.UploaderNames
  Proofs.UploaderData Proofs.UploaderNoDup Proofs.UploaderFaultFacts Proofs.UploaderFaultInv Proofs.UploaderFaultIso
  Proofs.UploaderFaultKeep Proofs.UploaderFaultDrop.
Local Open Scope nat_scope.

(* the explicit bound: n = number of entries of local/ *)
Theorem C05_call_bound : forall n, call_bound n = 21 * n + 6.
Proof. intros n. reflexivity. Qed.
Print Assumptions C05_call_bound.

(* run_total: for EVERY fault plan, iteration order, initial directory state
   and configuration, a solo Run (exported or inner) returns after at most
   21 n + 6 calls; a panic is raised only if the plan fails a call (the
   entropy read) *)
Theorem C05_run_total : forall p picks f c exported,
  let y := frun (call_bound (entries f)) p picks (finit f c exported) in
  fdone y = true /\ x_idx y <= call_bound (entries f) /\
  (x_panic y = true -> exists i, bad p i = true).
Proof. exact run_total. Qed.
Print Assumptions C05_run_total.

(* every state of a run, in particular its last, is a reachable state of the
   theorems below *)
Theorem C05_run_reach : forall fuel p picks x0 x, freach p x0 x -> freach p x0 (frun fuel p picks x).
Proof. exact frun_reach. Qed.
Print Assumptions C05_run_reach.

(* fault_isolation (1): under every plan a count file that is not expired
   (or cannot be parsed) keeps its inode and its content *)
Theorem C05_fault_active_untouched : forall p f0 c exported, fs_wf f0 ->
  forall x n v, freach p (finit f0 c exported) x -> is_count n = true -> d_find (f_local f0) n = Some v ->
  (forall cf, parse (snd v) = Some cf -> before_start (cf_end cf) (u_start c) = false) ->
  d_find (f_local (x_fs x)) n = Some v.
Proof. exact fault_active_untouched. Qed.
Print Assumptions C05_fault_active_untouched.

(* fault_isolation (2): under every plan a step removes a count file only if
   it is an expired file of the week W being deleted and a witness for W's
   report exists at that moment (local.W.json, W.json, the server's marker,
   or a ready report whose name contains W) *)
Theorem C05_fault_delete_only_after_report : forall p f0 c exported, fs_wf f0 ->
  forall x picks n, freach p (finit f0 c exported) x -> is_count n = true ->
  d_find (f_local (x_fs x)) n <> None -> d_find (f_local (x_fs (fst (fstep p picks x)))) n = None ->
  witness_now (t_week (x_t x)) (x_fs x) /\
  exists id ct cf, d_find (f_local f0) n = Some (id, ct) /\ parse ct = Some cf /\
                   uploader_week (cf_end cf) = t_week (x_t x) /\
                   before_start (cf_end cf) (u_start c) = true.
Proof. exact fault_delete_only_after_report. Qed.
Print Assumptions C05_fault_delete_only_after_report.

(* fault_keeps_or_drops (1), the counts: for a week W with no report before
   the run, under every plan and at every point of the run, each count file
   of W is still there with its inode and content, or its counts are in a
   COMPLETELY written local.W.json, in which every file occurs once and
   which contains only expired files of W.  (A short or failed write of
   local.W.json leaves the count files.) *)
Theorem C05_fault_keeps_or_drops : forall p f0 c exported W, fs_wf f0 ->
  d_mem (f_local f0) (local_name W) = false -> d_mem (f_local f0) (ready_name W) = false ->
  d_mem (up_dir f0) (marker_name W) = false ->
  (forall g, d_mem (f_local f0) g = true -> collect_ready c g = true -> contains g W = false) ->
  week_ok W ->
  (forall n id ct cf, d_find (f_local f0) n = Some (id, ct) -> parse ct = Some cf ->
     uploader_week (cf_end cf) <> W -> contains (ready_name (uploader_week (cf_end cf))) W = false) ->
  NoDup (dnames (f_local f0)) ->
  forall x n id ct cf, freach p (finit f0 c exported) x ->
  is_count n = true -> d_find (f_local f0) n = Some (id, ct) -> parse ct = Some cf ->
  uploader_week (cf_end cf) = W ->
  d_find (f_local (x_fs x)) n = Some (id, ct) \/
  exists idr r, d_find (f_local (x_fs x)) (local_name W) = Some (idr, CRep (Some r)) /\ r_week r = W /\
                In (n, cf) (r_files r) /\ NoDup (map fst (r_files r)) /\
                Forall (entry_ok (f_local f0) c W) (r_files r).
Proof. exact fault_keeps_or_drops. Qed.
Print Assumptions C05_fault_keeps_or_drops.

(* fault_keeps_or_drops (2), the report to upload: under every plan a file of
   local/ that is not a count file disappears only as the ready report the
   run has just handled, and only when the server's marker upload/W.json
   exists or the server answered this report with a 4xx *)
Theorem C05_fault_ready_removed_only : forall p f0 c exported, fs_wf f0 ->
  forall x picks n, freach p (finit f0 c exported) x -> is_count n = false ->
  d_find (f_local (x_fs x)) n <> None -> d_find (f_local (x_fs (fst (fstep p picks x)))) n = None ->
  n = t_file (x_t x) /\
  (((t_pc (x_t x) = URemAlready \/ t_pc (x_t x) = URemDone) /\
    d_mem (up_dir (x_fs x)) (marker_name (t_week (x_t x))) = true) \/
   (t_pc (x_t x) = URem4xx /\
    In (mkAck (t_week (x_t x)) (t_buf (x_t x)) O4xx (t_id (x_t x))) (x_log x))).
Proof. exact fault_ready_removed_only. Qed.
Print Assumptions C05_fault_ready_removed_only.

(* non-vacuity: two expired count files of one week, mode on *)
Definition uf_W : bytes := s2b "2024-01-07"%string.
Definition uf_cfg : ucfg := mkCfg (1705000000%Z, 0%Z) true None (s2b "/t/local/"%string) 0%Z.
Definition uf_cf1 : cfile := mkCF 1704153600%Z 1704585600%Z 0%N [(0%N, 1%Z)].
Definition uf_cf2 : cfile := mkCF 1704240000%Z 1704585600%Z 1%N [(0%N, 2%Z)].
Definition uf_a : bytes := s2b "a.v1.count"%string.
Definition uf_b : bytes := s2b "b.v1.count"%string.
Definition uf_fs : FS :=
  mkFS [(uf_a, (0, CCount (Some uf_cf1) 1%N)); (uf_b, (1, CCount (Some uf_cf2) 2%N))] (Some []) 2.
Definition uf_at (k : nat) (v : fk) : fplan := fun i => if Nat.eqb i k then v else FOk.
Definition uf_show (x : fstate) :=
  (fdone x, x_idx x, x_panic x, map fst (f_local (x_fs x)), map fst (up_dir (x_fs x)), List.length (x_log x)).

(* no fault: 24 calls (bound 48), the counts end in local.W.json, the report is delivered once *)
Example C05_ex_upload_no_fault :
  uf_show (frun 48 (fun _ => FOk) [PW uf_W] (finit uf_fs uf_cfg true)) =
  (true, 24, false, [local_name uf_W], [marker_name uf_W], 1).
Proof. vm_compute. reflexivity. Qed.

(* a short write of local.W.json (call 12 of the exported Run): the run
   returns after 14 calls, both count files are still there, nothing is posted *)
Example C05_ex_upload_short_write :
  let y := frun 48 (uf_at 12 FShort) [PW uf_W] (finit uf_fs uf_cfg true) in
  uf_show y = (true, 14, false, [local_name uf_W; ready_name uf_W; uf_a; uf_b], [], 0) /\
  d_find (f_local (x_fs y)) (local_name uf_W) = Some (3, CRaw partial_id).
Proof. vm_compute. split; reflexivity. Qed.

(* the entropy read fails (call 4 of the inner Run): the panic state, after 5
   calls, nothing touched *)
Example C05_ex_upload_rand_panic :
  uf_show (frun 48 (uf_at 4 FErr) [PW uf_W] (finit uf_fs uf_cfg false)) = (true, 5, true, [uf_a; uf_b], [], 0).
Proof. vm_compute. reflexivity. Qed.

(* ACROSS runs counts can be lost after a fault (not a violation of the
   theorems above, which are about one run and a week without report): *)
(* a transient ReadFile error on a.v1.count (call 2): the week's report is
   written from b alone, a stays; the NEXT run, fault-free, finds the report
   and deletes a - its counts are in no report *)
Example C05_ex_upload_rerun_drops_unread_file :
  let y1 := frun 48 (uf_at 2 FErr) [PW uf_W] (finit uf_fs uf_cfg true) in
  let y2 := frun 48 (fun _ => FOk) [PW uf_W] (finit (x_fs y1) uf_cfg true) in
  map fst (f_local (x_fs y1)) = [local_name uf_W; uf_a] /\
  option_map (fun v => match snd v with CRep (Some r) => map fst (r_files r) | _ => [] end)
    (d_find (f_local (x_fs y1)) (local_name uf_W)) = Some [uf_b] /\
  fdone y2 = true /\ map fst (f_local (x_fs y2)) = [local_name uf_W] /\
  d_find (f_local (x_fs y2)) (local_name uf_W) = d_find (f_local (x_fs y1)) (local_name uf_W).
Proof. vm_compute. repeat split. Qed.

(* a short write of local.W.json: the next run, fault-free, deletes both count
   files (W.json exists) and delivers W.json; local.W.json stays truncated *)
Example C05_ex_upload_rerun_keeps_truncated_report :
  let y1 := frun 48 (uf_at 12 FShort) [PW uf_W] (finit uf_fs uf_cfg true) in
  let y2 := frun 48 (fun _ => FOk) [PW uf_W] (finit (x_fs y1) uf_cfg true) in
  uf_show y2 = (true, 15, false, [local_name uf_W], [marker_name uf_W], 1) /\
  d_find (f_local (x_fs y2)) (local_name uf_W) = Some (3, CRaw partial_id).
Proof. vm_compute. split; reflexivity. Qed.

End UploaderHalf.
