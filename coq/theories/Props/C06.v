(* C06  Reading a counter file is total and faithful.
   This file holds only statements; every proof is `exact <lemma>`.

   Model: Model/Parse.v mirrors internal/counter/parse.go Parse (with entryAt
   and load32 of file.go and DecodeStack of stackcounter.go).  parse_with oob bs
   is Parse on the input bs when the bytes oob follow it in memory; the
   independent reader of the documented layout is Model/Layout.v spec_decode. *)
From Coq Require Import String.
From Coq Require Import List ZArith NArith Bool.
From Tele Require Import Lib.Bytes Lib.BytesN Gen.Consts Model.DecodeStack Model.Layout Model.Parse
  Proofs.LayoutArith Proofs.LayoutRead Proofs.ParseFacts Proofs.WriterInv Proofs.FormatExtras.
Import ListNotations.
Open Scope N_scope.

(* ---- totality: for every byte string and whatever follows it in memory the
   result is an error or a result.  The model walks every chain with fuel
   len/32 + 2 (walk_fuel_sz) and the source's own bound (n > len/32 -> corrupt)
   fires first: the fuel is never used up. *)
Theorem C06_parse_total : forall oob bs, parse_with oob bs <> PDiverge.
Proof. exact parse_total. Qed.
Print Assumptions C06_parse_total.

(* no partial operation: with the uint32 arithmetic and the slice expression
   of entryAt spelled out (EPanic = "slice bounds out of range"), entryAt on an
   input below 4 GiB is the total function the model uses; the metadata slice
   data[np+4:hdrLen] is guarded by np+4 <= hdrLen <= pageSize <= len (parse_with
   tests exactly that before slicing) *)
Theorem C06_entry_never_panics_below_4GiB : forall bs hdr off,
  len bs < 4294967296 -> off < 4294967296 -> hdr <= 16384 ->
  entry_at_u32 bs hdr off =
  match entry_at bs hdr off with None => ENone | Some (nm, nx, v) => ESome nm nx v end.
Proof. exact entry_u32_eq. Qed.
Print Assumptions C06_entry_never_panics_below_4GiB.

(* ---- soundness, for arbitrary bytes: every returned pair is a record
   reachable from a bucket head by next links, with the name expanded *)
Theorem C06_parse_sound : forall oob bs kv cs, parse_with oob bs = POk kv cs ->
  Forall (from_record oob bs) cs.
Proof. exact parse_sound. Qed.
Print Assumptions C06_parse_sound.

(* ---- faithfulness: on a well-formed file Parse returns exactly what the
   independent reader of the layout returns (metadata key/values; expanded
   name/value pairs in bucket order, as maps: a later pair overrides an earlier
   one with the same expanded name) unless the file is in the class twin_clash:
   some record's raw name equals the expansion of an earlier record's name *)
Theorem C06_parse_faithful : forall oob bs, wf_file bs = true -> twin_clash bs = false ->
  match spec_decode bs with Some (kv, cs) => parse_with oob bs = POk kv cs | None => False end.
Proof. exact parse_faithful. Qed.
Print Assumptions C06_parse_faithful.

(* in that class the real decoder rejects the (well-formed) file: refutation of
   faithfulness, in general and with a file the library itself writes *)
Theorem C06_faithful_refuted_in_class : forall oob bs, wf_file bs = true -> twin_clash bs = true ->
  parse_with oob bs = PErrCorrupt.
Proof. exact parse_rejects_twin. Qed.
Print Assumptions C06_faithful_refuted_in_class.

Theorem C06_faithful_refuted :
  wf_file twin_file = true /\ twin_clash twin_file = true /\ parse twin_file = PErrCorrupt /\
  decode_stack twin_a = twin_b.
Proof. exact twin_file_facts. Qed.
Print Assumptions C06_faithful_refuted.

(* a condition on the names alone that keeps a file out of the class *)
Theorem C06_no_twin_no_clash : forall rs seen,
  NoDup (map r_name rs) ->
  (forall r, In r rs -> ~ In (r_name r) seen) ->
  (forall a b, In a rs -> In b rs -> r_name a <> r_name b -> r_name b <> decode_stack (r_name a)) ->
  twin_clash_from seen rs = false.
Proof. exact no_twin_no_clash. Qed.
Print Assumptions C06_no_twin_no_clash.

(* ---- a function of the input: outside the class oob_head (a bucket head
   offset hdrLen+4+4i falls in the last three bytes of the input) the answer
   does not depend on what follows the input in memory; well-formed files are
   outside the class *)
Theorem C06_parse_oob_indep : forall o1 o2 bs, oob_head bs = false -> parse_with o1 bs = parse_with o2 bs.
Proof. exact parse_oob_indep. Qed.
Print Assumptions C06_parse_oob_indep.

Theorem C06_wf_not_oob : forall bs, wf_file bs = true -> oob_head bs = false.
Proof. exact wf_no_oob. Qed.
Print Assumptions C06_wf_not_oob.

(* inside the class the real decoder reads past its input: refutation *)
Theorem C06_oob_refuted :
  len oob_file = 16384 /\ oob_head oob_file = true /\
  parse_with [] oob_file = POk [] [] /\ parse_with [255; 255; 255] oob_file = PErrCorrupt.
Proof. exact oob_file_facts. Qed.
Print Assumptions C06_oob_refuted.

(* ---- non-vacuity *)
Example C06_later_record_wins :
  let f := file_after [OpAdd twin_a2 1; OpAdd twin_b2 2] in
  wf_file f = true /\ twin_clash f = false /\
  parse f = POk [(s2b "Program", s2b "p")] [(twin_b2, 2); (twin_b2, 1)].
Proof. exact twin2_file_facts. Qed.

Example C06_example_run :
  let f := file_after [OpAdd (s2b "gopls/client:vscode") 3; OpNew (s2b "b"); OpAdd (s2b "gopls/client:vscode") 4;
                       OpExtend 20000; OpReopen wit_meta] in
  wf_file f = true /\ len f = 32768 /\
  parse f = POk [(s2b "Program", s2b "p")] [(s2b "gopls/client:vscode", 7); (s2b "b", 0)].
Proof. exact example_run. Qed.
