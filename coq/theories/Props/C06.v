(* C06  Reading a counter file is total and faithful.
   This file holds only statements; every proof is `exact <lemma>`.

   Model: Model/Parse.v mirrors internal/counter/parse.go Parse (with entryAt
   and load32 of file.go and DecodeStack of stackcounter.go).  parse_with oob bs
   is Parse on the input bs when the bytes oob follow it in memory; the
   independent reader of the documented layout is Model/Layout.v spec_decode. *)
From Coq Require Import String.
From Coq Require Import List ZArith NArith Bool.
From Tele Require Import Lib.Bytes Lib.BytesN Gen.Consts Model.DecodeStack Model.Layout Model.Parse
  Proofs.LayoutArith Proofs.LayoutRead Proofs.ParseFacts Proofs.WriterInv Proofs.FormatExtras.
Import ListNotations.
Open Scope N_scope.

(* ---- totality: for every byte string and whatever follows it in memory the
   result is an error or a result.  The model walks every chain with fuel
   len/32 + 2 (walk_fuel_sz) and the source's own bound (n > len/32 -> corrupt)
   fires first: the fuel is never used up. *)
Theorem C06_parse_total : forall oob bs, parse_with oob bs <> PDiverge.
Proof. exact parse_total. Qed.
Print Assumptions C06_parse_total.

(* no partial operation: with the uint32 arithmetic and the slice expression
   of entryAt spelled out (EPanic = "slice bounds out of range"), entryAt on an
   input below 4 GiB is the total function the model uses; the metadata slice
   data[np+4:hdrLen] is guarded by np+4 <= hdrLen <= pageSize <= len (parse_with
   tests exactly that before slicing) *)
Theorem C06_entry_never_panics_below_4GiB : forall bs hdr off,
  len bs < 4294967296 -> off < 4294967296 -> hdr <= 16384 ->
  entry_at_u32 bs hdr off =
  match entry_at bs hdr off with None => ENone | Some (nm, nx, v) => ESome nm nx v end.
Proof. exact entry_u32_eq. Qed.
Print Assumptions C06_entry_never_panics_below_4GiB.

(* ---- soundness, for arbitrary bytes: the result is the list of (expanded
   name, value) of records reachable from a bucket head by next links, and
   those records have pairwise different STORED names: a chain in which a
   stored name repeats is answered "corrupt", never with a result *)
Theorem C06_parse_sound : forall oob bs kv cs, parse_with oob bs = POk kv cs ->
  exists R, cs = map expand R /\ NoDup (map fst R) /\ Forall (raw_record oob bs) R.
Proof. exact parse_sound. Qed.
Print Assumptions C06_parse_sound.

(* ---- faithfulness: on EVERY well-formed file Parse returns exactly what the
   independent reader of the layout returns: the metadata key/values and, in
   bucket order, every record's (expanded name, value); as maps: a later pair
   overrides an earlier one with the same expanded name *)
Theorem C06_parse_faithful : forall oob bs, wf_file bs = true ->
  match spec_decode bs with Some (kv, cs) => parse_with oob bs = POk kv cs | None => False end.
Proof. exact parse_faithful. Qed.
Print Assumptions C06_parse_faithful.

(* the walk over records the layout reader accepts: different stored names are
   all taken; a stored name met before (or twice) gives corrupt *)
Theorem C06_distinct_names_all_taken : forall rs seen acc,
  NoDup (map r_name rs) -> (forall r, In r rs -> ~ In (r_name r) seen) ->
  walk_spec seen acc rs = WOk (rev (map r_name rs) ++ seen) (rev (decoded rs) ++ acc).
Proof. exact walk_spec_nodup. Qed.
Print Assumptions C06_distinct_names_all_taken.

Theorem C06_repeated_name_is_corrupt : forall rs seen acc,
  (exists r, In r rs /\ In (r_name r) seen) \/ ~ NoDup (map r_name rs) ->
  walk_spec seen acc rs = WCorrupt.
Proof. exact walk_spec_dup. Qed.
Print Assumptions C06_repeated_name_is_corrupt.

(* ---- counter.Read / ReadStack / ReadFile (readFile = Parse of the file mapped
   AFRESH): what a process reads back is a function of the file's current
   contents - it does not matter how long the mapping is that the reading
   process itself holds (another process may have extended the file since).
   On a well-formed file Read returns the value the independent reader finds
   under the expanded name, ReadFile the two maps built from its pairs. *)
Theorem C06_read_faithful : forall bs name, wf_file bs = true ->
  match spec_decode bs with
  | Some (_, cs) =>
      read_counter bs name =
      match find_last (decode_stack name) cs with Some v => RdVal v | None => RdNotFound end
  | None => False
  end.
Proof. exact read_faithful. Qed.
Print Assumptions C06_read_faithful.

Theorem C06_read_finds_record : forall bs rs r, wf_file bs = true -> spec_records bs = Some rs -> In r rs ->
  NoDup (map (fun x => decode_stack (r_name x)) rs) ->
  read_counter bs (r_name r) = RdVal (r_val r).
Proof. exact read_finds_record. Qed.
Print Assumptions C06_read_finds_record.

Theorem C06_read_file_faithful : forall bs, wf_file bs = true ->
  match spec_decode bs with
  | Some (_, cs) =>
      read_file bs =
      Some (filter (fun kv => negb (is_stack_name (fst kv))) (last_wins cs),
            map (fun kv => (decode_stack (fst kv), snd kv)) (filter (fun kv => is_stack_name (fst kv)) (last_wins cs)))
  | None => False
  end.
Proof. exact read_file_faithful. Qed.
Print Assumptions C06_read_file_faithful.

(* ---- a function of the input: for every input the answer does not depend on
   what follows the input in memory (load32 answers 0 unless all four bytes
   are inside the input) *)
Theorem C06_parse_oob_indep : forall o1 o2 bs, parse_with o1 bs = parse_with o2 bs.
Proof. exact parse_oob_indep. Qed.
Print Assumptions C06_parse_oob_indep.

(* ---- non-vacuity and the former defect classes, now positive *)
(* a counter whose raw name is the expansion of another counter's name: both
   records are read, the later one wins under the common expanded name *)
Example C06_expanded_twin_later_wins :
  wf_file twin_file = true /\ decode_stack twin_a = twin_b /\
  parse twin_file = POk [(s2b "Program", s2b "p")] [(twin_b, 1); (twin_b, 2)] /\
  last_wins [(twin_b, 1); (twin_b, 2)] = [(twin_b, 2)].
Proof. exact twin_file_facts. Qed.

Example C06_later_record_wins :
  let f := file_after [OpAdd twin_a2 1; OpAdd twin_b2 2] in
  wf_file f = true /\
  parse f = POk [(s2b "Program", s2b "p")] [(twin_b2, 2); (twin_b2, 1)].
Proof. exact twin2_file_facts. Qed.

Example C06_repeated_stored_name : parse dup_file = PErrCorrupt /\ wf_file dup_file = false.
Proof. exact dup_file_facts. Qed.

(* header length field that puts a bucket head across the end of the input *)
Example C06_head_across_end_of_input :
  len oob_file = 16384 /\
  parse_with [] oob_file = POk [] [] /\ parse_with [255; 255; 255] oob_file = POk [] [].
Proof. exact oob_file_facts. Qed.

(* record offsets must be multiples of 8 *)
Example C06_unaligned_record_refused :
  parse unaligned_file = PErrCorrupt /\
  parse (put (put (c_hdrPrefix ++ le32 32 ++ zeros (16384 - 32)) 36 (le32 4008))
             4008 (le64 7 ++ le32 3 ++ le32 0 ++ s2b "abc")) = POk [] [(s2b "abc", 7)].
Proof. exact unaligned_file_facts. Qed.

Example C06_example_run :
  let f := file_after [OpAdd (s2b "gopls/client:vscode") 3; OpNew (s2b "b"); OpAdd (s2b "gopls/client:vscode") 4;
                       OpExtend 20000; OpReopen wit_meta] in
  wf_file f = true /\ len f = 32768 /\
  parse f = POk [(s2b "Program", s2b "p")] [(s2b "gopls/client:vscode", 7); (s2b "b", 0)].
Proof. exact example_run. Qed.
