(* C07  Each expired counter file is folded into exactly one weekly report.

   Model: Model/Uploader.v (uploader.Run as a thread program with one step per
   file-system / HTTP call over Lib/FS; count-file contents are the abstract
   result of counter.Parse + the span extraction; a report body is the list of
   count files folded in).  [reach st]: reachable from any well-formed
   initial directory by any interleaving of any number of uploader runs
   (started at any time), kills and server answers; [reach_from st0 st]: a
   continuation of st0; [treach (st :: tr)]: st with its history tr.
   Statements only; proofs in Proofs/Uploader*.v. *)
From Coq Require Import String.
From Coq Require Import List ZArith NArith Bool Lia Arith.
From Tele Require Import Lib.Bytes Lib.FS Model.Span Model.Uploader
  Proofs.FSFacts Proofs.UploaderBase Proofs.UploaderNames Proofs.UploaderFiles Proofs.UploaderData
  Proofs.UploaderEver Proofs.UploaderSeq Proofs.UploaderIdem Proofs.UploaderNoDup Proofs.UploaderLocal
  Proofs.UploaderDates.
Import ListNotations.
Open Scope nat_scope.

(* ---- one_report_per_week (sequential run = one thread; every schedule of it,
        i.e. every order in which Go's map iteration visits the weeks).
        For a week W with no report before (no local.W.json, no W.json, no
        upload/W.json, no ready file whose name contains W), whose count files
        all ended before the start time and one of which has a counter:
        when the run has returned, local.W.json exists, is the unfiltered
        report of week W, and folds in exactly W's count files.
        (P2: the ready names of the directory's other weeks do not contain W
        as a substring - true for date strings, see C07_ex_premises.) ---- *)
Theorem C07_one_report_per_week :
  forall (f : FS) (c : ucfg) (W : bytes), fs_wf f ->
  d_mem (f_local f) (local_name W) = false ->
  d_mem (f_local f) (ready_name W) = false ->
  d_mem (up_dir f) (marker_name W) = false ->
  (forall g, d_mem (f_local f) g = true -> collect_ready c g = true -> contains g W = false) ->
  (forall n id ct cf, d_find (f_local f) n = Some (id, ct) -> parse ct = Some cf ->
     uploader_week (cf_end cf) <> W -> contains (ready_name (uploader_week (cf_end cf))) W = false) ->
  (forall n cf, wfile f W n cf -> before_start (cf_end cf) (u_start c) = true) ->
  (exists n cf, wfile f W n cf /\ cf_counts cf <> []) ->
  forall sched t, s_ths (run sched (init_state f [c])) = [t] -> t_pc t = Done ->
  exists id r,
    d_find (f_local (s_fs (run sched (init_state f [c])))) (local_name W) = Some (id, CRep (Some r)) /\
    r_week r = W /\ r_up r = false /\ forall n cf, In (n, cf) (r_files r) <-> wfile f W n cf.
Proof. exact one_report_per_week. Qed.
Print Assumptions C07_one_report_per_week.

(* the same with the substring premise discharged: the week strings of the
   directory's parseable count files (and W) are ten bytes long
   (in_range e := length (uploader_week e) = 10, which C09's date_roundtrip
   proves for all days of the years 0..9999) *)
Theorem C07_one_report_per_week_dates :
  forall (f : FS) (c : ucfg) (e0 : Z),
  let W := uploader_week e0 in
  fs_wf f -> in_range e0 ->
  (forall n id ct cf, d_find (f_local f) n = Some (id, ct) -> parse ct = Some cf -> in_range (cf_end cf)) ->
  d_mem (f_local f) (local_name W) = false ->
  d_mem (f_local f) (ready_name W) = false ->
  d_mem (up_dir f) (marker_name W) = false ->
  (forall g, d_mem (f_local f) g = true -> collect_ready c g = true -> contains g W = false) ->
  (forall n cf, wfile f W n cf -> before_start (cf_end cf) (u_start c) = true) ->
  (exists n cf, wfile f W n cf /\ cf_counts cf <> []) ->
  forall sched t, s_ths (run sched (init_state f [c])) = [t] -> t_pc t = Done ->
  exists id r,
    d_find (f_local (s_fs (run sched (init_state f [c])))) (local_name W) = Some (id, CRep (Some r)) /\
    r_week r = W /\ r_up r = false /\ forall n cf, In (n, cf) (r_files r) <-> wfile f W n cf.
Proof. exact one_report_per_week_dates. Qed.
Print Assumptions C07_one_report_per_week_dates.

(* ---- delete_only_after_report: when a step removes a count file n, then at
        this or an earlier state of the run a report for the remover's current
        week existed (local.W.json, W.json, upload/W.json, or a ready file
        whose NAME contains W: since fix db874db the directory path is no
        longer searched) - and n is a count file of that week ---- *)
Theorem C07_delete_only_after_report : forall st tr i a t n t',
  treach (st :: tr) -> nth_error (s_ths st) i = Some t ->
  decide_all (s_fs st) a t = (ERemLocal n, t') -> is_count n = true ->
  ever (witness (t_week t)) (st :: tr).
Proof. exact delete_only_after_report. Qed.
Print Assumptions C07_delete_only_after_report.

Theorem C07_deleted_file_week : forall f cfgs st i a t n t',
  fs_wf f -> reach_from (init_state f cfgs) st -> nth_error (s_ths st) i = Some t ->
  decide_all (s_fs st) a t = (ERemLocal n, t') -> is_count n = true ->
  exists id c cf, d_find (f_local f) n = Some (id, c) /\ parse c = Some cf /\
                  uploader_week (cf_end cf) = t_week t /\
                  before_start (cf_end cf) (u_start (t_cfg t)) = true.
Proof. exact deleted_file_week. Qed.
Print Assumptions C07_deleted_file_week.

(* ---- untouched: a count file that cannot be parsed, or whose end is not
        before the start time of any of the runs, keeps its inode and content
        in every state of every run (any number of concurrent / repeated
        uploaders, kills, server answers) ---- *)
Theorem C07_untouched : forall f cfgs st n v,
  fs_wf f -> reach_from (init_state f cfgs) st ->
  is_count n = true -> d_find (f_local f) n = Some v ->
  (forall cf, parse (snd v) = Some cf ->
     forall i t, nth_error (s_ths st) i = Some t -> before_start (cf_end cf) (u_start (t_cfg t)) = false) ->
  d_find (f_local (s_fs st)) n = Some v.
Proof. exact untouched. Qed.
Print Assumptions C07_untouched.

(* ---- concurrent_single_report, proved part (any number of uploaders, every
        interleaving, kills, answers): a local.* file is never removed and
        keeps its inode (so there is never a second local.W.json), and once
        it has a body the body never changes ---- *)
Theorem C07_concurrent_single_report_partial : forall st ia n,
  reach st -> is_localrep n = true -> is_count n = false ->
  forall id c, d_find (f_local (s_fs st)) n = Some (id, c) ->
  exists c', d_find (f_local (s_fs (step st ia))) n = Some (id, c') /\ (c <> CRep None -> c' = c).
Proof. exact local_report_stable. Qed.
Print Assumptions C07_concurrent_single_report_partial.

(* ---- never counts a file twice (any number of uploaders, any
        interleaving, from any directory with distinct names): every report
        body written by any step (W.json or local.W.json) is the report of
        the writer's current week, folds in each count file at most once, and
        only count files of that week that ended before the writer's start
        time (as parsed from the initial directory) ---- *)
Theorem C07_no_file_twice : forall f cfgs st i a t fd c t',
  fs_wf f -> NoDup (dnames (f_local f)) -> reach_from (init_state f cfgs) st ->
  nth_error (s_ths st) i = Some t -> decide_all (s_fs st) a t = (EWriteId fd c, t') ->
  exists r, c = CRep (Some r) /\ r_week r = t_week t /\ r_by r = t_id t /\
            NoDup (map fst (r_files r)) /\
            Forall (entry_ok (f_local f) (t_cfg t) (t_week t)) (r_files r).
Proof. exact report_sound. Qed.
Print Assumptions C07_no_file_twice.

(* every change any step can make to any file of local/ *)
Theorem C07_file_changes : forall st i a n, reach st ->
  let st' := step st (i, a) in
  d_find (f_local (s_fs st')) n = d_find (f_local (s_fs st)) n
  \/ (exists t t', nth_error (s_ths st) i = Some t /\ decide_all (s_fs st) a t = (ERemLocal n, t') /\
                   d_find (f_local (s_fs st')) n = None)
  \/ (exists t t', nth_error (s_ths st) i = Some t /\ decide_all (s_fs st) a t = (ECreateLocal n, t') /\
                   d_find (f_local (s_fs st)) n = None /\
                   d_find (f_local (s_fs st')) n = Some (f_next (s_fs st), CRep None))
  \/ (exists t t' fd c, nth_error (s_ths st) i = Some t /\ decide_all (s_fs st) a t = (EWriteId fd c, t') /\
                        writing t = Some (fd, n) /\
                        d_find (f_local (s_fs st)) n = Some (fd, CRep None) /\
                        d_find (f_local (s_fs st')) n = Some (fd, c)).
Proof. exact find_step. Qed.
Print Assumptions C07_file_changes.

(* ---- idempotent: a written local report survives every continuation
        (re-runs, concurrent runs) unchanged; and once local.W.json exists and
        no thread is past createReport's existence checks for W (e.g. all
        earlier runs have returned), no later step creates W.json or
        local.W.json again ---- *)
Theorem C07_idempotent_unchanged : forall st st' n id c,
  reach st -> reach_from st st' -> is_localrep n = true -> is_count n = false ->
  d_find (f_local (s_fs st)) n = Some (id, c) -> c <> CRep None ->
  d_find (f_local (s_fs st')) n = Some (id, c).
Proof. exact local_report_forever. Qed.
Print Assumptions C07_idempotent_unchanged.

Theorem C07_idempotent_no_second : forall w st st' i a t e t',
  reach st -> week_ok w -> d_mem (f_local (s_fs st)) (local_name w) = true ->
  (forall j tj, nth_error (s_ths st) j = Some tj -> ~ creating w tj) ->
  reach_from st st' ->
  nth_error (s_ths st') i = Some t -> decide_all (s_fs st') a t = (e, t') ->
  e <> ECreateLocal (ready_name w) /\ e <> ECreateLocal (local_name w).
Proof. exact idempotent. Qed.
Print Assumptions C07_idempotent_no_second.

(* ---- concurrent_single_report, "equals the aggregate of the whole week's
        files (none missed)": REFUTED for three concurrent uploaders in mode
        on (found on the model, replayed on the real code by vh_upload's
        scenario race3: KNOWN_FINDINGS class subset_report).
        C creates W.json and is about to create local.W.json; E, started
        later, sees W.json, deletes the week's count files and uploads and
        removes W.json; B had listed the directory before all that, read only
        the first count file, and finds neither report nor marker: it writes
        local.W.json from that one file. ---- *)
Definition rf_W : bytes := s2b "2024-01-07"%string.
Definition rf_cfg : ucfg := mkCfg (1705000000%Z, 0%Z) true None (s2b "/t/local/"%string) 0%Z.
Definition rf_cf1 : cfile := mkCF 1704153600%Z 1704585600%Z 0%N [(0%N, 1%Z)].
Definition rf_cf2 : cfile := mkCF 1704240000%Z 1704585600%Z 1%N [(0%N, 2%Z)].
Definition rf_a : bytes := s2b "a.v1.count"%string.
Definition rf_b : bytes := s2b "b.v1.count"%string.
Definition rf_fs : FS :=
  mkFS [(rf_a, (0, CCount (Some rf_cf1) 1%N)); (rf_b, (1, CCount (Some rf_cf2) 2%N))] (Some []) 2.
Definition rf_S (i : nat) : nat * act := (i, AStep O200).
Definition rf_sched : list (nat * act) :=
  [rf_S 2; rf_S 2;
   rf_S 0; rf_S 0; rf_S 0; rf_S 0; (0, APick rf_W); rf_S 0; rf_S 0; rf_S 0; rf_S 0;
   rf_S 1; rf_S 1; rf_S 1; rf_S 1; (1, APick rf_W); rf_S 1; rf_S 1; (1, APickNone);
   rf_S 2; rf_S 2; (2, APick rf_W);
   rf_S 1; rf_S 1; rf_S 1; rf_S 1; rf_S 1; rf_S 1; rf_S 1;
   rf_S 2; rf_S 2; rf_S 2; rf_S 2; rf_S 2; rf_S 2; rf_S 2; (2, APickNone);
   rf_S 2; rf_S 2; rf_S 2; rf_S 2; rf_S 2;
   rf_S 0; rf_S 0; rf_S 0; (0, APickNone); rf_S 0].

Theorem C07_concurrent_whole_week_refuted :
  exists f cfgs sched W,
    fs_wf f /\ Forall (fun c => c = rf_cfg) cfgs /\ length cfgs = 3 /\
    (* two expired count files of week W with counters, no report before *)
    wfile f W rf_a rf_cf1 /\ wfile f W rf_b rf_cf2 /\
    before_start (cf_end rf_cf1) (u_start rf_cfg) = true /\
    before_start (cf_end rf_cf2) (u_start rf_cfg) = true /\
    (* all three runs return (no kill, every request answered 200) ... *)
    quiescent (run sched (init_state f cfgs)) = true /\
    Forall (fun ia => snd ia <> AKill) sched /\
    (* ... and local.W.json folds in one file only, the server got both *)
    exists id r, d_find (f_local (s_fs (run sched (init_state f cfgs)))) (local_name W) = Some (id, CRep (Some r)) /\
                 map fst (r_files r) = [rf_a] /\
    exists k r', s_log (run sched (init_state f cfgs)) = [k] /\ a_out k = O200 /\
                 a_body k = CRep (Some r') /\ map fst (r_files r') = [rf_a; rf_b].
Proof.
  exists rf_fs, [rf_cfg; rf_cfg; rf_cfg], rf_sched, rf_W.
  split. { split; simpl; intros i H; [destruct H as [<-|[<-|[]]]; lia|contradiction]. }
  split. { repeat constructor. }
  split. { reflexivity. }
  split. { split; [reflexivity|]. exists 0, (CCount (Some rf_cf1) 1%N). repeat split. }
  split. { split; [reflexivity|]. exists 1, (CCount (Some rf_cf2) 2%N). repeat split. }
  split. { reflexivity. }
  split. { reflexivity. }
  split. { vm_compute. reflexivity. }
  split. { unfold rf_sched, rf_S. repeat constructor; simpl; discriminate. }
  vm_compute. eexists _, _. split; [reflexivity|]. split; [reflexivity|].
  eexists _, _. repeat split.
Qed.
Print Assumptions C07_concurrent_whole_week_refuted.

(* ---- the positive counterpart outside the refuted class: when all uploaders
        run in mode local (nothing is uploaded, so no W.json ever disappears),
        then for ANY number of uploaders, every interleaving and kill set, the
        body of local.W.json - for a week with no report before - folds in
        exactly W's count files that are expired for its author: none missed ---- *)
Theorem C07_concurrent_whole_week_mode_local :
  forall (f : FS) (W : bytes), fs_wf f ->
  d_mem (f_local f) (local_name W) = false -> d_mem (f_local f) (ready_name W) = false ->
  d_mem (up_dir f) (marker_name W) = false -> week_ok W ->
  forall cfgs st, reach_from (init_state f cfgs) st ->
  (forall i t, nth_error (s_ths st) i = Some t -> u_on (t_cfg t) = false) ->
  forall id r, d_find (f_local (s_fs st)) (local_name W) = Some (id, CRep (Some r)) ->
  r_week r = W /\ r_up r = false /\
  exists i t, nth_error (s_ths st) i = Some t /\ t_id t = r_by r /\
              forall n cf, In (n, cf) (r_files r) <->
                           wfile f W n cf /\ before_start (cf_end cf) (u_start (t_cfg t)) = true.
Proof. exact local_whole_week. Qed.
Print Assumptions C07_concurrent_whole_week_mode_local.

(* two uploaders in mode local racing through createReport: one report, both files *)
Definition ml_cfg : ucfg := mkCfg (1705000000%Z, 0%Z) false None (s2b "/t/local/"%string) 0%Z.
Example C07_ex_mode_local_race :
  let st := run [rf_S 0; rf_S 1; rf_S 0; rf_S 1; rf_S 0; rf_S 1; rf_S 0; rf_S 1; (0, APick rf_W); (1, APick rf_W);
                 rf_S 0; rf_S 1; rf_S 0; rf_S 1; rf_S 0; rf_S 1; rf_S 1; rf_S 0; rf_S 0; rf_S 1; rf_S 1; rf_S 0;
                 (0, APickNone); (1, APickNone)]
                (init_state rf_fs [ml_cfg; ml_cfg]) in
  quiescent st = true /\
  option_map (fun v => match snd v with CRep (Some r) => (map fst (r_files r), r_by r) | _ => ([], 9) end)
    (d_find (f_local (s_fs st)) (local_name rf_W)) = Some ([rf_a; rf_b], 0) /\
  map fst (f_local (s_fs st)) = [local_name rf_W].
Proof. vm_compute. repeat split. Qed.

(* ---- non-vacuity: the premises of one_report_per_week hold for a concrete
        directory, and the model computes the report ---- *)
Lemma rf_find n v : d_find (f_local rf_fs) n = Some v ->
  (n = rf_a /\ v = (0, CCount (Some rf_cf1) 1%N)) \/ (n = rf_b /\ v = (1, CCount (Some rf_cf2) 2%N)).
Proof.
  unfold rf_fs. cbn [f_local d_find]. destruct (beq rf_a n) eqn:E1.
  - apply beq_eq in E1. intros H. inversion H. auto.
  - destruct (beq rf_b n) eqn:E2; [|discriminate].
    apply beq_eq in E2. intros H. inversion H. auto.
Qed.

Definition ex_sched : list (nat * act) :=
  [rf_S 0; rf_S 0; rf_S 0; rf_S 0; (0, APick rf_W);
   rf_S 0; rf_S 0; rf_S 0; rf_S 0; rf_S 0; rf_S 0; rf_S 0; rf_S 0; (0, APickNone);
   rf_S 0; rf_S 0; rf_S 0; rf_S 0; rf_S 0; rf_S 0; rf_S 0].

Example C07_ex_premises :
  exists id r t,
    s_ths (run ex_sched (init_state rf_fs [rf_cfg])) = [t] /\ t_pc t = Done /\
    d_find (f_local (s_fs (run ex_sched (init_state rf_fs [rf_cfg])))) (local_name rf_W) = Some (id, CRep (Some r)) /\
    r_week r = rf_W /\ r_up r = false /\ forall n cf, In (n, cf) (r_files r) <-> wfile rf_fs rf_W n cf.
Proof.
  assert (Hdone : exists t, s_ths (run ex_sched (init_state rf_fs [rf_cfg])) = [t] /\ t_pc t = Done).
  { vm_compute. eexists. split; reflexivity. }
  destruct Hdone as (t & Hths & Hp).
  destruct (C07_one_report_per_week rf_fs rf_cfg rf_W) with (sched := ex_sched) (t := t) as (id & r & H); auto.
  - split; simpl; intros i H; [destruct H as [<-|[<-|[]]]; lia|contradiction].
  - intros g Hm Hc. unfold d_mem in Hm. destruct (d_find (f_local rf_fs) g) as [v|] eqn:Ef; [|discriminate].
    destruct (rf_find _ _ Ef) as [[-> _] | [-> _]]; vm_compute in Hc; discriminate.
  - intros n id ct cf Hf Hp' Hw. exfalso. apply Hw.
    destruct (rf_find _ _ Hf) as [[_ E] | [_ E]]; inversion E; subst; simpl in Hp'; inversion Hp'; subst; reflexivity.
  - intros n cf (_ & id & ct & Hf & Hp' & _).
    destruct (rf_find _ _ Hf) as [[_ E] | [_ E]]; inversion E; subst; simpl in Hp'; inversion Hp'; subst; reflexivity.
  - exists rf_a, rf_cf1. split; [|discriminate]. split; [reflexivity|].
    exists 0, (CCount (Some rf_cf1) 1%N). repeat split.
  - exists id, r, t. tauto.
Qed.

Example C07_ex_report_computed :
  option_map (fun v => match snd v with CRep (Some r) => map fst (r_files r) | _ => [] end)
    (d_find (f_local (s_fs (run ex_sched (init_state rf_fs [rf_cfg])))) (local_name rf_W)) = Some [rf_a; rf_b]
  /\ map fst (f_local (s_fs (run ex_sched (init_state rf_fs [rf_cfg])))) = [local_name rf_W].
Proof. vm_compute. split; reflexivity. Qed.

(* fix db874db: the week's date in the directory PATH no longer makes
   notNeeded true: with an unrelated ready file present the week is reported
   (before the fix its count file was deleted without a report) *)
Definition dp_cfg : ucfg := mkCfg (1705000000%Z, 0%Z) true None (s2b "/backup-2024-01-07/local/"%string) 0%Z.
Definition dp_fs : FS :=
  mkFS [(rf_a, (0, CCount (Some rf_cf1) 1%N)); (s2b "2023-12-31.json"%string, (1, CRaw 9%N))] (Some []) 2.
Example C07_ex_dir_path_with_date_harmless :
  let st := run [rf_S 0; rf_S 0; rf_S 0; (0, APick rf_W); rf_S 0; rf_S 0; rf_S 0; rf_S 0; rf_S 0; rf_S 0]
                (init_state dp_fs [dp_cfg]) in
  d_mem (f_local (s_fs st)) rf_a = true /\
  option_map (fun v => match snd v with CRep (Some r) => map fst (r_files r) | _ => [] end)
    (d_find (f_local (s_fs st)) (local_name rf_W)) = Some [rf_a].
Proof. vm_compute. repeat split. Qed.

(* ---- the program entries of a report (oracle week_reports_ok of the suite).
        A count file's program identity cf_prog is the id of its FIVE metadata
        fields Program, Version, GoVersion, GOOS, GOARCH (the harness numbers
        the distinct five-tuples); a report body is the list of files folded
        in; its canonical form `sums` is what is compared with the JSON the
        real code wrote.  kval / pval / fval: the value of counter k in a list
        of pairs / in the entries of identity p / contributed by the files of
        identity p (Proofs/UploaderSums.v). ---- *)
From Coq Require Import Sorting.Sorted.
From Tele Require Import Proofs.UploaderSums Proofs.UploaderGroups.

(* one program entry per identity that occurs among the files, none else *)
Theorem C07_report_entries_by_identity : forall allowed up files,
  StronglySorted N.lt (keys (sums allowed up files)) /\
  forall x, In x (keys (sums allowed up files)) <-> exists e : bytes * cfile, In e files /\ cf_prog (snd e) = x.
Proof. exact sums_keys. Qed.
Print Assumptions C07_report_entries_by_identity.

(* every value is the sum over exactly the files of that identity (local
   report: all counters and stack counters; upload report: the approved ones) *)
Theorem C07_report_values_local : forall allowed files p k,
  pval (sums allowed false files) p k = fval files p k.
Proof. exact sums_val_local. Qed.
Print Assumptions C07_report_values_local.

Theorem C07_report_values_upload : forall allowed files p k,
  pval (sums allowed true files) p k = if existsb (N.eqb k) allowed then fval files p k else 0%Z.
Proof. exact sums_val_upload. Qed.
Print Assumptions C07_report_values_upload.

(* what the executable oracle says about an observed list of program entries *)
Theorem C07_week_reports_ok_spec : forall obs files, week_reports_ok obs files = true ->
  NoDup (keys obs) /\
  (forall x, In x (keys obs) <-> exists e : bytes * cfile, In e files /\ cf_prog (snd e) = x) /\
  forall p k, pval obs p k = fval files p k.
Proof. exact week_reports_ok_spec. Qed.
Print Assumptions C07_week_reports_ok_spec.

(* the clause of one_report_per_week for the program entries: after a complete
   sequential run, local.W.json lists every file once, has one program entry
   per identity occurring among W's count files, and each value is the sum
   over exactly W's files of that identity (ws: any duplicate-free enumeration
   of W's count files) *)
Theorem C07_one_report_groups :
  forall (f : FS) (c : ucfg) (W : bytes), fs_wf f -> NoDup (dnames (f_local f)) ->
  d_mem (f_local f) (local_name W) = false ->
  d_mem (f_local f) (ready_name W) = false ->
  d_mem (up_dir f) (marker_name W) = false ->
  (forall g, d_mem (f_local f) g = true -> collect_ready c g = true -> contains g W = false) ->
  (forall n id ct cf, d_find (f_local f) n = Some (id, ct) -> parse ct = Some cf ->
     uploader_week (cf_end cf) <> W -> contains (ready_name (uploader_week (cf_end cf))) W = false) ->
  (forall n cf, wfile f W n cf -> before_start (cf_end cf) (u_start c) = true) ->
  (exists n cf, wfile f W n cf /\ cf_counts cf <> []) ->
  forall sched t, s_ths (run sched (init_state f [c])) = [t] -> t_pc t = Done ->
  exists id r,
    d_find (f_local (s_fs (run sched (init_state f [c])))) (local_name W) = Some (id, CRep (Some r)) /\
    r_week r = W /\ NoDup (map fst (r_files r)) /\
    let body := sums [] false (r_files r) in
    NoDup (keys body) /\
    (forall p, In p (keys body) <-> exists n cf, wfile f W n cf /\ cf_prog cf = p) /\
    forall ws, NoDup ws -> (forall n cf, In (n, cf) ws <-> wfile f W n cf) ->
    forall p k, pval body p k = fval ws p k.
Proof. exact week_report_groups. Qed.
Print Assumptions C07_one_report_groups.

(* non-vacuity: two files of one week whose identities differ (ids 0 and 1):
   two entries; the merged entry is rejected *)
Example C07_ex_week_reports_ok :
  week_reports_ok [(0%N, [(0%N, 1%Z)]); (1%N, [(0%N, 2%Z)])] [(rf_a, rf_cf1); (rf_b, rf_cf2)] = true /\
  week_reports_ok [(0%N, [(0%N, 3%Z)])] [(rf_a, rf_cf1); (rf_b, rf_cf2)] = false /\
  week_reports_ok [(0%N, [(0%N, 1%Z)]); (0%N, [(0%N, 2%Z)])] [(rf_a, rf_cf1); (rf_b, rf_cf2)] = false.
Proof. vm_compute. repeat split. Qed.
