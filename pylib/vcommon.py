"""Common machinery for the per-property checks.

Pipeline of one check (see DESIGN.md section 2):
  regen   goconsts: Go constants of /repo's working tree -> coq/theories/Gen/Consts.v
  prove   make (full .vo) of the closure of theories/Props/<id>.v, then coqc on the
          Props file to read every `Print Assumptions`
  extract the executable model -> OCaml runner (ExtrOcamlBasic only)
  copy    scratch copy of /repo's working tree + injected harness (tag verif)
  impl    run the harness (real code) on generated cases -> cases file
  model   run the extracted model + the property oracle on the same cases
  decide  VIOLATION / KNOWN-FINDING lines, evidence/<id>.json, exit status
"""
import contextlib
import fcntl
import hashlib
import json
import os
import re
import shutil
import subprocess
import sys
import tempfile
import time
from pathlib import Path

VERIF = Path(__file__).resolve().parents[1]
REPO = Path(os.environ.get("VERIF_REPO", "/repo"))
COQ = VERIF / "coq"
OCAML = VERIF / "ocaml"
HARNESS = VERIF / "harness"
GOENV = dict(GOFLAGS="-mod=mod", GOPROXY="off", GOSUMDB="off", GOTOOLCHAIN="local",
             CARGO_NET_OFFLINE="true", PIP_NO_INDEX="1")
NPROC = str(os.cpu_count() or 4)

FORBIDDEN = re.compile(
    r"\bAdmitted\b|\badmit\b|\bAxiom\b|\bAxioms\b|\bParameter\b|\bParameters\b|\bConjecture\b|"
    r"Unset\s+Guard|bypass_check|type-in-type|impredicative-set|Admit\s+Obligations|"
    r"Unset\s+Positivity|Unset\s+Universe")


def env():
    e = dict(os.environ)
    e.update(GOENV)
    return e


def sh(cmd, cwd=None, timeout=1200, check=False, extra_env=None, stdin=None):
    e = env()
    if extra_env:
        e.update(extra_env)
    p = subprocess.run(cmd, cwd=cwd, env=e, stdout=subprocess.PIPE, stderr=subprocess.STDOUT,
                       timeout=timeout, shell=isinstance(cmd, str), input=stdin)
    out = p.stdout.decode("utf-8", "replace")
    if check and p.returncode != 0:
        raise RuntimeError("command failed: %s\n%s" % (cmd, out[-4000:]))
    return p.returncode, out


@contextlib.contextmanager
def build_lock():
    """Serialises the steps that write into the shared coq/ and ocaml/ build dirs."""
    lockf = open(VERIF / ".build.lock", "w")
    fcntl.flock(lockf, fcntl.LOCK_EX)
    try:
        yield
    finally:
        fcntl.flock(lockf, fcntl.LOCK_UN)
        lockf.close()


# ---------------------------------------------------------------- regen

def build_tool(name):
    """Builds harness/tools/<name> into harness/tools/bin/<name> when sources changed."""
    src = HARNESS / "tools" / name
    out = HARNESS / "tools" / "bin" / name
    newest = max(p.stat().st_mtime for p in src.rglob("*") if p.is_file())
    if out.exists() and out.stat().st_mtime >= newest:
        return out
    out.parent.mkdir(parents=True, exist_ok=True)
    sh(["go", "build", "-o", str(out), "."], cwd=src, check=True, timeout=600)
    return out


def regen():
    """Regenerates Gen/*.v from /repo's working tree. Returns the constant table."""
    tool = build_tool("goconsts")
    gen = COQ / "theories" / "Gen"
    gen.mkdir(parents=True, exist_ok=True)
    table = gen / "consts_table.json"
    rc, out = sh([str(tool), str(REPO), str(HARNESS / "consts.spec"), str(gen / "Consts.v"), str(table)],
                 timeout=300)
    info = {"ok": rc == 0, "log": out[-2000:], "table": {}}
    if rc == 0 and table.exists():
        info["table"] = json.loads(table.read_text())
    gofns = HARNESS / "tools" / "gofns"
    if gofns.exists():
        tool2 = build_tool("gofns")
        rc2, out2 = sh([str(tool2), str(REPO), str(HARNESS / "gofns.spec"), str(gen / "GoFns.v")], timeout=300)
        info["gofns_ok"] = rc2 == 0
        info["gofns_log"] = out2[-3000:]
        if rc2 != 0:
            info["ok"] = False
            info["log"] += "\n" + out2[-2000:]
    return info


# ---------------------------------------------------------------- coq

def coq_project():
    files = sorted(str(p.relative_to(COQ)) for p in (COQ / "theories").rglob("*.v")
                   if "Extract" not in p.parts)
    content = "-Q theories Tele\n-arg -w -arg -notation-overridden,-deprecated-hint-without-locality,-deprecated-instance-without-locality\n" + "\n".join(files) + "\n"
    proj = COQ / "_CoqProject"
    if not proj.exists() or proj.read_text() != content or not (COQ / "Makefile").exists():
        proj.write_text(content)
        sh(["coq_makefile", "-f", "_CoqProject", "-o", "Makefile"], cwd=COQ, check=True)


def grep_gate():
    """Rejects forbidden vernacular anywhere in the development."""
    bad = []
    for p in (COQ / "theories").rglob("*.v"):
        txt = p.read_text()
        # strip comments (non-nested approximation is enough: nested handled by loop)
        prev = None
        while prev != txt:
            prev = txt
            txt = re.sub(r"\(\*[^()]*?\*\)", "", txt, flags=re.S)
            txt = re.sub(r"\(\*(?:(?!\(\*|\*\)).)*\*\)", "", txt, flags=re.S)
        for m in FORBIDDEN.finditer(txt):
            bad.append("%s: %s" % (p.relative_to(COQ), m.group(0)))
    return bad


def coq_make(targets, timeout=3000):
    coq_project()
    cmd = ["make", "-j", NPROC] + targets
    t0 = time.time()
    rc, out = sh(cmd, cwd=COQ, timeout=timeout)
    return rc == 0, out, time.time() - t0


def coq_failure_summary(log):
    """First failing file / line / message from a make log."""
    m = re.search(r'File "([^"]+)", line (\d+), characters [\d-]+:\s*\nError:(.*?)(?:\n\n|\nmake|\Z)', log, re.S)
    if not m:
        return {"file": "?", "line": 0, "error": log[-800:]}
    return {"file": m.group(1), "line": int(m.group(2)), "error": m.group(3).strip()[:800]}


def theorem_at(path, line):
    """Name of the Theorem/Lemma enclosing the given line of a .v file."""
    try:
        lines = (COQ / path).read_text().splitlines()
    except OSError:
        return "?"
    for i in range(min(line, len(lines)) - 1, -1, -1):
        m = re.match(r"\s*(Theorem|Lemma|Corollary|Example|Fact|Definition|Fixpoint)\s+([A-Za-z0-9_']+)", lines[i])
        if m:
            return m.group(2)
    return "?"


def coq_props(pid, allowed_axioms=()):
    """Compiles Props/<pid>.v and reads theorem names and Print Assumptions output."""
    src = COQ / "theories" / "Props" / (pid + ".v")
    text = src.read_text()
    theorems = re.findall(r"^\s*Theorem\s+([A-Za-z0-9_']+)", text, re.M)
    printed = re.findall(r"^\s*Print Assumptions\s+([A-Za-z0-9_']+)\s*\.", text, re.M)
    # every theorem must be closed by `exact` and be printed
    problems = []
    for t in theorems:
        if t not in printed:
            problems.append("theorem %s has no Print Assumptions" % t)
    rc, out = sh(["coqc", "-Q", "theories", "Tele", "-w", "-notation-overridden", str(src.relative_to(COQ))], cwd=COQ, timeout=1200)
    if rc != 0:
        return {"ok": False, "theorems": theorems, "log": out[-3000:], "assumptions": {}, "problems": problems}
    blocks = re.split(r"(?m)^(?=Closed under the global context|Axioms:)", out)
    blocks = [b for b in blocks if b.startswith("Closed under") or b.startswith("Axioms:")]
    assumptions = {}
    for name, b in zip(printed, blocks):
        if b.startswith("Closed under"):
            assumptions[name] = []
        else:
            axs = re.findall(r"^([A-Za-z0-9_.']+)\s*:", b, re.M)
            assumptions[name] = axs
            for a in axs:
                if a.split(".")[-1] not in allowed_axioms and a not in allowed_axioms:
                    problems.append("theorem %s depends on axiom %s" % (name, a))
    if len(blocks) != len(printed):
        problems.append("expected %d Print Assumptions outputs, saw %d" % (len(printed), len(blocks)))
    return {"ok": not problems, "theorems": theorems, "assumptions": assumptions, "problems": problems, "log": out[-1500:]}


# ---------------------------------------------------------------- extraction / ocaml

def _hash_files(paths):
    h = hashlib.sha256()
    for p in sorted(paths):
        h.update(str(p).encode())
        h.update(Path(p).read_bytes())
    return h.hexdigest()


def build_runner(name, model_deps):
    """Extracts theories/Extract/Ex<NAME>.v and builds ocaml/bin/<name>.
    model_deps: .vo targets (relative to coq/) the extraction file needs."""
    ex = COQ / "theories" / "Extract" / ("Ex%s.v" % name.upper())
    gen = OCAML / "gen"
    gen.mkdir(parents=True, exist_ok=True)
    (OCAML / "build").mkdir(exist_ok=True)
    (OCAML / "bin").mkdir(exist_ok=True)
    ok, log, _ = coq_make(model_deps)
    if not ok:
        return False, "model does not compile:\n" + log[-3000:]
    srcs = [ex, OCAML / "common.ml", OCAML / ("%s_main.ml" % name)] + \
           [COQ / d.replace(".vo", ".v") for d in model_deps] + list((COQ / "theories" / "Gen").glob("*.v")) + \
           list((COQ / "theories" / "Lib").glob("*.v")) + list((COQ / "theories" / "Model").glob("*.v"))
    stamp = OCAML / "build" / (name + ".stamp")
    digest = _hash_files(srcs)
    binp = OCAML / "bin" / name
    if binp.exists() and stamp.exists() and stamp.read_text() == digest:
        return True, "up to date"
    rc, out = sh(["coqc", "-Q", str(COQ / "theories"), "Tele", "-w", "-all", str(ex)], cwd=gen, timeout=900)
    if rc != 0:
        return False, "extraction failed:\n" + out[-3000:]
    ml = OCAML / "build" / (name + ".ml")
    with open(ml, "w") as f:
        for part in (gen / ("%s_model.ml" % name), OCAML / "common.ml", OCAML / ("%s_main.ml" % name)):
            f.write("# 1 \"%s\"\n" % part)
            f.write(part.read_text())
            f.write("\n")
    rc, out = sh(["ocamlfind", "ocamlopt", "-w", "-a", "-O3", "-inline", "100",
                  "-o", str(binp), str(ml)], cwd=OCAML / "build", timeout=900)
    if rc != 0:
        return False, "ocaml build failed:\n" + out[-3000:]
    stamp.write_text(digest)
    return True, "built"


# ---------------------------------------------------------------- scratch copy of /repo

@contextlib.contextmanager
def scratch_copy(rewrite=None):
    """Copy of /repo's current working tree with the harness injected.
    Removed (with its build output) when the context exits."""
    tmp = Path(tempfile.mkdtemp(prefix="verif-copy-"))
    try:
        dst = tmp / "repo"
        sh(["rsync", "-a", "--exclude", ".git", "--exclude", "node_modules", str(REPO) + "/", str(dst) + "/"], check=True)
        inj = HARNESS / "inject"
        if inj.exists():
            sh(["rsync", "-a", str(inj) + "/", str(dst) + "/"], check=True)
        for mod, sub in ((dst, "internal/verifh"), (dst / "godev", "internal/verifh")):
            target = mod / sub
            target.mkdir(parents=True, exist_ok=True)
            shutil.copytree(HARNESS / "vhlib", target / "vhlib", dirs_exist_ok=True)
        cmds = HARNESS / "cmd"
        for d in sorted(cmds.iterdir()):
            if not d.is_dir():
                continue
            where = "godev" if (d / "GODEV").exists() else "."
            shutil.copytree(d, dst / where / "internal" / "verifh" / d.name, dirs_exist_ok=True)
        # godev's vhlib import path differs
        gv = dst / "godev" / "internal" / "verifh"
        for p in gv.rglob("*.go"):
            t = p.read_text()
            t2 = t.replace('"golang.org/x/telemetry/internal/verifh/vhlib"', '"golang.org/x/telemetry/godev/internal/verifh/vhlib"')
            if t2 != t:
                p.write_text(t2)
        shims = HARNESS / "shim"
        if shims.exists():
            shutil.copytree(shims, dst / "internal" / "verifh" / "shim", dirs_exist_ok=True)
        if rewrite:
            rewrite(dst)
        yield dst
    finally:
        shutil.rmtree(tmp, ignore_errors=True)


def go_build(copy, harness, godev=False, tags="verif", race=False):
    cwd = copy / "godev" if godev else copy
    out = copy / ".." / ("bin-" + harness)
    cmd = ["go", "build", "-tags", tags]
    if race:
        cmd.append("-race")
    cmd += ["-o", str(out), "./internal/verifh/" + harness]
    rc, log = sh(cmd, cwd=cwd, timeout=1200)
    return rc == 0, log, out


# ---------------------------------------------------------------- known findings

def known_findings():
    res = []
    p = VERIF / "KNOWN_FINDINGS.txt"
    if not p.exists():
        return res
    for line in p.read_text().splitlines():
        line = line.strip()
        m = re.match(r"known:\s+property=(\S+)\s+class=(\S+)\s*(.*)", line)
        if m:
            res.append({"property": m.group(1), "class": m.group(2), "text": m.group(3)})
    return res


# ---------------------------------------------------------------- the generic check

class Suite:
    """One correspondence suite: a Go harness + an OCaml model runner."""

    def __init__(self, name, harness, runner, model_deps, quick_n, thorough_n, godev=False,
                 rule="", rewrite=None, extra_args=None, timeout=1500, race=False, tags="verif", coq_replay=None):
        self.name = name
        self.harness = harness
        self.runner = runner
        self.model_deps = model_deps
        self.quick_n = quick_n
        self.thorough_n = thorough_n
        self.godev = godev
        self.rule = rule
        self.rewrite = rewrite
        self.extra_args = extra_args or []
        self.coq_replay = coq_replay  # optional: pylib/coqreplay generator (lines, n) -> (.v source, cases)
        self.timeout = timeout
        self.race = race
        self.tags = tags


class Result:
    def __init__(self):
        self.violations = []   # (text, replay path)
        self.known = []
        self.notes = []


def parse_runner_output(out):
    diffs, props, done = [], [], None
    for line in out.splitlines():
        if line.startswith("DIFF "):
            p = line.split(" ", 3)
            diffs.append({"line": int(p[1]), "field": p[2], "detail": p[3] if len(p) > 3 else ""})
        elif line.startswith("PROP "):
            p = line.split(" ", 3)
            props.append({"line": int(p[1]), "class": p[2], "detail": p[3] if len(p) > 3 else ""})
        elif line.startswith("DONE "):
            done = dict(kv.split("=") for kv in line.split()[1:])
    return diffs, props, done


def run_check(spec, tier, seed, replay=None):
    """spec: dict from checks/<id>.py.  Returns exit status."""
    pid = spec["id"]
    t0 = time.time()
    res = Result()
    ev = {"property_id": pid, "tier": tier, "seed": seed, "level": "proof"}
    cov = {"checker_cmd": "make -C coq theories/Props/%s.vo (coqc 8.16.1, full .vo) + coqc theories/Props/%s.v (Print Assumptions)%s"
           % (pid, pid, "; coqchk -silent -o" if tier == "thorough" else ""),
           "trusted_base": spec.get("trusted_base", []) + BASE_TRUSTED}
    replays = VERIF / "replays"
    replays.mkdir(exist_ok=True)
    proof_broken = None
    corr_broken = None
    suites_info = []
    stats_total = {"evaluations": 0, "distinct_nontrivial": 0, "samples": []}

    with build_lock():
        gen = regen()
        cov["generated_constants"] = gen["table"]
        if "gofns_ok" in gen:
            cov["translated_functions_ok"] = gen["gofns_ok"]
        if not gen["ok"]:
            proof_broken = {"theorem": "Gen/Consts.v", "file": "harness/consts.spec",
                            "error": "translator could not regenerate the model constants/functions from the source:\n" + gen["log"]}
        bad = grep_gate()
        if bad:
            print("forbidden vernacular in the Coq development: %s" % "; ".join(bad))
            res.violations.append(("forbidden vernacular in development (framework defect): " + "; ".join(bad), None))
        props_target = "theories/Props/%s.vo" % pid
        if tier == "thorough":
            # clean rebuild of this property's closure: remove the property's own objects
            for pat in spec.get("own_objects", []):
                for f in COQ.glob(pat):
                    f.unlink()
        ok, log, wall = (False, "", 0.0)
        if not proof_broken:
            ok, log, wall = coq_make([props_target])
            cov["coq_build_s"] = round(wall, 1)
            if not ok:
                fs = coq_failure_summary(log)
                proof_broken = {"theorem": theorem_at(fs["file"], fs["line"]), "file": fs["file"],
                                "line": fs["line"], "error": fs["error"]}
        pr = {"theorems": [], "assumptions": {}, "problems": []}
        if not proof_broken:
            pr = coq_props(pid, spec.get("allowed_axioms", ()))
            if not pr["ok"]:
                proof_broken = {"theorem": "Props/%s.v" % pid, "file": "theories/Props/%s.v" % pid,
                                "error": "; ".join(pr["problems"]) or pr.get("log", "")}
        cov["obligations"] = max(1, len(pr["theorems"])) if pr["theorems"] else len(
            re.findall(r"^\s*Theorem\s", (COQ / "theories" / "Props" / (pid + ".v")).read_text(), re.M))
        cov["discharged"] = len([t for t in pr["theorems"] if t in pr["assumptions"]]) if not proof_broken else 0
        cov["theorems"] = pr["theorems"]
        cov["axioms_per_theorem"] = {k: v for k, v in pr["assumptions"].items() if v}
        cov["all_closed_under_global_context"] = all(not v for v in pr["assumptions"].values()) and bool(pr["assumptions"])
        if tier == "thorough" and not proof_broken and spec.get("coqchk", True):
            rc, out = sh(["coqchk", "-silent", "-o", "-Q", "theories", "Tele", "Tele.Props." + pid], cwd=COQ, timeout=3600)
            cov["coqchk"] = {"ok": rc == 0, "tail": out[-1500:]}
            if rc != 0:
                proof_broken = {"theorem": "coqchk", "file": "Props/%s.vo" % pid, "error": out[-1500:]}
        # model runners
        runner_ok = {}
        for s in spec["suites"]:
            okr, logr = build_runner(s.runner, s.model_deps)
            runner_ok[s.runner] = (okr, logr)

    escalate = proof_broken is not None
    # correspondence suites
    for s in spec["suites"]:
        okr, logr = runner_ok[s.runner]
        info = {"suite": s.name, "rule": s.rule}
        suites_info.append(info)
        if not okr:
            corr_broken = corr_broken or {"suite": s.name, "error": "model runner unavailable: " + logr[-1500:]}
            info["error"] = logr[-500:]
            continue
        n = s.thorough_n if (tier == "thorough" or escalate) else s.quick_n
        with scratch_copy(rewrite=s.rewrite) as copy:
            okb, logb, binp = go_build(copy, s.harness, godev=s.godev, race=s.race, tags=s.tags)
            if not okb:
                # the harness does not build against the current tree: the tie is broken
                corr_broken = corr_broken or {"suite": s.name, "error": "harness does not build against the working tree:\n" + logb[-2500:]}
                info["error"] = logb[-800:]
                continue
            cases = copy / ".." / ("cases-%s.txt" % s.name)
            th = time.time()
            rc, outh = sh([str(binp), str(cases), str(n)] + s.extra_args, cwd=copy / ("godev" if s.godev else "."),
                          timeout=s.timeout, extra_env={"VERIF_SEED": str(seed), "VERIF_TIER": tier})
            info["harness_s"] = round(time.time() - th, 1)
            if rc != 0 or not cases.exists():
                corr_broken = corr_broken or {"suite": s.name, "error": "harness failed (exit %d):\n%s" % (rc, outh[-2500:])}
                info["error"] = outh[-800:]
                continue
            tm = time.time()
            rc, outm = sh([str(OCAML / "bin" / s.runner), str(cases)], timeout=s.timeout)
            info["model_s"] = round(time.time() - tm, 1)
            diffs, props, done = parse_runner_output(outm)
            if rc != 0 or done is None:
                corr_broken = corr_broken or {"suite": s.name, "error": "model runner failed:\n" + outm[-2000:]}
                continue
            st = json.loads(Path(str(cases) + ".stats.json").read_text())
            info.update({"evaluations": st["evaluations"], "distinct_nontrivial": st["distinct_nontrivial"],
                         "kinds": st["kinds"], "distribution": st["distribution"],
                         "model_agrees": len(diffs) == 0, "diffs": len(diffs), "oracle_failures": len(props)})
            stats_total["evaluations"] += st["evaluations"]
            stats_total["distinct_nontrivial"] += st["distinct_nontrivial"]
            stats_total["samples"] += st["samples"][:3]
            lines = cases.read_text().splitlines()
            if s.coq_replay and not diffs:
                # the same observations against the model evaluated INSIDE Coq (kernel VM): independent of the
                # extraction and of the OCaml glue
                src, ncases = s.coq_replay(lines, 1200 if tier == "thorough" else 120)
                if src:
                    rv = copy / ".." / ("Replay_%s.v" % s.name)
                    rv.write_text(src)
                    tr = time.time()
                    with build_lock():
                        rc, outr = sh(["coqc", "-Q", str(COQ / "theories"), "Tele", str(rv)], cwd=copy / "..", timeout=1800)
                    m = re.search(r"bad\s*=\s*(\[[^\]]*\])", outr)
                    info["coq_replay"] = {"cases": ncases, "seconds": round(time.time() - tr, 1),
                                          "disagreeing": m.group(1) if m else None, "ok": rc == 0 and bool(m) and m.group(1).replace(" ", "") == "[]"}
                    if not info["coq_replay"]["ok"]:
                        corr_broken = corr_broken or {"suite": s.name, "error": "in-Coq replay (vm_compute of the model itself on the implementation's "
                                                      "observations) disagrees or failed: %s\n%s" % (info["coq_replay"]["disagreeing"], outr[-1500:])}
            kf = [k for k in known_findings() if k["property"] == pid]
            seen_known = set()
            for p in props:
                k = next((k for k in kf if k["class"] == p["class"]), None)
                if k:
                    if k["class"] not in seen_known:
                        seen_known.add(k["class"])
                        res.known.append("%s (e.g. case %d of suite %s: %s)" % (k["text"], p["line"], s.name, p["detail"][:200]))
                    continue
                rp = replays / ("%s-%s-%d-%d.txt" % (pid, s.name, seed, p["line"]))
                rp.write_text("property: %s\nsuite: %s\nclause: %s\nseed: %d tier: %s cases: %d case-number: %d\n"
                              "detail: %s\ncase (wire format, inputs and implementation observations):\n%s\n"
                              "re-run: VERIF_SEED=%d bin/check %s %s   (the harness is deterministic in the seed)\n"
                              % (pid, s.name, p["class"], seed, tier, n, p["line"], p["detail"],
                                 lines[p["line"] - 1] if p["line"] - 1 < len(lines) else "?", seed, pid, tier))
                res.violations.append(("suite %s clause %s: %s" % (s.name, p["class"], p["detail"][:300]), rp))
                if len(res.violations) >= 5:
                    break
            if diffs and not corr_broken:
                d = diffs[0]
                corr_broken = {"suite": s.name, "error": "model and implementation differ on case %d field %s: %s"
                               % (d["line"], d["field"], d["detail"][:500]),
                               "case": lines[d["line"] - 1] if d["line"] - 1 < len(lines) else "?", "ndiffs": len(diffs)}

    # a hook for property-specific extra steps
    if spec.get("extra"):
        spec["extra"](spec, tier, seed, res, cov)

    if (proof_broken or corr_broken) and not res.violations:
        rp = replays / ("%s-unproved-%d.txt" % (pid, seed))
        txt = "property: %s\n" % pid
        if proof_broken:
            txt += "proof obligation that no longer checks: %s (%s line %s)\n%s\n" % (
                proof_broken.get("theorem"), proof_broken.get("file"), proof_broken.get("line", "?"), proof_broken.get("error"))
        if corr_broken:
            txt += "correspondence that no longer checks: suite %s\n%s\n" % (corr_broken.get("suite"), corr_broken.get("error"))
            if corr_broken.get("case"):
                txt += "first differing case (wire format):\n%s\n" % corr_broken["case"]
        txt += "searched the model and the implementation with the escalated budget; no input on which the property itself fails was found\n"
        rp.write_text(txt)
        res.violations.append(("no-failing-input-found", rp))

    for k in res.known:
        print("KNOWN-FINDING: property=%s %s" % (pid, k))
    for text, rp in res.violations:
        if text == "no-failing-input-found":
            what = (proof_broken or {}).get("theorem") or (corr_broken or {}).get("suite")
            print("broken: %s" % (json.dumps(proof_broken or corr_broken)[:1500]))
            print("VIOLATION property=%s replay=%s (%s) no-failing-input-found" % (pid, rp, what))
        else:
            print("violation detail: %s" % text)
            print("VIOLATION property=%s replay=%s" % (pid, rp))

    cov.update({"evaluations": stats_total["evaluations"], "distinct_nontrivial": stats_total["distinct_nontrivial"],
                "rule": " | ".join("%s: %s" % (s.name, s.rule) for s in spec["suites"]),
                "samples": stats_total["samples"] or ["(no correspondence cases ran)"],
                "suites": suites_info,
                "proof_status": "broken: %s" % json.dumps(proof_broken)[:600] if proof_broken else "all theorems re-checked",
                "correspondence_status": "broken: %s" % json.dumps(corr_broken)[:600] if corr_broken else "model = implementation on every case",
                "known_findings_reported": res.known})
    if proof_broken:
        cov["discharged"] = 0
    ev["coverage"] = cov
    ev["assumptions"] = spec.get("assumptions", [])
    ev["wall_s"] = round(time.time() - t0, 1)
    ev["violations"] = len(res.violations)
    evdir = VERIF / "evidence"
    if str(REPO) != "/repo":
        # a run against a mutated copy must not overwrite the evidence of the real tree
        evdir = Path(tempfile.gettempdir()) / "verif-evidence-other-tree"
    evdir.mkdir(exist_ok=True)
    (evdir / (pid + ".json")).write_text(json.dumps(ev, indent=1))
    print("%s %s: theorems=%d discharged=%d cases=%d violations=%d known=%d wall=%.0fs" % (
        pid, tier, cov["obligations"], cov["discharged"], cov["evaluations"], len(res.violations), len(res.known), ev["wall_s"]))
    return 1 if res.violations else 0


BASE_TRUSTED = [
    "Coq 8.16.1 kernel incl. its bytecode VM (vm_compute used in finite sweeps); native_compute not used",
    "no axioms declared; Print Assumptions output per theorem is in coverage.axioms_per_theorem (empty = Closed under the global context)",
    "translator harness/tools/goconsts (go/types constant evaluation of the working tree -> Gen/Consts.v)",
    "extraction: Require Extraction + ExtrOcamlBasic only (bool, option, pair, list, unit, sumbool -> OCaml natives); N/Z/positive/nat stay extracted inductives; no Extract Constant / Extract Inductive of our own",
    "OCaml glue ocaml/common.ml + per-suite driver (wire format <-> extracted datatypes, printing)",
    "Go harness, its generators and the injected exporters under harness/ (tag verif, copied into a scratch copy; /repo itself has no hooks)",
    "the Go code is modelled, not verified: the theorems are about the Gallina model; model = code is sampled by the correspondence suites",
]
