"""In-Coq replay: turns a sample of a suite's case lines (inputs + what the implementation did) into a Coq
file whose `Eval vm_compute` re-evaluates the MODEL ITSELF (no extraction, no OCaml glue) and prints the list of
disagreeing case indices.  `= []` means the kernel-evaluated model agrees with the implementation on the sample."""


def z(tok):
    assert tok[0] == "i", tok
    t = tok[1:]
    neg = t.startswith("-")
    v = int(t[1:] if neg else t, 16)
    return "(%s%d)" % ("-" if neg else "", v)


def nat(tok):
    return "%d%%nat" % int(tok[1:], 16)


def bytes_(tok):
    assert tok[0] == "h", tok
    b = bytes.fromhex(tok[1:])
    return "[" + "; ".join(str(x) for x in b) + "]%N"


def boolean(tok):
    return "true" if int(tok[1:], 16) != 0 else "false"


HEADER = """From Coq Require Import List ZArith NArith Bool.
From Tele Require Import %s.
Import ListNotations.
Open Scope Z_scope.
"""


def conc(lines, n):
    """C03 suite conc: lock-step replay of Model/CounterConc."""
    out = []
    for ln in lines:
        t = ln.split()
        if not t or t[0] != "conc" or t[2] != "ok":
            continue
        iw, ip, ic, ipers, full, tight = t[3:9]
        nth = int(t[11][1:], 16)
        pos = 12
        threads = []
        for _ in range(nth):
            k, a = t[pos], t[pos + 1]
            pos += 2
            threads.append({"add": "adder %s" % z(a), "rot": "changer NewFile", "rotf": "changer FullFile", "ext": "changer SameFile"}[k])
        nsteps = int(t[pos][1:], 16)
        pos += 1
        if nsteps > 120:
            continue
        steps = []
        for _ in range(nsteps):
            tid, w, p, cu, pers, ncl, _done = t[pos:pos + 7]
            pos += 7
            steps.append("(%s, (%s, %s, %s, %s, %s))" % (nat(tid), z(w), z(p), z(cu), z(pers), z(ncl)))
        out.append("((init_of %s %s %s %s %s %s, [%s]), [%s])" % (z(iw), z(ip), z(ic), z(ipers), boolean(full), boolean(tight),
                                                                "; ".join(threads), "; ".join(steps)))
        if len(out) >= n:
            break
    if not out:
        return None, 0
    src = HEADER % "Model.CounterConc"
    src += "Definition cases : list (state * list (nat * (Z * Z * Z * Z * Z))) := [\n  " + ";\n  ".join(out) + "].\n"
    src += "Definition bad := Eval vm_compute in lockstep_failures cases.\nPrint bad.\n"
    return src, len(out)


def span(lines, n):
    """C09 suite span: span and share cases of Model/Span."""
    sp, sh = [], []
    for ln in lines:
        t = ln.split()
        if not t:
            continue
        if t[0] == "span" and len(sp) < n:
            now, wk, errs, b, e = t[1:6]
            sp.append("(%s, %s, %s, %s, %s)" % (z(now), bytes_(wk), "true" if errs == "err" else "false", z(b), z(e)))
        elif t[0] == "share" and len(sh) < n:
            now0, w0, now1, w1, opened, _same, b2, e2 = t[1:9]
            sh.append("(%s, %s, %s, %s, %s, %s, %s)" % (z(now0), z(w0), z(now1), z(w1), boolean(opened), z(b2), z(e2)))
    if not sp and not sh:
        return None, 0
    src = HEADER % "Lib.Bytes Model.Span"
    src += "Definition spans : list (Z * bytes * bool * Z * Z) := [\n  " + ";\n  ".join(sp) + "].\n"
    src += "Definition shares : list (Z * Z * Z * Z * bool * Z * Z) := [\n  " + ";\n  ".join(sh) + "].\n"
    src += "Definition bad := Eval vm_compute in (failing_from span_case_ok 0 spans ++ failing_from share_case_ok 0 shares)%list.\nPrint bad.\n"
    return src, len(sp) + len(sh)
