(* cli_main.ml: evaluates the extracted Model/Cli on the observations of
   harness vh_cli (the real gotelemetry binary and the real Dir.Mode /
   SetModeAsOf). *)

let rec read_node c =
  match next c with
  | "F" -> File (next_bytes c)
  | "D" -> Dir (read_ents c)
  | t -> failwith ("bad node tag " ^ t)
and read_ents c =
  let k = next_int c in
  let rec go i acc =
    if i = 0 then List.rev acc
    else begin
      let name = next_bytes c in
      let v = read_node c in
      go (i - 1) ((name, v) :: acc)
    end in
  go k []
let read_tree c =
  match next c with
  | "A" -> None
  | "T" -> Some (read_ents c)
  | t -> failwith ("bad tree tag " ^ t)

(* entry order is not observable in a directory: compare sorted *)
let rec norm_node = function
  | File d -> File d
  | Dir es -> Dir (norm_ents es)
and norm_ents es =
  List.sort Stdlib.compare (List.map (fun (k, v) -> (k, norm_node v)) es)
let norm_tree = function None -> None | Some es -> Some (norm_ents es)

let esc b = String.escaped (string_of_bytes b)
let rec show_ents prefix es =
  String.concat " " (List.map (fun (k, v) ->
      let p = prefix ^ esc k in
      match v with
      | File d -> Printf.sprintf "%s=\"%s\"" p (esc d)
      | Dir sub -> Printf.sprintf "%s/ %s" p (show_ents (p ^ "/") sub)) es)
let show_tree = function None -> "(absent)" | Some es -> "[" ^ show_ents "" es ^ "]"

let cmd_of = function
  | "on" -> CMode On | "local" -> CMode Local | "off" -> CMode Off
  | "clean" -> CClean | "env" -> CEnv
  | s -> failwith ("bad command " ^ s)

let tail_utc = bytes_of_string " 00:00:00 +0000 UTC\n"
let mode_colon = bytes_of_string "mode: "
let sp = bytes_of_string " "

let handle kind c =
  match kind with
  | "step" ->
    let arg = next c in
    let cmd = cmd_of arg in
    let now = next_z c in
    let off = next_z c in
    let today = utc_day now in
    let tmp_name = next c in
    let tmp = (match tmp_name with
        | "default" -> TmpDefault | "samefs" -> TmpSameFs | "otherfs" -> TmpOtherFs
        | "missing" -> TmpMissing | "notdir" -> TmpNotDir
        | t -> failwith ("bad TMPDIR kind " ^ t)) in
    let tmp_changed = next_bool c in
    let before = read_tree c in
    let after = read_tree c in
    let exit = next_int c in
    let stdout = next_bytes c in
    let tdir = next_bytes c in
    let env_after = next_bytes c in
    let lib_mode = next_bytes c in
    let lib_date = next_bytes c in
    let ok = exit = 0 in
    (* model vs implementation *)
    let (mt, mok) = cli_run_env cmd now off tmp before in
    check_eq "tree-after" show_tree (norm_tree mt) (norm_tree after);
    check_eq "exit-ok" string_of_bool mok ok;
    check_eq "env-after" esc (cli_env_output tdir after) env_after;
    let (rm, rd) = cli_read_mode after in
    check_eq "lib-mode" esc rm lib_mode;
    check_eq "lib-date" esc (date_or_zero rd) lib_date;
    if cmd = CEnv then check_eq "env-stdout" esc (cli_env_output tdir before) stdout;
    (* the property on the real before/after pair *)
    let detail () = Printf.sprintf "cmd=%s TMPDIR=%s utc-date=%s zone-offset=%ss local-date=%s exit=%d before=%s after=%s" arg tmp_name
        (string_of_bytes (fmt_date today)) (match off with Z0 -> "0" | Zpos _ -> "+" ^ string_of_int (int_of_z off) | Zneg _ -> string_of_int (int_of_z off))
        (string_of_bytes (fmt_date (local_day now off))) exit (show_tree before) (show_tree after) in
    if tmp_changed then
      prop "tmpdir-touched" ("the command left the temporary directory changed: " ^ detail ());
    (match cmd with
     | CClean ->
       if not (dir_diff_ok cmd today before after ok) then prop "clean-exact" (detail ())
     | CEnv ->
       if not (dir_diff_ok cmd today before after ok) then prop "env-inert" (detail ())
     | CMode m ->
       let want = mode_str m in
       let noop = beq (fst (cli_read_mode before)) want in
       if noop && not (tree_eqb before after) then prop "mode-noop" (detail ())
       else if not (match before, after with
                    | None, None -> true
                    | _, _ -> others_same (ents before) (ents after)) then prop "mode-frame" (detail ())
       else if not (dir_diff_ok cmd today before after ok) then prop "mode-sets" (detail ())
       else if ok then begin
         (* a later library read and a later `env` report the requested mode
            (and, when the file was written, today's date) *)
         if not (beq lib_mode want) then
           prop "mode-readback" (Printf.sprintf "library Mode()=%s after %s; %s" (esc lib_mode) arg (detail ()));
         let line = app mode_colon (app want sp) in
         let line = if noop then line else app line (app (fmt_date today) tail_utc) in
         if not (has_prefix env_after line) then
           prop "mode-readback" (Printf.sprintf "env prints %s after %s; %s" (esc env_after) arg (detail ()));
         if (not noop) && not (beq lib_date (fmt_date today)) then
           prop "mode-readback" (Printf.sprintf "library date=%s after %s; %s" (esc lib_date) arg (detail ()))
       end)
  | "nodir" ->
    let arg = next c in
    let cmd = cmd_of arg in
    let off = next_z c in
    let before = read_tree c in
    let after = read_tree c in
    let exit = next_int c in
    let stdout = next_bytes c in
    ignore off;
    check_eq "nodir-exit-ok" string_of_bool (cli_run_nodir cmd) (exit = 0);
    if cmd = CEnv then check_eq "nodir-env-stdout" esc cli_env_output_nodir stdout;
    (* no telemetry directory: nothing anywhere may be read as a mode, rewritten or cleaned *)
    if not (tree_eqb before after) then
      prop "nodir-inert" (Printf.sprintf "cmd=%s without a user configuration directory changed the working directory: before=%s after=%s"
                            arg (show_tree before) (show_tree after))
  | "setmode" ->
    let m = next_bytes c in
    let now = next_z c in
    let off = next_z c in
    let day = utc_day now in
    let before = read_tree c in
    let after = read_tree c in
    let ok = next_bool c in
    let lib_mode = next_bytes c in
    let lib_date = next_bytes c in
    let (mt, mok) = cli_set_mode_at m now off before in
    check_eq "setmode-tree" show_tree (norm_tree mt) (norm_tree after);
    check_eq "setmode-ok" string_of_bool mok ok;
    let (rm, rd) = cli_read_mode after in
    check_eq "setmode-lib-mode" esc rm lib_mode;
    check_eq "setmode-lib-date" esc (date_or_zero rd) lib_date;
    if ok && not (beq lib_mode m && beq lib_date (fmt_date day)) then
      prop "mode-readback" (Printf.sprintf "SetModeAsOf(%s, instant %s s in zone %+d s: UTC date %s, zone's date %s) reads back as %s %s" (esc m)
                             (tok_of_z now) (int_of_z off) (string_of_bytes (fmt_date day)) (string_of_bytes (fmt_date (local_day now off)))
                             (esc lib_mode) (esc lib_date))
  | "readmode" ->
    let data = next_bytes c in
    let lib_mode = next_bytes c in
    let lib_date = next_bytes c in
    let (rm, rd) = cli_mode_parse data in
    check_eq "readmode-mode" esc rm lib_mode;
    check_eq "readmode-date" esc (date_or_zero rd) lib_date
  | k -> diff "unknown-case-kind" ~model:k ~impl:"-"

let () = run_file Sys.argv.(1) handle
