(* report_main.ml: evaluates the extracted Model/Config + Model/Report on the
   observations of harness vh_report (property C01). *)

let next_strs c = next_list c next_bytes
let next_cc c = next_list c (fun c -> let nm = next_bytes c in let r = next_n c in { cc_name = nm; cc_rate = r })
let next_cfg c =
  let goos = next_strs c in
  let goarch = next_strs c in
  let gov = next_strs c in
  let sample = next_n c in
  let progs = next_list c (fun c ->
      let nm = next_bytes c in
      let vs = next_strs c in
      let cs = next_cc c in
      let ss = next_cc c in
      { pc_name = nm; pc_versions = vs; pc_counters = cs; pc_stacks = ss }) in
  { uc_goos = goos; uc_goarch = goarch; uc_goversion = gov; uc_sample = sample; uc_programs = progs }
let next_ident c =
  let p = next_bytes c in let v = next_bytes c in let g = next_bytes c in
  let o = next_bytes c in let a = next_bytes c in
  { id_program = p; id_version = v; id_goversion = g; id_goos = o; id_goarch = a }
let next_file c =
  let i = next_ident c in
  let counts = next_list c (fun c -> let k = next_bytes c in let v = next_n c in (k, v)) in
  (* does the implementation's parser read the written file as the reference reading does *)
  if not (next_bool c) then
    diff "count-file-parse" ~model:"the counters written" ~impl:("another reading / refused: file of " ^ String.escaped (string_of_bytes i.id_program));
  { f_ident = i; f_counts = counts }
let next_map c = next_list c (fun c -> let k = next_bytes c in let v = next_z c in (k, v))
let next_report c =
  let week = next_bytes c in
  let lastweek = next_bytes c in
  let x = next_n c in
  let cfgv = next_bytes c in
  let progs = next_list c (fun c ->
      let i = next_ident c in
      let cs = next_map c in
      let ss = next_map c in
      (i, (cs, ss))) in
  { r_week = week; r_lastweek = lastweek; r_x = x; r_config = cfgv; r_programs = progs }

let sort_map m = List.sort (fun (a, _) (b, _) -> Stdlib.compare (string_of_bytes a) (string_of_bytes b)) m
let norm_report r =
  { r with r_programs = List.map (fun (i, (cs, ss)) -> (i, (sort_map cs, sort_map ss))) r.r_programs }

let show_ident i =
  String.concat "|" (List.map (fun b -> String.escaped (string_of_bytes b))
                       [i.id_program; i.id_version; i.id_goversion; i.id_goos; i.id_goarch])
let show_map m = String.concat "," (List.map (fun (k, v) -> String.escaped (string_of_bytes k) ^ "=" ^ tok_of_z v) m)
let show_report r =
  Printf.sprintf "week=%s last=%s x=%s cfg=%s progs=[%s]" (string_of_bytes r.r_week) (string_of_bytes r.r_lastweek)
    (tok_of_n r.r_x) (string_of_bytes r.r_config)
    (String.concat "; " (List.map (fun (i, (cs, ss)) ->
         Printf.sprintf "<%s> C{%s} S{%s}" (show_ident i) (show_map cs) (show_map ss)) r.r_programs))

let class_name = function
  | FHeader -> "header" | FProgUnapproved -> "program-unapproved" | FProgUnknown -> "program-unknown"
  | FProgDup -> "program-duplicate" | FCounterName -> "counter-name" | FCounterRate -> "counter-rate"
  | FStackName -> "stack-name" | FStackRate -> "stack-rate" | FRateShared -> "rate-table-shared"
  | FValueSum -> "value-sum" | FValueWrap -> "value-wrap" | FIncomplete -> "incomplete"

let report_failures fs =
  (* one PROP line per class, with the first few names *)
  let classes = List.sort_uniq Stdlib.compare (List.map (fun (c, _) -> class_name c) fs) in
  List.iter (fun cn ->
      let names = List.filter_map (fun (c, k) -> if class_name c = cn then Some (String.escaped (string_of_bytes k)) else None) fs in
      let names = List.filteri (fun i _ -> i < 4) names in
      prop cn (String.concat " ; " names)) classes

let show_strs l = String.concat "," (List.map (fun b -> String.escaped (string_of_bytes b)) l)

let handle kind c =
  match kind with
  | "expand" ->
    let name = next_bytes c in
    let got = next_strs c in
    check_eq "expand" show_strs (expand name) got
  | "cfg" ->
    let u = next_cfg c in
    let t = new_config u in
    let np = next_int c in
    for _ = 1 to np do
      let prog = next_bytes c in
      let name = next_bytes c in
      let tag s = s ^ "(" ^ String.escaped (string_of_bytes prog) ^ "," ^ String.escaped (string_of_bytes name) ^ ")" in
      let b field m = let i = next_bool c in check_eq (tag field) string_of_bool m i in
      b "HasProgram" (has_program t prog);
      b "HasVersion" (has_version t prog name);
      b "HasCounter" (has_counter t prog name);
      b "HasCounterPrefix" (has_counter_prefix t prog name);
      b "HasStack" (has_stack t prog name);
      let r = next_n c in
      check_eq (tag "Rate") tok_of_n (rate t prog name) r;
      let os = next_bytes c in b "HasGOOS" (has_goos t os);
      let ar = next_bytes c in b "HasGOARCH" (has_goarch t ar);
      let gv = next_bytes c in b "HasGoVersion" (has_goversion t gv)
    done
  | "report" ->
    let gate = next_bool c in
    let u = next_cfg c in
    let cfgv = next_bytes c in
    let week = next_bytes c in
    let lastweek = next_bytes c in
    let files = next_list c next_file in
    let x = next_n c in
    let remaining = next_int c in
    let outcome = next c in
    let model = create_report gate u cfgv week lastweek x files in
    let nfiles = List.length files in
    (match outcome, model with
     | "none", None ->
       if remaining <> nfiles then diff "count-files-kept" ~model:(string_of_int nfiles) ~impl:(string_of_int remaining)
     | "none", Some _ -> diff "outcome" ~model:"report" ~impl:"none"
     | "local", Some (ml, mu) ->
       let shape = next_bool c in
       let il = next_report c in
       if not shape then prop "extra-fields" "local report has members outside the report format";
       check_eq "local-report" show_report (norm_report ml) (norm_report il);
       (match mu with Some _ -> diff "outcome" ~model:"upload report written" ~impl:"local only" | None -> ());
       if remaining <> 0 then diff "count-files-deleted" ~model:"0" ~impl:(string_of_int remaining);
       report_failures (local_check files il)
     | "both", Some (ml, mu) ->
       let shape = next_bool c in
       let il = next_report c in
       let iu = next_report c in
       if not shape then prop "extra-fields" "a report has members outside the report format";
       check_eq "local-report" show_report (norm_report ml) (norm_report il);
       (match mu with
        | None -> diff "outcome" ~model:"local only" ~impl:"upload report written"
        | Some mu -> check_eq "upload-report" show_report (norm_report mu) (norm_report iu));
       if remaining <> 0 then diff "count-files-deleted" ~model:"0" ~impl:(string_of_int remaining);
       report_failures (local_check files il);
       (* the property's oracle on the IMPLEMENTATION's upload report *)
       report_failures (report_check u files il iu)
     | o, None -> diff "outcome" ~model:"none" ~impl:o
     | o, _ -> diff "outcome" ~model:"?" ~impl:o);
    (match next c with
     | "posted" ->
       let nposts = next_int c in
       let ok_new = next_bool c in
       let ok_old = next_bool c in
       if nposts <> 2 then diff "posts" ~model:"2" ~impl:(string_of_int nposts);
       if not ok_new then prop "posted-verbatim" "the POSTed body differs from local/<week>.json";
       if not ok_old then prop "posted-verbatim" "the POSTed body of a leftover report differs from its file"
     | _ -> ())
  | "seq" ->
    (* several runs of one process on one directory; every run is judged on
       the count files as they are at that run *)
    let u = next_cfg c in
    let cfgv = next_bytes c in
    let nruns = next_int c in
    for run = 1 to nruns do
      let start = next_z c in
      let week = next_bytes c in
      let lastweek = next_bytes c in
      let x = next_n c in
      let d = next_list c (fun c ->
          let name = next_bytes c in
          let e = next_z c in
          let f = next_file c in
          { d_name = name; d_end = e; d_file = f }) in
      let remaining = next_int c in
      let outcome = next c in
      let p = { rp_gate = true; rp_cfg = u; rp_cfgver = cfgv; rp_week = week; rp_lastweek = lastweek;
                rp_x = x; rp_start = start } in
      let (model, deleted) = run_uploader p d in
      let files = List.map (fun e -> e.d_file) (expired_now start d) in
      let tag s = Printf.sprintf "run%d-%s" run s in
      let mremaining = List.length d - List.length deleted in
      if remaining <> mremaining then
        diff (tag "count-files-left") ~model:(string_of_int mremaining) ~impl:(string_of_int remaining);
      (match outcome, model with
       | "none", None -> ()
       | "none", Some _ -> diff (tag "outcome") ~model:"report" ~impl:"none"
       | "local", Some (ml, mu) ->
         let shape = next_bool c in
         let il = next_report c in
         if not shape then prop "extra-fields" "local report has members outside the report format";
         check_eq (tag "local-report") show_report (norm_report ml) (norm_report il);
         (match mu with Some _ -> diff (tag "outcome") ~model:"upload report written" ~impl:"local only" | None -> ());
         report_failures (local_check files il)
       | "both", Some (ml, mu) ->
         let shape = next_bool c in
         let il = next_report c in
         let iu = next_report c in
         if not shape then prop "extra-fields" "a report has members outside the report format";
         check_eq (tag "local-report") show_report (norm_report ml) (norm_report il);
         (match mu with
          | None -> diff (tag "outcome") ~model:"local only" ~impl:"upload report written"
          | Some mu -> check_eq (tag "upload-report") show_report (norm_report mu) (norm_report iu));
         report_failures (local_check files il);
         report_failures (report_check u files il iu)
       | ("local" | "both") as o, None ->
         (* reports although the model has none: still judge them on the current files *)
         let _shape = next_bool c in
         let il = next_report c in
         diff (tag "outcome") ~model:"none" ~impl:o;
         report_failures (local_check files il);
         if o = "both" then begin
           let iu = next_report c in
           report_failures (report_check u files il iu)
         end
       | o, _ -> diff (tag "outcome") ~model:"?" ~impl:o)
    done
  | "weeks" ->
    (* one run; the expired files end on one date at several instants / zones, or on two dates *)
    let u = next_cfg c in
    let cfgv = next_bytes c in
    let lastweek = next_bytes c in
    let x = next_n c in
    let l = next_list c (fun c -> let w = next_bytes c in let f = next_file c in (w, f)) in
    let remaining = next_int c in
    let nlabels = next_int c in
    let model = week_reports true u cfgv lastweek x l in
    let mdeleted = List.fold_left (fun acc (w, r) ->
        match r with Some _ -> acc + List.length (week_files w l) | None -> acc) 0 model in
    if remaining <> List.length l - mdeleted then
      diff "weeks-count-files-left" ~model:(string_of_int (List.length l - mdeleted)) ~impl:(string_of_int remaining);
    if nlabels <> List.length model then
      diff "weeks-labels" ~model:(string_of_int (List.length model)) ~impl:(string_of_int nlabels);
    for _ = 1 to nlabels do
      let w = next_bytes c in
      let outcome = next c in
      let files = week_files w l in
      let mr = (match List.assoc_opt w model with Some r -> r | None -> None) in
      let tag s = "week<" ^ string_of_bytes w ^ ">-" ^ s in
      (match outcome, mr with
       | "none", None -> ()
       | "none", Some _ -> diff (tag "outcome") ~model:"report" ~impl:"none"
       | ("local" | "both") as o, _ ->
         let shape = next_bool c in
         let il = next_report c in
         if not shape then prop "extra-fields" "a report has members outside the report format";
         (match mr with
          | Some (ml, _) -> check_eq (tag "local-report") show_report (norm_report ml) (norm_report il)
          | None -> diff (tag "outcome") ~model:"none" ~impl:o);
         report_failures (local_check files il);
         if o = "both" then begin
           let iu = next_report c in
           (match mr with
            | Some (_, Some mu) -> check_eq (tag "upload-report") show_report (norm_report mu) (norm_report iu)
            | Some (_, None) -> diff (tag "outcome") ~model:"local only" ~impl:"upload report written"
            | None -> ());
           (* the week's report must account for ALL expired files of that date *)
           report_failures (report_check u files il iu)
         end else (match mr with
             | Some (_, Some _) -> diff (tag "outcome") ~model:"upload report written" ~impl:"local only"
             | _ -> ())
       | o, _ -> diff (tag "outcome") ~model:"?" ~impl:o)
    done
  | "runs" ->
    (* the real upload.Run several times in one process; the configuration module publishes versions in between *)
    let nruns = next_int c in
    for run = 1 to nruns do
      let st = next_list c (fun c -> let v = next_bytes c in let u = next_cfg c in (v, u)) in
      let start = next_z c in
      let week = next_bytes c in
      let lastweek = next_bytes c in
      let x = next_n c in
      let d = next_list c (fun c ->
          let name = next_bytes c in
          let e = next_z c in
          let f = next_file c in
          { d_name = name; d_end = e; d_file = f }) in
      let posted_same = next_bool c in
      let remaining = next_int c in
      let outcome = next c in
      let (cfgv, u) = (match List.rev st with x :: _ -> x | [] -> failwith "empty store") in
      let p = { rp_gate = true; rp_cfg = u; rp_cfgver = cfgv; rp_week = week; rp_lastweek = lastweek;
                rp_x = x; rp_start = start } in
      let (model, deleted) = run_fetching st p d in
      let files = List.map (fun e -> e.d_file) (expired_now start d) in
      let tag s = Printf.sprintf "Run%d-%s" run s in
      let who = Printf.sprintf "Run %d of %d in one process (configuration %s is the newest published): " run nruns (string_of_bytes cfgv) in
      if not posted_same then prop "posted-verbatim" (who ^ "the POSTed body differs from the report file");
      let mremaining = List.length d - List.length deleted in
      if remaining <> mremaining then
        diff (tag "count-files-left") ~model:(string_of_int mremaining) ~impl:(string_of_int remaining);
      let judge fs = List.iter (fun (cl, k) -> ignore cl; ignore k) fs; report_failures fs in
      (match outcome, model with
       | "none", None -> ()
       | "none", Some _ -> diff (tag "outcome") ~model:"report" ~impl:"none"
       | "local", Some (ml, mu) ->
         let _shape = next_bool c in
         let il = next_report c in
         check_eq (tag "local-report") show_report (norm_report ml) (norm_report il);
         (match mu with Some _ -> diff (tag "outcome") ~model:"upload report written" ~impl:"local only" | None -> ());
         judge (local_check files il)
       | "both", Some (ml, mu) ->
         let shape = next_bool c in
         let il = next_report c in
         let iu = next_report c in
         if not shape then prop "extra-fields" (who ^ "a report has members outside the report format");
         check_eq (tag "local-report") show_report (norm_report ml) (norm_report il);
         (match mu with
          | None -> diff (tag "outcome") ~model:"local only" ~impl:"upload report written"
          | Some mu -> check_eq (tag "upload-report") show_report (norm_report mu) (norm_report iu));
         judge (local_check files il);
         (* the property's oracle under the configuration fetched for THIS run *)
         judge (report_check u files il iu)
       | ("local" | "both") as o, None ->
         let _shape = next_bool c in
         let il = next_report c in
         diff (tag "outcome") ~model:"none" ~impl:o;
         judge (local_check files il);
         if o = "both" then begin
           let iu = next_report c in
           judge (report_check u files il iu)
         end
       | o, _ -> diff (tag "outcome") ~model:"?" ~impl:o)
    done
  | "hang" ->
    let i = next_int c in
    prop "hang" (Printf.sprintf "case number %d of this run did not return within the watchdog's time" (i + 1))
  | "fds" ->
    let n0 = next_int c in
    let n1 = next_int c in
    if n1 > n0 + 16 then
      prop "fd-leak" (Printf.sprintf "%d file descriptors open before the run of all cases, %d after" n0 n1)
  | k -> diff "unknown-case-kind" ~model:k ~impl:"-"

let () = run_file Sys.argv.(1) handle
