(* crash_main.ml: evaluates the extracted Model/Crash on the observations of
   harness vh_crash and the executable oracles of property C14. *)
let limit = 4096
let marker = bytes_of_string "\ntruncated\n"
let fixed_name = bytes_of_string "crash/no-running-goroutine"
let crash_prefix_nl = bytes_of_string "crash/crash\n"

let next_frame c =
  let fn = next_bytes c in
  let hf = next_bool c in
  let line = next_z c in
  let off = next_n c in
  { fr_func = fn; fr_hasfunc = hf; fr_line = line; fr_off = off }

let show_b b = Printf.sprintf "%S" (string_of_bytes b)
let show_pcs l = String.concat "," (List.map (fun x -> hex_of_n x) l)
let rec starts_with (s : n list) (p : n list) =
  match p, s with
  | [], _ -> true
  | y :: p', x :: s' -> x = y && starts_with s' p'
  | _ :: _, [] -> false

type record = { child : n; text : n list; status : string; pcs : n list; frames : frame list; enc16 : n list; name : n list; decoded : n list }

let read_record c =
  let child = next_n c in
  let text = next_bytes c in
  let status = next c in
  if status <> "ok" then { child; text; status; pcs = []; frames = []; enc16 = []; name = []; decoded = [] }
  else begin
    let pcs = next_list c next_n in
    let frames = next_list c next_frame in
    let enc16 = next_bytes c in
    let name = next_bytes c in
    let decoded = next_bytes c in
    { child; text; status; pcs; frames; enc16; name; decoded }
  end

(* projection -> name, pcs -> name : what has been observed so far *)
let by_view : (string, (n list * n list)) Hashtbl.t = Hashtbl.create 4096
let by_pcs : (string, (n list * n list)) Hashtbl.t = Hashtbl.create 4096

let view_key child v =
  match v with
  | None -> None
  | Some (s, fs) ->
    Some (hex_of_n child ^ "/" ^ hex_of_n s ^ ":" ^
          String.concat "," (List.map (fun (pc, sp) -> hex_of_n pc ^ (if sp then "!" else "")) fs))

let short b = let s = string_of_bytes b in if String.length s > 300 then String.sub s 0 300 ^ "..." else s

let check_record (r : record) =
  if r.status = "panic" then prop "total" ("telemetryCounterName panicked on " ^ show_b r.text)
  else if r.status = "inconsistent" then diff "entry-points" ~model:"-" ~impl:"telemetryCounterName ok, parseStackPCs err"
  else begin
    let symb _ = r.frames in
    (match parse_stack_pcs r.child r.text, r.status with
     | Err, "err" -> ()
     | Err, _ -> diff "status" ~model:"err" ~impl:r.status
     | Ok _, "err" -> diff "status" ~model:"ok" ~impl:"err"
     | Ok mp, _ ->
       check_eq "pcs" show_pcs mp r.pcs;
       (* counter_name = name_of_pcs o parse_stack_pcs by definition: parse once *)
       check_eq "name" show_b (name_of_pcs symb mp) r.name);
    (* the factorisation through the projection, executed *)
    let v = view r.text in
    (match finish symb r.child v, r.status with
     | Err, "err" -> ()
     | Ok nm, "ok" -> check_eq "finish-of-view" show_b nm r.name
     | Err, _ -> diff "finish-of-view" ~model:"err" ~impl:r.status
     | Ok _, _ -> diff "finish-of-view" ~model:"ok" ~impl:r.status);
    if r.status = "ok" then begin
      (* shape: fixed name, or the crash prefix followed by the encoding of at most 16 pcs *)
      if r.pcs = [] then begin
        if r.name <> fixed_name then prop "shape" ("no pcs but name " ^ show_b r.name)
      end else begin
        if not (starts_with r.name crash_prefix_nl) then prop "shape" ("name without the crash prefix: " ^ short r.name);
        if r.name <> r.enc16 then
          prop "shape-16-frames" (Printf.sprintf "name is not EncodeStack of the first %d pcs: name=%S expected=%S"
                                    (min 16 (List.length r.pcs)) (short r.name) (short r.enc16))
      end;
      if List.length r.name > limit then prop "length-bound" (Printf.sprintf "len=%d" (List.length r.name));
      (* a name longer than the limit before truncation: exactly 4096 bytes, ending with the marker *)
      if r.pcs <> [] then begin
        let rawlen = List.length (encode_raw c_crash_prefix r.frames) in
        if rawlen > limit then begin
          let n = List.length r.name in
          let tail = List.filteri (fun i _ -> i >= n - List.length marker) r.name in
          if not (n = limit && tail = marker) then
            prop "truncation-marked" (Printf.sprintf "untruncated-length=%d len=%d tail=%S" rawlen n (string_of_bytes tail))
        end
      end;
      (* the name, expanded, lists exactly the frames of the crashing goroutine: one line
         Function:line,+0xoffset per frame runtime.CallersFrames reports for the (<= 16) pcs;
         for a truncated name, the complete lines that survived *)
      if r.pcs <> [] then begin
        check_eq "decode-of-name" show_b (decode_stack r.name) r.decoded;
        let plain = render_plain c_crash_prefix r.frames in
        let raw = encode_raw c_crash_prefix r.frames in
        if List.length raw <= limit then begin
          if r.decoded <> plain then
            prop "name-lists-frames" (Printf.sprintf "expanded name %S but the frames are %S" (short r.decoded) (short plain))
        end else begin
          let kept = String.sub (string_of_bytes raw) 0 (limit - List.length marker) in
          let k = List.length (String.split_on_char '\n' kept) - 1 in
          let first l = List.filteri (fun i _ -> i < k) l in
          let dl = first (String.split_on_char '\n' (string_of_bytes r.decoded)) in
          let pl = first (String.split_on_char '\n' (string_of_bytes plain)) in
          let nd = List.length r.decoded in
          if List.filteri (fun i _ -> i >= nd - List.length marker) r.decoded <> marker then
            prop "name-lists-frames" ("the expansion of a truncated crash name does not end with the truncation marker: " ^
                                      show_b (List.filteri (fun i _ -> i >= nd - 14) r.decoded));
          if dl <> pl then
            prop "name-lists-frames" (Printf.sprintf "truncated name: first %d expanded lines %S but the frames are %S" k
                                        (String.concat "\n" dl) (String.concat "\n" pl))
        end
      end;
      (* non-interference: equal projections -> equal names *)
      (match view_key r.child v with
       | None -> ()
       | Some k ->
         (match Hashtbl.find_opt by_view k with
          | Some (nm0, text0) ->
            if nm0 <> r.name then
              prop "noninterference" (Printf.sprintf "two reports with the same sentinel and pcs give %S and %S; other report: %S"
                                        (short nm0) (short r.name) (short text0))
          | None -> Hashtbl.replace by_view k (r.name, r.text)));
      (* the name is a function of the pcs alone *)
      let pk = show_pcs r.pcs in
      (match Hashtbl.find_opt by_pcs pk with
       | Some (nm0, text0) ->
         if nm0 <> r.name then
           prop "name-function-of-pcs" (Printf.sprintf "same pcs, names %S and %S; other report: %S" (short nm0) (short r.name) (short text0))
       | None -> Hashtbl.replace by_pcs pk (r.name, r.text))
    end
  end

let handle kind c =
  match kind with
  | "name" ->
    let _tag = next c in
    check_record (read_record c)
  | "real" ->
    let k = next c in
    let r = read_record c in
    let have = next_bool c in
    let matches = next_bool c in
    check_record r;
    if r.status = "ok" && have && not matches then
      prop "genuine-frames" (Printf.sprintf "crash kind %s: frames below the panic differ from those runtime.Callers reported: %S" k (short r.name))
  | "reloc" ->
    let r1 = read_record c in
    let r2 = read_record c in
    check_record r1; check_record r2;
    if r1.status = "ok" && r2.status = "ok" && r1.name <> r2.name then
      prop "relocation-invariant" (Printf.sprintf "same report with sentinel and pcs shifted: %S vs %S" (short r1.name) (short r2.name))
    else if r1.status <> r2.status then
      prop "relocation-invariant" (Printf.sprintf "same report with sentinel and pcs shifted: %s vs %s" r1.status r2.status)
  | "child" ->
    (* the report delivered on stdin to the real crashmonitor.Child process *)
    let child = next_n c in
    let text = next_bytes c in
    let status = next c in
    let name = if status = "ok" then next_bytes c else [] in
    let frames = next_list c next_frame in
    let symb _ = frames in
    if status = "hang" then prop "total" ("the Child process did not terminate within the watchdog limit on " ^ short text)
    else if status = "unexpected" then prop "total" ("Child counted several names or none and did not exit cleanly on " ^ short text)
    else begin
      (match monitor_child symb child text, status with
       | NoCrash, "nocrash" | Malformed, "err" -> ()
       | Counted nm, "ok" -> check_eq "child-name" show_b nm name
       | NoCrash, _ -> diff "child-status" ~model:"nocrash" ~impl:status
       | Malformed, _ -> diff "child-status" ~model:"err" ~impl:status
       | Counted _, _ -> diff "child-status" ~model:"ok" ~impl:status);
      (* Child's own rule: only a report of fewer than two lines is "no crash" *)
      if status = "nocrash" && List.length (List.filter (fun x -> x = n_of_int 10) text) >= 2 then
        prop "child-reports-crash" (Printf.sprintf "a report of %d bytes with a crash was treated as 'parent exited without crash'" (List.length text));
      if status = "ok" then begin
        if List.length name > limit then prop "length-bound" (Printf.sprintf "len=%d" (List.length name));
        (* non-interference across both routes: equal projections -> equal names *)
        (match view_key child (view text) with
         | None -> ()
         | Some k ->
           (match Hashtbl.find_opt by_view k with
            | Some (nm0, text0) ->
              if nm0 <> name then
                prop "noninterference" (Printf.sprintf "two reports with the same sentinel and pcs give %S and (through the Child process, report of %d bytes) %S; other report (%d bytes): %S"
                                          (short nm0) (List.length text) (short name) (List.length text0) (short text0))
            | None -> Hashtbl.replace by_view k (name, text)))
      end
    end
  | "hang" ->
    let what = next c in
    let _child = next_n c in
    let text = next_bytes c in
    prop "total" (Printf.sprintf "%s did not terminate within the watchdog limit on the report (%d bytes) %S"
                    what (List.length text) (short text))
  | "uint" ->
    let s = next_bytes c in
    let st = next c in
    let v = next_n c in
    (match parse_uint0 s, st with
     | None, "err" -> ()
     | Some m, "ok" -> check_eq "parse-uint" tok_of_n m v
     | None, _ -> diff "parse-uint" ~model:"err" ~impl:(st ^ " " ^ show_b s)
     | Some _, _ -> diff "parse-uint" ~model:"ok" ~impl:(st ^ " " ^ show_b s))
  | "sscan" ->
    let l = next_bytes c in
    let st = next c in
    let v = next_n c in
    if st = "panic" then prop "total" ("Sscanf panicked on " ^ show_b l)
    else (match scan_sentinel l, st with
        | None, "err" -> ()
        | Some m, "ok" -> check_eq "scan-sentinel" tok_of_n m v
        | None, _ -> diff "scan-sentinel" ~model:"err" ~impl:(st ^ " " ^ show_b l)
        | Some _, _ -> diff "scan-sentinel" ~model:"ok" ~impl:(st ^ " " ^ show_b l))
  | k -> diff "unknown-case-kind" ~model:k ~impl:"-"

(* Reports with 200 KiB lines make the extracted (non tail-recursive) list
   functions recurse several hundred thousand frames deep: re-execute once
   with a larger system stack (OCaml 4.x native code uses the system stack). *)
let () =
  match Sys.getenv_opt "VERIF_CRASH_RUNNER_BIGSTACK" with
  | None ->
    let cmd = Printf.sprintf "ulimit -s unlimited 2>/dev/null || ulimit -s 4000000 2>/dev/null; VERIF_CRASH_RUNNER_BIGSTACK=1 exec %s %s"
        (Filename.quote Sys.executable_name) (Filename.quote Sys.argv.(1)) in
    exit (Sys.command cmd)
  | Some _ -> run_file Sys.argv.(1) handle
