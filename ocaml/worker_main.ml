(* worker_main.ml: evaluates the extracted Model/Worker on the observations of
   harness vh_worker (C13): DIFF = model and implementation disagree, PROP =
   the property's oracle is false on the implementation's output. *)

let next_report c : report =
  let week = next_bytes c in
  let x = next_z c in
  let progs = next_list c (fun c ->
      let p = next_bytes c in
      let v = next_bytes c in
      let gv = next_bytes c in
      let os = next_bytes c in
      let arch = next_bytes c in
      let cs = next_list c (fun c -> let n = next_bytes c in let v = next_z c in (n, v)) in
      { pr_prog = p; pr_version = v; pr_goversion = gv; pr_goos = os; pr_goarch = arch; pr_counters = cs }) in
  { r_week = week; r_x = x; r_progs = progs }

let next_blist c = next_list c next_bytes

let show_report (r : report) =
  Printf.sprintf "{week=%s x=%s progs=[%s]}" (string_of_bytes r.r_week) (tok_of_z r.r_x)
    (String.concat ";" (List.map (fun p ->
         Printf.sprintf "%s@%s go=%s %s/%s [%s]" (string_of_bytes p.pr_prog) (string_of_bytes p.pr_version)
           (string_of_bytes p.pr_goversion) (string_of_bytes p.pr_goos) (string_of_bytes p.pr_goarch)
           (String.concat "," (List.map (fun (n, _) -> string_of_bytes n) p.pr_counters))) r.r_progs))

let clip s = if String.length s > 300 then String.sub s 0 300 ^ "..." else s

let show_chart (c : chart) =
  Printf.sprintf "%s[%s]" (string_of_bytes c.c_id)
    (String.concat "," (List.map (fun ((w, k), v) ->
         string_of_bytes w ^ "|" ^ string_of_bytes k ^ "=" ^ string_of_int (int_of_z v)) c.c_data))
let show_cd (cd : chartdata) =
  Printf.sprintf "range=%s..%s num=%d programs=%s" (string_of_bytes cd.cd_start) (string_of_bytes cd.cd_end)
    (int_of_nat cd.cd_num)
    (String.concat " " (List.map (fun p ->
         string_of_bytes p.po_name ^ ":{" ^ String.concat " " (List.map show_chart p.po_charts) ^ "}") cd.cd_programs))

type obj = { good : bool; canon_len : int; data : bytes option; canon : bytes option; rep : report option }
type line = { llen : int; lgood : bool; lsame : bool; lrep : report option }

let find_index p l =
  let rec go i = function [] -> None | x :: t -> if p x then Some i else go (i + 1) t in
  go 0 l

let handle_merge c =
  let small = next_bool c in
  let status = next c in
  let count = int_of_z (next_z c) in
  let objs = next_list c (fun c ->
      match next c with
      | "bad" ->
        let data = if small then Some (next_bytes c) else None in
        { good = false; canon_len = 0; data; canon = None; rep = None }
      | _ ->
        let cl = next_int c in
        let data = if small then Some (next_bytes c) else None in
        let canon = if small then Some (next_bytes c) else None in
        let rep = next_report c in
        { good = true; canon_len = cl; data; canon; rep = Some rep }) in
  let nobj = List.length objs in
  let file_tag = next c in
  let file_len, file_bytes, lines =
    if file_tag = "nofile" then (-1, None, [])
    else begin
      let fl = next_int c in
      let fb = if small then Some (next_bytes c) else None in
      let ls = next_list c (fun c ->
          let ll = next_int c in
          match next c with
          | "bad" -> { llen = ll; lgood = false; lsame = false; lrep = None }
          | _ -> let same = next_bool c in let r = next_report c in
            { llen = ll; lgood = true; lsame = same; lrep = Some r }) in
      (fl, fb, ls)
    end in
  let read_tag = next c in
  let read_reps = if read_tag = "read-ok" then next_list c next_report else [] in
  let all_good = List.for_all (fun o -> o.good) objs in
  (* ---- model vs implementation *)
  if file_tag = "nofile" then diff "merge-file" ~model:"written" ~impl:"no merged object"
  else begin
    (match file_bytes with
     | Some fb when small ->
       let arr = Array.of_list objs in
       let dec (b : bytes) : int option =
         find_index (fun o -> o.good && o.data = Some b) objs in
       let enc (i : int) : bytes = match arr.(i).canon with Some x -> x | None -> [] in
       let ((mfile, mcount), mok) = merge enc dec (List.map (fun o -> match o.data with Some d -> d | None -> []) objs) in
       if mok <> (status = "ok") then diff "merge-status" ~model:(string_of_bool mok) ~impl:status;
       if mfile <> fb then diff "merge-file-bytes" ~model:(clip (string_of_bytes mfile)) ~impl:(clip (string_of_bytes fb));
       if mok && int_of_nat mcount <> count then diff "merge-count" ~model:(string_of_int (int_of_nat mcount)) ~impl:(string_of_int count);
       let ul = unframe fb in
       check_eq "unframe-lines" (fun l -> String.concat "," (List.map string_of_int l))
         (List.map (fun l -> List.length l) ul) (List.map (fun l -> l.llen) lines);
       let larr = Array.of_list lines in
       let dec' (b : bytes) : int option =
         match find_index (fun l -> l = b) ul with
         | Some i when i < Array.length larr && larr.(i).lgood -> Some i
         | _ -> None in
       (match read_merged dec' fb with
        | None -> if read_tag <> "read-err" then diff "read-merged" ~model:"error" ~impl:read_tag
        | Some idxs ->
          if read_tag <> "read-ok" then diff "read-merged" ~model:"ok" ~impl:read_tag
          else
            check_eq "read-merged-reports" (fun l -> clip (String.concat " " (List.map show_report l)))
              (List.map (fun i -> match larr.(i).lrep with Some r -> r | None -> failwith "line") idxs) read_reps)
     | _ ->
       (* large day: structure only (the byte-level functions are size-generic) *)
       let expect_lines =
         let rec pref = function [] -> [] | o :: t -> if o.good then o.canon_len :: pref t else [] in pref objs in
       check_eq "merge-line-lengths" (fun l -> clip (String.concat "," (List.map string_of_int l)))
         expect_lines (List.map (fun l -> l.llen) lines);
       let want = List.fold_left (fun a l -> a + l + 1) 0 expect_lines in
       if want <> file_len then diff "merge-file-length" ~model:(string_of_int want) ~impl:(string_of_int file_len);
       if all_good <> (status = "ok") then diff "merge-status" ~model:(string_of_bool all_good) ~impl:status;
       if all_good && count <> nobj then diff "merge-count" ~model:(string_of_int nobj) ~impl:(string_of_int count);
       if all_good then begin
         if read_tag <> "read-ok" then diff "read-merged" ~model:"ok" ~impl:read_tag
         else check_eq "read-merged-count" string_of_int nobj (List.length read_reps)
       end)
  end;
  (* ---- the property on the implementation's output *)
  if all_good then begin
    let nlines = List.length lines in
    if status <> "ok" then prop "merge-one-line-per-object" (Printf.sprintf "merge of %d decodable objects answered %s" nobj status)
    else if nlines <> nobj then
      prop "merge-one-line-per-object" (Printf.sprintf "%d stored objects, %d lines in the merged object" nobj nlines)
    else begin
      List.iteri (fun i (o, l) ->
          if not (l.lgood && l.lsame && l.lrep = o.rep && l.llen = o.canon_len) then
            prop "merge-one-line-per-object" (Printf.sprintf "line %d does not decode to stored object %d" i i))
        (List.combine objs lines);
      if count <> nobj then prop "merge-count" (Printf.sprintf "%d stored objects, response says %d" nobj count);
      if read_tag <> "read-ok" then prop "read-all" ("reading the merged object back: " ^ read_tag)
      else if List.length read_reps <> nobj then
        prop "read-all" (Printf.sprintf "%d reports stored and merged (line lengths %s), %d read back"
                           nobj (clip (String.concat "," (List.map (fun l -> string_of_int l.llen) lines))) (List.length read_reps))
      else if List.map (fun o -> o.rep) objs <> List.map (fun r -> Some r) read_reps then
        prop "read-all" "reports read back differ from the stored ones"
    end
  end

let next_config c : config =
  let goos = next_blist c in
  let goarch = next_blist c in
  let gover = next_blist c in
  let progs = next_list c (fun c ->
      let name = next_bytes c in
      let versions = next_blist c in
      let counters = next_blist c in
      { pc_name = name; pc_versions = versions; pc_counters = counters }) in
  { cf_goos = goos; cf_goarch = goarch; cf_goversion = gover; cf_programs = progs }

let next_table c = next_list c (fun c -> let k = next_bytes c in let r = next_z c in (k, r))

let next_chartdata c : chartdata =
  let s = next_bytes c in
  let e = next_bytes c in
  let num = next_int c in
  let progs = next_list c (fun c ->
      let id = next_bytes c in
      let name = next_bytes c in
      let charts = next_list c (fun c ->
          let cid = next_bytes c in
          let cname = next_bytes c in
          let ctype = next_bytes c in
          let data = next_list c (fun c ->
              let w = next_bytes c in let k = next_bytes c in let v = next_z c in ((w, k), v)) in
          { c_id = cid; c_name = cname; c_type = ctype; c_data = data }) in
      { po_id = id; po_name = name; po_charts = charts }) in
  { cd_start = s; cd_end = e; cd_programs = progs; cd_num = nat_of_int num }

let distinct_ranks tbl =
  let rs = List.map snd tbl in
  List.length (List.sort_uniq compare rs) = List.length rs

let next_reqctx c =
  let kind = next c in
  let after = int_of_z (next_z c) in
  let fday = next_int c in
  (kind, (if kind = "live" || kind = "fault" then None else Some (nat_of_int after)),
   (if kind = "fault" then Some (fday, after) else None))

let handle_chart_case c =
  let (ctx_kind, ctx_after, fault_i) = next_reqctx c in
  let cfg = next_config c in
  let semtbl = next_table c in
  let gotbl = next_table c in
  let start = next_z c in
  let end_ = next_z c in
  let days = next_list c (fun c ->
      let present = next_bool c in
      let reps = next_list c next_report in
      (present, reps)) in
  let status = next c in
  let tag = next c in
  let impl_cd =
    if tag = "chartdata" then begin
      let name = next_bytes c in
      let cd = next_chartdata c in
      Some (name, cd)
    end else None in
  let det = next_bool c in
  (* assumptions on the comparators, checked on the keys of this case *)
  if not (distinct_ranks semtbl) then diff "assumption-compareSemver-strict" ~model:"distinct keys compare unequal" ~impl:"tie";
  if not (distinct_ranks gotbl) then diff "assumption-version.Compare-strict-on-normalised-keys" ~model:"distinct keys compare unequal" ~impl:"tie";
  let lt_sem = rank_lt semtbl and lt_go = rank_lt gotbl in
  let darr = Array.of_list days in
  let start_i = int_of_z start in
  let read (d : z) : read_result =
    let i = int_of_z d - start_i in
    if i < 0 || i >= Array.length darr then RNotFound
    else let (present, reps) = darr.(i) in if present then ROk reps else RNotFound in
  let reports = List.concat (List.map snd days) in
  let missing = List.exists (fun (p, _) -> not p) days in
  (* ---- model vs implementation *)
  let fault = match fault_i with Some (i, k) -> Some (z_of_int (start_i + i), nat_of_int k) | None -> None in
  let faulted = match fault_i with Some (i, _) -> i < Array.length darr && fst darr.(i) | None -> false in
  (match (if fault = None then handle_chart_ctx iter_id lt_sem lt_go ctx_after cfg read start end_
          else handle_chart_fault iter_id lt_sem lt_go fault cfg read start end_) with
   | ChartOk (name, cd) ->
     (match impl_cd with
      | Some (iname, icd) when status = "ok" ->
        check_eq "chart-object-name" string_of_bytes name iname;
        if cd <> icd then diff "chart-data" ~model:(clip (show_cd cd)) ~impl:(clip (show_cd icd))
      | _ -> diff "chart-status" ~model:"ok" ~impl:(status ^ "/" ^ tag))
   | ChartNotFound -> if status <> "notfound" then diff "chart-status" ~model:"notfound" ~impl:status
   | ChartBadRequest -> if status <> "bad" then diff "chart-status" ~model:"bad" ~impl:status
   | ChartReadErr -> if status <> "err" then diff "chart-status" ~model:"err" ~impl:status
   | ChartPanic -> if status <> "panic" then diff "chart-status" ~model:"panic" ~impl:status);
  (* ---- the property on the implementation's output *)
  if missing then begin
    if status <> "notfound" && not (faulted && status = "err") then
      prop "missing-day-not-found" (Printf.sprintf "a day of the range has no merged object, the handler answered %s" status)
  end else if status = "panic" then begin
    (* charts() never panics in the model (C13_handle_chart_never_panics), for any configuration *)
    prop "malformed-goversion"
      (Printf.sprintf "handleChart panics: configured GoVersion list [%s] with %d reports in range"
         (String.concat "," (List.map string_of_bytes cfg.cf_goversion)) (List.length reports))
  end else begin
    match impl_cd with
    | Some (_, icd) when status = "ok" ->
      if faulted && int_of_nat icd.cd_num <> List.length reports then
        prop "chart-partial-on-read-error"
          (Printf.sprintf "the reader of the merged object of day %d of the range failed after %d records (connection reset): /chart/ answered ok with NumReports=%d, %d reports are merged in the range"
             (match fault_i with Some (i, _) -> i | None -> -1) (match fault_i with Some (_, k) -> k | None -> -1)
             (int_of_nat icd.cd_num) (List.length reports))
      else if int_of_nat icd.cd_num <> List.length reports then
        prop "num-reports" (Printf.sprintf "%d reports merged in the range, NumReports=%d%s" (List.length reports) (int_of_nat icd.cd_num)
                              (if ctx_kind = "live" then "" else Printf.sprintf " (request context: %s once %d objects had been opened; the handler answered ok)"
                                   ctx_kind (match ctx_after with Some k -> int_of_nat k | None -> 0)))
      else if not (chart_ok lt_sem lt_go cfg (fmt_date start) (fmt_date end_) reports icd) then begin
        let bad = List.filter (fun (p, o) ->
            not (programs_ok lt_sem lt_go cfg reports [p] [o]))
            (try List.combine cfg.cf_programs icd.cd_programs with Invalid_argument _ -> []) in
        let detail = match bad with
          | (p, o) :: _ -> "program " ^ string_of_bytes p.pc_name ^ ": " ^
                           String.concat " " (List.map show_chart o.po_charts)
          | [] -> show_cd icd in
        prop "partition-value" (clip detail)
      end;
      if not det then prop "chart-deterministic" "the same set of reports (re-run / re-ordered / moved between the days of the range) gave a different chart object"
    | _ -> if not (faulted && status = "err") then
        prop "chart-status" (Printf.sprintf "all days present, handler answered %s/%s" status tag)
  end

(* ---- seq: a sequence of operations on one set of buckets ---------- *)
let handle_seq c =
  let cfg = next_config c in
  let semtbl = next_table c in
  let gotbl = next_table c in
  let vals = Array.of_list (next_list c (fun c -> let canon = next_bytes c in let r = next_report c in (canon, r))) in
  let objtab = next_list c (fun c -> let d = next_bytes c in let id = int_of_z (next_z c) in (d, id)) in
  let nops = next_int c in
  let lt_sem = rank_lt semtbl and lt_go = rank_lt gotbl in
  let enc (i : int) : bytes = fst vals.(i) in
  let proj (i : int) : report = snd vals.(i) in
  let dec (b : bytes) : int option =
    match List.assoc_opt b objtab with
    | Some id -> if id >= 0 then Some id else None
    | None ->
      let rec go i = if i >= Array.length vals then None else if fst vals.(i) = b then Some i else go (i + 1) in
      go 0 in
  let listing : bytes list ref = ref [] in
  let ord (b : (bytes * bytes) list) =
    let pos n = match find_index (fun x -> x = n) !listing with Some i -> i | None -> max_int in
    List.stable_sort (fun (n1, _) (n2, _) -> Stdlib.compare (pos n1) (pos n2)) b in
  let pos = [true; true; false; true; true; true; true; true] in (* the stray directories come early in the walk *)
  let st = ref ws_empty in
  let dostep op = let (st', resp) = step enc dec proj ord pos iter_id lt_sem lt_go cfg !st op in st := st'; resp in
  let merged_before : (bytes, unit) Hashtbl.t = Hashtbl.create 8 in
  let show_reps l = clip (String.concat " " (List.map show_report l)) in
  for opi = 1 to nops do
    match next c with
    | "put" -> let n = next_bytes c in let d = next_bytes c in ignore (dostep (OpPut (n, d)))
    | "del" -> let n = next_bytes c in ignore (dostep (OpDel n))
    | "stray" -> let n = next_bytes c in ignore (dostep (OpStray n))
    | "relocate" -> let k = next_n c in ignore (dostep (OpRelocate k))
    | "merge" ->
      let date = next_bytes c in
      let lst = next_blist c in
      let status = next c in
      let count = int_of_z (next_z c) in
      let ftag = next c in
      let file = if ftag = "file" then Some (next_bytes c) else None in
      let stream_tag, recs =
        if ftag = "file" then begin
          let t = next c in
          let rs = next_list c next_report in (t, rs)
        end else ("nofile", []) in
      let rtag = next c in
      let read_reps = if rtag = "read-ok" then next_list c next_report else [] in
      listing := lst;
      (* the model's view of what is stored for the day *)
      let stored = day_objects ord pos !st date in
      let names_model = List.sort Stdlib.compare (List.map fst (List.filter (fun (n, _) -> has_prefix n date) !st.ws_upload)) in
      if names_model <> List.sort Stdlib.compare lst then
        diff "seq-listing" ~model:(String.concat "," (List.map string_of_bytes names_model))
          ~impl:(String.concat "," (List.map string_of_bytes lst));
      let stored_dec = List.map dec stored in
      let all_good = List.for_all (fun x -> x <> None) stored_dec in
      let stored_reps = List.filter_map (fun x -> match x with Some i -> Some (proj i) | None -> None) stored_dec in
      let remerge = Hashtbl.mem merged_before date in
      Hashtbl.replace merged_before date ();
      (match dostep (OpMerge date) with
       | RespMerge (mcount, mok) ->
         if mok <> (status = "ok") then diff "seq-merge-status" ~model:(string_of_bool mok) ~impl:status;
         if mok && int_of_nat mcount <> count then diff "seq-merge-count" ~model:(string_of_int (int_of_nat mcount)) ~impl:(string_of_int count);
         let mfile = b_get !st.ws_merged (app date json_ext) in
         if mfile <> file then
           diff "seq-merged-object" ~model:(match mfile with Some f -> clip (string_of_bytes f) | None -> "none")
             ~impl:(match file with Some f -> clip (string_of_bytes f) | None -> "none")
       | _ -> diff "seq-merge-resp" ~model:"?" ~impl:status);
      (* the property on the implementation's output: the merged object holds exactly the currently stored reports *)
      if all_good then begin
        let cls = if remerge then "remerge-replaces" else "merge-one-line-per-object" in
        let n = List.length stored_reps in
        if status <> "ok" then prop cls (Printf.sprintf "op %d: merge of %d decodable stored objects answered %s" opi n status)
        else if stream_tag <> "stream-ok" then
          prop cls (Printf.sprintf "op %d: %d reports stored for %s, the merged object is not a sequence of reports (%s after %d records)%s"
                      opi n (string_of_bytes date) stream_tag (List.length recs) (if remerge then "; the day had been merged before" else ""))
        else if recs <> stored_reps then
          prop cls (Printf.sprintf "op %d: %d reports stored for %s, the merged object holds %d records%s: stored %s merged %s"
                      opi n (string_of_bytes date) (List.length recs) (if remerge then " (the day had been merged before)" else "")
                      (show_reps stored_reps) (show_reps recs))
        else if count <> n then prop "merge-count" (Printf.sprintf "op %d: %d stored objects, response says %d" opi n count)
        else if rtag <> "read-ok" || read_reps <> stored_reps then
          prop "read-all" (Printf.sprintf "op %d: %d reports stored and merged, read back: %s %d" opi n rtag (List.length read_reps))
      end
    | "chart" ->
      let (ctx_kind, ctx_after, fault_i) = next_reqctx c in
      ignore ctx_after;
      let start = next_z c in
      let end_ = next_z c in
      let status = next c in
      let unchanged = next_bool c in
      let tag = next c in
      let impl_cd = if tag = "chartdata" then begin let n = next_bytes c in let cd = next_chartdata c in Some (n, cd) end else None in
      (* the reports the merged objects hold, per the model *)
      let ndays = int_of_z end_ - int_of_z start + 1 in
      let day_reads = List.init ndays (fun i -> read_state_day dec proj !st (z_of_int (int_of_z start + i))) in
      let all_ok = List.for_all (fun r -> match r with ROk _ -> true | _ -> false) day_reads in
      let reports = List.concat (List.map (fun r -> match r with ROk rs -> rs | _ -> []) day_reads) in
      let op = match fault_i with
        | Some (i, k) -> OpChartFault (start, end_, z_of_int (int_of_z start + i), nat_of_int k)
        | None -> OpChart (start, end_) in
      let faulted = match fault_i with
        | Some (i, _) -> (match List.nth_opt day_reads i with Some RNotFound | None -> false | _ -> true)
        | None -> false in
      (match dostep op with
       | RespChart (ChartOk (name, cd)) ->
         (match impl_cd with
          | Some (iname, icd) when status = "ok" ->
            check_eq "seq-chart-object-name" string_of_bytes name iname;
            if cd <> icd then diff "seq-chart-data" ~model:(clip (show_cd cd)) ~impl:(clip (show_cd icd))
          | _ -> diff "seq-chart-status" ~model:"ok" ~impl:(status ^ "/" ^ tag))
       | RespChart ChartNotFound -> if status <> "notfound" then diff "seq-chart-status" ~model:"notfound" ~impl:status
       | RespChart ChartReadErr -> if status <> "err" then diff "seq-chart-status" ~model:"err" ~impl:status
       | RespChart ChartBadRequest -> if status <> "bad" then diff "seq-chart-status" ~model:"bad" ~impl:status
       | RespChart ChartPanic -> if status <> "panic" then diff "seq-chart-status" ~model:"panic" ~impl:status
       | _ -> diff "seq-chart-resp" ~model:"?" ~impl:status);
      if faulted then begin
        if status = "ok" then begin
          match impl_cd with
          | Some (_, icd) when int_of_nat icd.cd_num = List.length reports && all_ok -> ()
          | Some (_, icd) ->
            prop "chart-partial-on-read-error"
              (Printf.sprintf "op %d: the reader of a merged object of the range failed after %d records: /chart/ answered ok with NumReports=%d, %d reports are merged in the range"
                 opi (match fault_i with Some (_, k) -> k | None -> -1) (int_of_nat icd.cd_num) (List.length reports))
          | None -> prop "rechart-replaces" (Printf.sprintf "op %d: the chart object written is not one JSON chart (%s)" opi tag)
        end else if not unchanged then
          prop "chart-partial-on-read-error" (Printf.sprintf "op %d: /chart/ answered %s after a read fault but the chart bucket changed" opi status)
      end else if all_ok then begin
        if status = "panic" then prop "malformed-goversion" (Printf.sprintf "op %d: handleChart panics" opi)
        else if status <> "ok" then
          prop "rechart-replaces" (Printf.sprintf "op %d: every day of the range is merged from decodable reports, /chart/ answered %s" opi status)
        else match impl_cd with
          | None -> prop "rechart-replaces" (Printf.sprintf "op %d: the chart object written is not one JSON chart (%s)" opi tag)
          | Some (_, icd) ->
            if int_of_nat icd.cd_num <> List.length reports then
              prop "num-reports" (Printf.sprintf "op %d: %d reports in the merged objects of the range, NumReports=%d (request context %s)" opi (List.length reports) (int_of_nat icd.cd_num) ctx_kind)
            else if not (chart_ok lt_sem lt_go cfg (fmt_date start) (fmt_date end_) reports icd) then
              prop "partition-value" (Printf.sprintf "op %d: %s" opi (clip (show_cd icd)))
      end
    | k -> failwith ("seq: unknown op " ^ k)
  done

let handle kind c =
  match kind with
  | "seq" -> handle_seq c
  | "merge" -> handle_merge c
  | "readraw" ->
    let file = next_bytes c in
    let tbl = next_list c (fun c ->
        let l = next_bytes c in
        match next c with
        | "bad" -> (l, None)
        | _ -> let r = next_report c in (l, Some r)) in
    let read_tag = next c in
    let reps = if read_tag = "read-ok" then next_list c next_report else [] in
    let dec b = match List.assoc_opt b tbl with Some r -> r | None -> None in
    (match read_merged dec file with
     | None -> if read_tag <> "read-err" then diff "read-merged" ~model:"error" ~impl:read_tag
     | Some rs ->
       if read_tag <> "read-ok" then diff "read-merged" ~model:"ok" ~impl:read_tag
       else check_eq "read-merged-reports" (fun l -> clip (String.concat " " (List.map show_report l))) rs reps)
  | "chart" -> handle_chart_case c
  | "copy" ->
    let start = next_z c in
    let end_ = next_z c in
    let pair c = let n = next_bytes c in let d = next_bytes c in (n, d) in
    let src = next_list c pair in
    let dst = next_list c pair in
    let status = next c in
    let after = next_list c pair in
    let expect = copy_range (fun b -> b) src dst start end_ in
    let srt l = List.sort Stdlib.compare l in
    let show l = clip (String.concat " " (List.map (fun (n, d) -> string_of_bytes n ^ "=" ^ tok_of_bytes d) l)) in
    if status <> "ok" then diff "copy-status" ~model:"ok" ~impl:status;
    check_eq "copy-destination" show (srt expect) (srt after);
    (* the property of the range: every source object of every day from start to end inclusive arrives *)
    let s_i = int_of_z start and e_i = int_of_z end_ in
    List.iter (fun (n, d) ->
        let rec inrange i = i <= e_i && (has_prefix n (fmt_date (z_of_int i)) || inrange (i + 1)) in
        if inrange s_i && List.assoc_opt n after <> Some d then
          prop "copy-covers-range" (Printf.sprintf "range %s..%s: source object %s is %s in the destination"
                                      (string_of_bytes (fmt_date start)) (string_of_bytes (fmt_date end_)) (string_of_bytes n)
                                      (match List.assoc_opt n after with None -> "missing" | Some _ -> "different"))) src
  | "hang" ->
    let name = next c in
    let i = next_int c in
    prop "hang" (Printf.sprintf "case %d (%s) of the harness did not finish within its watchdog time" i name)
  | "fd" ->
    let rlimit = next_bool c in
    let budget = next_int c in
    let objs = next_list c (fun c -> match next c with "bad" -> None | _ -> Some (next_report c)) in
    let status = next c in
    let count = int_of_z (next_z c) in
    let torn = next_bool c in
    let recs = next_list c next_report in
    let peak = next_int c in
    let open_r = next_int c in
    let open_w = next_int c in
    let fd_delta = next_int c in
    let cstatus = next c in
    let cpeak = next_int c in
    let copen_r = next_int c in
    let copen_w = next_int c in
    let cfd_delta = next_int c in
    let nobj = List.length objs in
    (* model: objects are their index; the budget leaves room for at least one reader *)
    let arr = Array.of_list objs in
    let dec (b : bytes) : int option = let i = List.length b in if i < Array.length arr && arr.(i) <> None then Some i else None in
    let enc (i : int) : bytes = List.init i (fun _ -> n_of_int 65) in
    let keys = List.init nobj (fun i -> enc i) in
    let free = nat_of_int (if rlimit then 1 else budget) in
    let ((_, mcount), mok) = merge_fd enc dec free keys in
    if mok <> (status = "ok") then diff "fd-merge-status" ~model:(string_of_bool mok) ~impl:status;
    if mok && int_of_nat mcount <> count then diff "fd-merge-count" ~model:(string_of_int (int_of_nat mcount)) ~impl:(string_of_int count);
    let (mpeak, mopen) = open_peak (merge_events dec keys) O O in
    if not rlimit && int_of_nat mpeak <> peak then
      diff "fd-peak-open-readers" ~model:(string_of_int (int_of_nat mpeak)) ~impl:(string_of_int peak);
    if int_of_nat mopen <> open_r then diff "fd-open-readers-after" ~model:"0" ~impl:(string_of_int open_r);
    (* the property: any number of stored reports is merged, also when it exceeds the descriptors available *)
    let all_good = List.for_all (fun o -> o <> None) objs in
    if all_good then begin
      let how = if rlimit then Printf.sprintf "RLIMIT_NOFILE leaving %d descriptors" budget
        else Printf.sprintf "at most %d upload readers open at once" budget in
      if status <> "ok" then
        prop "merge-any-number" (Printf.sprintf "%d decodable reports stored, %s: /merge/ answered %s, %d records in the merged object (peak %d readers open)"
                                   nobj how status (List.length recs) peak)
      else if torn || List.map (fun r -> Some r) recs <> objs then
        prop "merge-one-line-per-object" (Printf.sprintf "%d reports stored, %d records merged" nobj (List.length recs))
      else if count <> nobj then prop "merge-count" (Printf.sprintf "%d stored objects, response says %d" nobj count)
    end;
    if open_r <> 0 || open_w <> 0 || fd_delta <> 0 then
      prop "descriptor-leak" (Printf.sprintf "after /merge/ returned: %d readers and %d writers still open, %d more descriptors in /proc/self/fd" open_r open_w fd_delta);
    if copen_r <> 0 || copen_w <> 0 || cfd_delta <> 0 then
      prop "descriptor-leak" (Printf.sprintf "after /chart/ returned: %d readers and %d writers still open, %d more descriptors in /proc/self/fd" copen_r copen_w cfd_delta);
    if status = "ok" && cstatus <> "ok" then diff "fd-chart-status" ~model:"ok" ~impl:cstatus;
    ignore cpeak
  | "badrange" ->
    let start = next_z c in
    let end_ = next_z c in
    let status = next c in
    let cfg = { cf_goos = []; cf_goarch = []; cf_goversion = []; cf_programs = [] } in
    (match handle_chart iter_id (fun _ _ -> false) (fun _ _ -> false) cfg (fun _ -> RNotFound) start end_ with
     | ChartBadRequest -> if status <> "bad" then diff "chart-status" ~model:"bad" ~impl:status
     | _ -> diff "chart-status" ~model:"other" ~impl:status)
  | "gmm" ->
    let v = next_bytes c in
    let ok = next_bool c in
    let res = next_bytes c in
    let r = go_major_minor v in
    if not ok then begin
      diff "goMajorMinor" ~model:(string_of_bytes r) ~impl:"panic";
      prop "malformed-goversion" ("goMajorMinor panics on " ^ tok_of_bytes v ^ " (\"" ^ String.escaped (string_of_bytes v) ^ "\")")
    end else check_eq "goMajorMinor" string_of_bytes r res
  | "expand" ->
    let s = next_bytes c in
    let ex = next_blist c in
    let tc = next_bool c in
    check_eq "Expand" (fun l -> String.concat "|" (List.map string_of_bytes l)) (expand s) ex;
    if is_toolchain s <> tc then diff "IsToolchainProgram" ~model:(string_of_bool (is_toolchain s)) ~impl:(string_of_bool tc)
  | "split" ->
    let s = next_bytes c in
    let g = next_bytes c in
    let b = next_bytes c in
    let ex = next_blist c in
    let tc = next_bool c in
    let (mg, mb) = split_counter_name s in
    check_eq "splitCounterName-chart" string_of_bytes mg g;
    check_eq "splitCounterName-bucket" string_of_bytes mb b;
    check_eq "Expand" (fun l -> String.concat "|" (List.map string_of_bytes l)) (expand s) ex;
    if is_toolchain s <> tc then diff "IsToolchainProgram" ~model:(string_of_bool (is_toolchain s)) ~impl:(string_of_bool tc)
  | k -> diff "unknown-case-kind" ~model:k ~impl:"-"

let () = run_file Sys.argv.(1) handle
