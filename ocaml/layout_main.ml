(* layout_main.ml: evaluates the extracted Model/Layout on the observations of
   harness vh_layout (C10). *)

(* a changed implementation may differ on every case: print the first few hundred
   differences only (all are counted) *)
let diff_budget = ref 300
let diff0 = diff
let diff field ~model ~impl =
  if !diff_budget > 0 then begin decr diff_budget; diff0 field ~model ~impl end
  else begin failed_here := true; incr n_diff end

let n0 = n_of_int 0
let two32 = n_of_hex "100000000"
let n_lt a b = N.ltb a b
let n_le a b = N.leb a b
let str = string_of_bytes
let show_n = tok_of_n
let show_pair (a, b) = tok_of_n a ^ "," ^ tok_of_n b
let clip300 s = if String.length s > 300 then String.sub s 0 300 ^ "..." else s
let short_hex b =
  let s = tok_of_bytes b in
  if String.length s > 70 then String.sub s 0 70 ^ "..." else s

(* first differing offset of two byte lists *)
let first_diff a b =
  let rec go i a b = match a, b with
    | [], [] -> -1
    | x :: a', y :: b' -> if x = y then go (i + 1) a' b' else i
    | _ -> i in
  go 0 a b

let sorted_assoc show l =
  String.concat ";" (List.sort compare (List.map show l))

(* parse result sent by the harness: tag, sorted meta pairs, sorted counts *)
type presult_obs = Perr of string | Pok of (string * string) list * (string * string) list
let read_parse_obs c =
  let tag = next c in
  if tag <> "ok" then Perr tag
  else begin
    let m = next_list c (fun c -> let k = next_bytes c in let v = next_bytes c in (str k, str v)) in
    let cs = next_list c (fun c -> let k = next_bytes c in let v = next_n c in (str k, tok_of_n v)) in
    Pok (m, cs)
  end
let show_obs = function
  | Perr t -> t
  | Pok (m, cs) ->
    "ok meta=" ^ String.concat ";" (List.map (fun (k, v) -> String.escaped k ^ "=" ^ String.escaped v) m)
    ^ " counts=" ^ String.concat ";" (List.map (fun (k, v) -> String.escaped k ^ "=" ^ v) cs)
let norm_obs meta counts =
  Pok (List.sort compare (List.map (fun (k, v) -> (str k, str v)) (last_wins meta)),
       List.sort compare (List.map (fun (k, v) -> (str k, tok_of_n v)) (last_wins counts)))
let obs_of_model = function
  | PDiverge -> Perr "diverge"
  | PErrShort -> Perr "short"
  | PErrHdr -> Perr "hdr"
  | PErrCorrupt -> Perr "corrupt"
  | POk (m, cs) -> norm_obs m cs
(* one evaluation of the layout reader per file; consecutive cases share files *)
let memo_tok = ref "" and memo_val = ref None
let read_file_tok c =
  let tok = next c in
  let bs = bytes_of_tok tok in
  let sr = if tok = !memo_tok then !memo_val
    else begin let v = spec_read bs in memo_tok := tok; memo_val := v; v end in
  (bs, sr)
let recs_of sr = match sr with Some ((((_, _), _), _), tbl) -> Some (List.concat tbl) | None -> None
let obs_of_spec sr =
  match sr with
  | None -> Perr "not-wf"
  | Some ((((_, _), kv), _), tbl) ->
    norm_obs kv (List.map (fun ((_, name), v) -> (decode_stack name, v)) (List.concat tbl))

let res_to_string = function
  | REmpty -> "empty" | RLong -> "long" | RCorrupt -> "corrupt" | RStuck -> "stuck"
  | ROk o -> "ok " ^ tok_of_n o | RDone -> "done" | RFail -> "fail"

(* the abstract map of a file: raw name -> value (as token) *)
let records_map sr =
  match recs_of sr with
  | None -> None
  | Some rs -> Some (List.map (fun ((_, name), v) -> (str name, v)) rs)

let handle kind c =
  match kind with
  | "place" ->
    let hdr = next_n c in
    let limit = next_n c in
    let nl = next_n c in
    let s = next_n c in
    let e = next_n c in
    check_eq "place" show_pair (place hdr limit nl) (s, e);
    (* oracle: for header lengths and limits of files below the 4 GiB format cap *)
    let nli = int_of_n nl in
    if nli >= 1 && nli <= 4096 && n_lt (N.add limit (n_of_int 32768)) two32
       && n_lt hdr (n_of_int 16385) then
      if not (place_ok_b hdr limit nl (s, e)) then
        prop "place-ok" (Printf.sprintf "hdrLen=%s limit=%s namelen=%s start=%s end=%s"
                           (show_n hdr) (show_n limit) (show_n nl) (show_n s) (show_n e))
  | "hash" ->
    let name = next_bytes c in
    let h = next_n c in
    check_eq "hash" show_n (hash name) h;
    if hash_ref name <> h then
      prop "hash-fnv1a" (Printf.sprintf "name=%s hash=%s fnv1a-fold=%s" (short_hex name) (show_n h) (show_n (hash_ref name)))
  | "header" ->
    let meta = next_bytes c in
    let tag = next c in
    let h = next_bytes c in
    (match mapped_header meta with
     | None -> if tag <> "err" then diff "header" ~model:"err" ~impl:tag
     | Some mh ->
       if tag <> "ok" then diff "header" ~model:"ok" ~impl:tag
       else begin
         check_eq "header-bytes" tok_of_bytes mh h;
         (* oracle: the v1 header is the prefix, the length word and the metadata, rounded up to 32 *)
         let want_len = N.mul (N.div (N.add (len meta) (n_of_int 63)) (n_of_int 32)) (n_of_int 32) in
         if len h <> want_len then
           prop "header-length" (Printf.sprintf "metadata of %s bytes: header of %s bytes, the v1 layout prescribes %s"
                                   (show_n (len meta)) (show_n (len h)) (show_n want_len));
         (* oracle: the documented header reads back as (length, metadata); metadata
            is NUL-terminated in the header, so only NUL-free metadata can read back *)
         if not (List.mem n0 meta) then
         let file = app h (zeros (N.sub (n_of_int 16384) (len h))) in
         (match spec_header file with
          | Some (hl, m) when hl = len h && m = cut_nul meta -> ()
          | _ -> prop "header-layout" (Printf.sprintf "meta=%s header=%s" (short_hex meta) (short_hex h)))
       end)
  | "ops" ->
    let (init, init_sr) = read_file_tok c in
    let meta = next_bytes c in
    let opened = next c in
    (match create init meta with
     | None -> if opened <> "openfail" then diff "open" ~model:"openfail" ~impl:opened
     | Some st0 ->
       if opened <> "open" then diff "open" ~model:"open" ~impl:opened
       else begin
         let nops = next_int c in
         let st = ref st0 in
         let meta_ok = ref (meta_kv meta <> None) in
         let init_wf = init = [] || init_sr <> None in
         (* expected abstract map: raw name -> value *)
         let expect : (string, n) Hashtbl.t = Hashtbl.create 16 in
         (match (if init = [] then Some [] else records_map init_sr) with
          | Some l -> List.iter (fun (k, v) -> Hashtbl.replace expect k v) l
          | None -> ());
         let prev_limit = ref (limit_of st0.w_bs) in
         let prev_size = ref (len st0.w_bs) in
         (* the metadata the file was created with (a later open with other metadata must not replace it) *)
         let created_meta = if init = [] then Some meta else
             (match init_sr with Some ((((_, m), _), _), _) -> Some m | None -> None) in
         let two64 = n_of_hex "10000000000000000" in
         let add_expect name delta =
           let cur = try Hashtbl.find expect (str name) with Not_found -> n0 in
           Hashtbl.replace expect (str name) (snd (N.div_eucl (N.add cur delta) two64)) in
         for i = 1 to nops do
           let k0 = next c in
           (* "F" k: the k-th file-system call of the operation fails *)
           let plan, k = if k0 = "F" then (let p = next_n c in (Some p, next c)) else (None, k0) in
           let o, impl_res, touched =
             match k with
             | "N" ->
               let name = next_bytes c in
               let tag = next c in
               let r = if tag = "ok" then "ok " ^ tok_of_n (next_n c) else tag in
               (OpNew name, r, (if tag = "ok" then Some (name, n0) else None))
             | "A" ->
               let name = next_bytes c in
               let delta = next_n c in
               let tag = next c in
               let r = if tag = "ok" then "ok " ^ tok_of_n (next_n c) else tag in
               (OpAdd (name, delta), r,
                (if tag = "ok" || (tag = "any" && List.length name <= 4096 && name <> []) then Some (name, delta) else None))
             | "X" -> let e = next_n c in let r = next c in (OpExtend e, r, None)
             | "R" ->
               let m = next_bytes c in
               let r = next c in
               if r = "done" then meta_ok := (meta_kv m <> None);
               (OpReopen m, r, None)
             | k -> failwith ("bad op " ^ k) in
           let limit = next_n c in
           let size = next_n c in
           let (mr, st') = step_f !st o plan in
           st := st';
           let ms = res_to_string mr in
           if impl_res <> "any" && ms <> impl_res then
             diff (Printf.sprintf "op%d-result" i) ~model:ms ~impl:impl_res;
           check_eq (Printf.sprintf "op%d-limit" i) show_n (limit_of st'.w_bs) limit;
           check_eq (Printf.sprintf "op%d-size" i) show_n (len st'.w_bs) size;
           (match touched with Some (name, d) -> add_expect name d | None -> ());
           (* oracles on the implementation's observations *)
           if n_lt limit !prev_limit then
             prop "limit-monotone" (Printf.sprintf "op %d: limit %s after %s" i (show_n limit) (show_n !prev_limit));
           if n_lt size limit then
             prop "limit-le-size" (Printf.sprintf "op %d: limit %s size %s" i (show_n limit) (show_n size));
           (match o with
            | OpNew _ | OpAdd _ ->
              if n_lt (N.add !prev_size (n_of_int 32768)) size then
                prop "growth-bounded" (Printf.sprintf "op %d: one newCounter grew the file from %s to %s bytes" i (show_n !prev_size) (show_n size))
            | _ -> ());
           prev_size := size;
           prev_limit := limit
         done;
         let (final, final_sr) = read_file_tok c in
         if !st.w_bs <> final then
           diff "file-bytes" ~model:(Printf.sprintf "first difference at offset %d" (first_diff !st.w_bs final))
             ~impl:(Printf.sprintf "len %d" (List.length final));
         (match created_meta, final_sr with
          | Some m0, Some ((((hl, _), _), _), _)
            when init = [] && not (List.mem n0 m0)
                 && hl <> N.mul (N.div (N.add (len m0) (n_of_int 63)) (n_of_int 32)) (n_of_int 32) ->
            prop "header-length" (Printf.sprintf "file created with metadata of %s bytes has a header of %s bytes" (show_n (len m0)) (show_n hl))
          | _ -> ());
         (match created_meta, final_sr with
          | Some m0, Some ((((_, m1), _), _), _) when m0 <> m1 && not (List.mem n0 m0) ->
            prop "meta-readback" (Printf.sprintf "the file was created with metadata %s and now carries %s"
                                    (clip300 (String.escaped (str m0))) (clip300 (String.escaped (str m1))))
          | _ -> ());
         if !meta_ok && init_wf then begin
           if final_sr = None then
             prop "wf-file" (Printf.sprintf "the file written by the library does not follow the v1 layout (%d bytes)" (List.length final))
           else begin
             match records_map final_sr with
             | None -> ()
             | Some l ->
               let got = List.sort compare (List.map (fun (k, v) -> (k, tok_of_n v)) l) in
               let want = List.sort compare (Hashtbl.fold (fun k v acc -> (k, tok_of_n v) :: acc) expect []) in
               if got <> want then
                 prop "readback"
                   (Printf.sprintf "independent decoder reads %d records, operations wrote %d; first mismatch: %s"
                      (List.length got) (List.length want)
                      (let rec fm a b = match a, b with
                          | x :: a', y :: b' -> if x = y then fm a' b' else
                              Printf.sprintf "read %s=%s want %s=%s" (String.escaped (fst x)) (snd x) (String.escaped (fst y)) (snd y)
                          | x :: _, [] -> "extra " ^ String.escaped (fst x)
                          | [], y :: _ -> "missing " ^ String.escaped (fst y)
                          | [], [] -> "-" in fm got want))
           end
         end
       end)
  | "spec" ->
    let meta = next_bytes c in
    let policy = next c in
    let cs = next_list c (fun c -> let nm = next_bytes c in let v = next_n c in (nm, v)) in
    let (data, data_sr) = read_file_tok c in
    let real = read_parse_obs c in
    (* the harness's encoder against the Coq reader of the layout *)
    (* policies ending in -exactlimit store the exact end of the last record's bytes as the
       limit (v1: "the byte offset of the end of counter records", not a multiple of 32);
       the layout checker accepts that, so these files go the same way as all the others:
       Coq reader of the layout, the model of Parse and the real Parse *)
    if data_sr = None then diff "spec-file-wf" ~model:"not well-formed" ~impl:policy
    else begin
      let want = norm_obs (match meta_kv meta with Some kv -> kv | None -> [])
          (List.map (fun (nm, v) -> (decode_stack nm, v)) cs) in
      let spec = obs_of_spec data_sr in
      let clash = (match recs_of data_sr with Some rs -> twin_clash_from [] rs | None -> false) in
      (* decoded names may coincide (last in bucket order wins), so the given list
         is compared as a map only when all expanded names are distinct *)
      let dn = List.map (fun (nm, _) -> str (decode_stack nm)) cs in
      let distinct = List.length (List.sort_uniq compare dn) = List.length dn in
      if distinct && spec <> want then diff "spec-decode" ~model:(show_obs spec) ~impl:(show_obs want);
      if policy = "t00000000-x0" then begin
        match spec_encode meta cs with
        | Some bs -> if bs <> data then
            diff "spec-encode-bytes" ~model:(Printf.sprintf "first difference at %d" (first_diff bs data)) ~impl:"-"
        | None -> diff "spec-encode-bytes" ~model:"none" ~impl:"-"
      end;
      check_eq "parse-of-spec-file" show_obs (obs_of_model (parse data)) real;
      if real <> spec then
        prop (if clash then "parse-expanded-twin" else "library-reads-spec-file")
          (Printf.sprintf "independent encoder policy %s: Parse=%s layout says %s" policy
             (let s = show_obs real in if String.length s > 300 then String.sub s 0 300 else s)
             (let s = show_obs spec in if String.length s > 300 then String.sub s 0 300 else s))
    end
  | "lockout" ->
    let meta = next_bytes c in
    let how = next_bytes c in
    let (data, sr) = read_file_tok c in
    let found = match sr with Some ((((_, m), _), _), _) -> "metadata in the file: " ^ clip300 (String.escaped (str m))
                            | None -> "the file does not follow the v1 layout" in
    ignore data;
    prop "own-file-refused"
      (Printf.sprintf "the writer that created the file with metadata %s cannot open it any more %s (%s)"
         (clip300 (String.escaped (str meta))) (str how) found)
  | "runaway" ->
    let nops = next_int c in
    let before = next_n c in
    let after = next_n c in
    let what = next c in
    prop "growth-bounded"
      (Printf.sprintf "after %d operations (%s) the file grew from %s to %s bytes: more than the two pages one record can need"
         nops what (show_n before) (show_n after))
  | "race" ->
    let kind = next c in
    let fault = next_int c in
    let meta = next_bytes c in
    let _present = next c in
    let init_tok = next c in
    let init = bytes_of_tok init_tok in
    let init_recs = if List.length init >= 16384 then records_map (spec_read init) else None in
    let w = next_int c in
    let progs = List.init w (fun _ ->
        next_list c (fun c ->
            let add = next_bool c in
            let name = next_bytes c in
            let delta = next_n c in
            (add, name, delta))) in
    let sched = next_list c (fun c -> next_int c) in
    let trace = List.map (fun _ -> let l = next_n c in let z = next_n c in (l, z)) sched in
    let results = List.init w (fun _ -> next_list c (fun c -> next c)) in
    let (final, final_sr) = read_file_tok c in
    let mprogs = List.map (List.map (fun (add, name, delta) -> if add then OpAdd (name, delta) else OpNew name)) progs in
    let msched = List.map nat_of_int sched in
    let show_res wr_done wr_failed res pc_s =
      if wr_done then "open" :: List.concat (List.map (fun r ->
          match r with ROk o -> ["ok"; tok_of_n o] | r -> [res_to_string r]) res)
      else if wr_failed then ["openfail"] else ["unfinished-at-pc-" ^ pc_s] in
    (* model: the same schedule on the file-system-call transition system *)
    (match grace meta init mprogs msched (if fault >= 0 then Some (nat_of_int fault) else None) with
     | None -> diff "race-header" ~model:"no header for this metadata" ~impl:"-"
     | Some (st, mtrace) ->
       if st.g_file <> final then
         diff "race-file-bytes" ~model:(Printf.sprintf "first difference at offset %d (model len %d)"
                                          (first_diff st.g_file final) (List.length st.g_file))
           ~impl:(Printf.sprintf "len %d" (List.length final));
       (* limit and size after every step (the limit word is meaningful once the first page exists) *)
       List.iteri (fun i ((ml, mz), (l, z)) ->
           if mz <> z || (int_of_n z >= 16384 && ml <> l) then
             diff (Printf.sprintf "race-step%d" i) ~model:(show_pair (ml, mz)) ~impl:(show_pair (l, z)))
         (List.combine mtrace trace);
       List.iteri (fun i (wr, res) ->
           let ms = show_res (wr.g_pc = GDone) (wr.g_pc = GFailed) wr.g_res (string_of_int (int_of_n (gpc_tag wr.g_pc))) in
           if ms <> res then
             diff (Printf.sprintf "race-writer%d" i) ~model:(String.concat " " ms) ~impl:(String.concat " " res))
         (List.combine st.g_ws results));
    (* the coarse model of C10_racing_creation (operations as single steps) where it applies *)
    if kind = "create" && fault < 0 then
      (match race meta init mprogs msched with
       | None -> ()
       | Some st ->
         if st.c_file <> final then
           diff "race-coarse-file-bytes" ~model:(Printf.sprintf "first difference at offset %d" (first_diff st.c_file final))
             ~impl:(Printf.sprintf "len %d" (List.length final));
         List.iteri (fun i (wr, res) ->
             let ms = show_res (wr.c_pc = CDone) (wr.c_pc = CFailed) wr.c_res (string_of_int (int_of_n (pc_tag wr.c_pc))) in
             if ms <> res then
               diff (Printf.sprintf "race-coarse-writer%d" i) ~model:(String.concat " " ms) ~impl:(String.concat " " res))
           (List.combine st.c_ws results));
    (* oracles on what the implementation did: at every step the limit does not
       shrink and stays within the file *)
    let prev = ref n0 in
    List.iteri (fun i (l, z) ->
        if int_of_n z >= 16384 then begin
          if n_lt l !prev then
            prop "limit-monotone" (Printf.sprintf "%d writers, schedule %s: after step %d the allocation limit is %s, it was %s"
                                     w (String.concat "" (List.map string_of_int sched)) i (show_n l) (show_n !prev));
          if n_lt z l then
            prop "limit-le-size" (Printf.sprintf "%d writers, schedule %s: after step %d limit %s size %s"
                                    w (String.concat "" (List.map string_of_int sched)) i (show_n l) (show_n z));
          prev := l
        end) trace;
    (* oracles on the real file: well-formed, limit within the file, and an
       independent reader finds every counter a writer was told it has *)
    let expect : (string, n) Hashtbl.t = Hashtbl.create 8 in
    (match init_recs with Some l -> List.iter (fun (k, v) -> Hashtbl.replace expect k v) l | None -> ());
    let two64 = n_of_hex "10000000000000000" in
    List.iter2 (fun prog res ->
        match res with
        | "open" :: rest ->
          let rec go prog rest = match prog, rest with
            | (add, name, delta) :: p', "ok" :: _ :: r' ->
              let cur = try Hashtbl.find expect (str name) with Not_found -> n0 in
              Hashtbl.replace expect (str name)
                (if add then snd (N.div_eucl (N.add cur delta) two64) else cur);
              go p' r'
            | _ :: p', _ :: r' -> go p' r'
            | _ -> () in
          go prog rest
        | _ -> ()) progs results;
    if List.length final >= 16384 then begin
      match final_sr with
      | None -> prop "wf-file" (Printf.sprintf "%d writers racing on one file: the result does not follow the v1 layout (%d bytes)" w (List.length final))
      | Some _ ->
        let lim = limit_of final in
        if n_lt (len final) lim then prop "limit-le-size" (Printf.sprintf "limit %s size %d" (show_n lim) (List.length final));
        (match records_map final_sr with
         | None -> ()
         | Some l ->
           let got = List.sort compare (List.map (fun (k, v) -> (k, tok_of_n v)) l) in
           let want = List.sort compare (Hashtbl.fold (fun k v acc -> (k, tok_of_n v) :: acc) expect []) in
           if got <> want then
             prop "readback"
               (Printf.sprintf "%d writers racing on one file, schedule %s: independent decoder reads %d records, the writers were told they wrote %d: read [%s] want [%s]"
                  w (String.concat "" (List.map string_of_int sched)) (List.length got) (List.length want)
                  (clip300 (String.concat ";" (List.map (fun (k, v) -> String.escaped k ^ "=" ^ v) got)))
                  (clip300 (String.concat ";" (List.map (fun (k, v) -> String.escaped k ^ "=" ^ v) want)))))
    end else if Hashtbl.length expect > 0 then
      prop "readback" (Printf.sprintf "file of %d bytes although %d counters were written" (List.length final) (Hashtbl.length expect))
  | k -> diff "unknown-case-kind" ~model:k ~impl:"-"

let () = run_file Sys.argv.(1) handle
