(* stackconc_main.ml: C15 under concurrency.  One case = one scenario of the
   real StackCounter.Inc run by several goroutines under the deterministic
   scheduler on one schedule; compared with Model/StackConc (atomic Incs) and
   checked against the property: one counter per call stack, holding all Incs. *)
let handle kind c =
  match kind with
  | "sconc" ->
    let status = next c in
    let threads = next_list c (fun c -> let sid = next_n c in let k = next_int c in (sid, k)) in
    let sched = next_list c next_int in
    let counters = next_list c (fun c -> let sid = next_n c in let v = next_n c in let nm = next_bytes c in (sid, v, nm)) in
    let readstack = next_list c (fun c -> let nm = next_bytes c in let v = next_n c in (nm, v)) in
    let show_sched = String.concat "," (List.map string_of_int sched) in
    if status <> "ok" then prop "concurrent-inc-completes" (Printf.sprintf "status=%s schedule=%s" status show_sched)
    else begin
      (* model: any order of the atomic Incs gives the same per-stack result *)
      let hist = List.concat_map (fun (sid, k) -> List.init k (fun _ -> [sid])) threads in
      let st = run_atomic hist in
      let sids = List.sort_uniq compare (List.map fst threads @ List.map (fun (s, _, _) -> s) counters) in
      List.iter (fun sid ->
          let key = [sid] in
          let m_entries = int_of_nat (entries key st) in
          let m_total = total key st in
          let mine = List.filter (fun (s, _, _) -> s = sid) counters in
          let i_entries = List.length mine in
          let i_total = List.fold_left (fun acc (_, v, _) -> int_of_n v + acc) 0 mine in
          let incs = List.fold_left (fun acc (s, k) -> if s = sid then acc + k else acc) 0 threads in
          if m_entries <> i_entries then diff "counters-per-stack" ~model:(string_of_int m_entries) ~impl:(string_of_int i_entries);
          if int_of_n m_total <> i_total then diff "total-per-stack" ~model:(tok_of_n m_total) ~impl:(string_of_int i_total);
          (* property oracles on the implementation's observations *)
          if incs > 0 && i_entries <> 1 then
            prop "same-stack-same-counter-concurrent"
              (Printf.sprintf "call stack %d incremented %d times by concurrent goroutines owns %d counters (Counters()); schedule=%s"
                 (int_of_n sid) incs i_entries show_sched);
          if i_total <> incs then
            prop "concurrent-incs-counted"
              (Printf.sprintf "call stack %d: %d Incs, counters hold %d; schedule=%s" (int_of_n sid) incs i_total show_sched);
          (* ReadStack (keyed by decoded name) must report all increments of the stack *)
          (match mine with
           | (_, _, nm) :: _ ->
             let rs = List.fold_left (fun acc (n, v) -> if n = nm then acc + int_of_n v else acc) 0 readstack in
             if rs <> incs then
               prop "readstack-total"
                 (Printf.sprintf "call stack %d: %d Incs, ReadStack reports %d; schedule=%s" (int_of_n sid) incs rs show_sched)
           | [] -> ())) sids;
      (* names unique among the counters of one StackCounter here (the stacks differ in a non-generic frame) *)
      let names = List.map (fun (_, _, nm) -> nm) counters in
      if List.length (List.sort_uniq compare names) <> List.length names then
        prop "same-stack-same-counter-concurrent" ("duplicate names in Names(); schedule=" ^ show_sched)
    end
  | k -> diff "unknown-case-kind" ~model:k ~impl:"-"

let () = run_file Sys.argv.(1) handle
