(* bucket_main.ml: evaluates the extracted Model/Bucket on the observations of
   harness vh_bucket (C18).
   DIFF = model of the directory tree (step_fs) vs the real FSBucket;
   PROP = the property's specification (the strict map: step_spec true)
          evaluated on the REAL results. *)

let hex b = tok_of_bytes b
let show_rres = function
  | ROk c -> "ok:" ^ hex c
  | RNotExist -> "notexist"
  | RIsDir -> "isdir"
  | RNotDir -> "notdir"
let show_res = function
  | RW ok -> "W:" ^ string_of_bool ok
  | RR r -> "R:" ^ show_rres r
  | RL l -> "L:" ^ String.concat "," (List.map hex l)
  | RC ok -> "C:" ^ string_of_bool ok

(* observation of one operation: the operation, the bucket's answer rendered
   like show_res, the content of a successful read, and for listings the
   kind of context used and whether the iterator surfaced an error *)
type obs = { op : op; w : wop option; impl : string; impl_rres : rres option; lctx : string; lerr : bool; lnames : n list list }
let mk op impl = { op; w = None; impl; impl_rres = None; lctx = "live"; lerr = false; lnames = [] }
(* writer operations (handles); op is a placeholder then *)
let mkw w impl = { (mk (OList []) impl) with w = Some w }
let show_wres = function WR r -> show_res r | WOk ok -> "O:" ^ string_of_bool ok
let show_wop = function
  | WPlain _ -> "plain"
  | WOpen n -> Printf.sprintf "open-writer(%S)" (string_of_bytes n)
  | WWrite (k, d) -> Printf.sprintf "writer#%d.write(%d bytes)" (int_of_nat k) (List.length d)
  | WClose k -> Printf.sprintf "writer#%d.close()" (int_of_nat k)
let parse_op c =
  match next c with
  | "w" ->
    let n = next_bytes c in
    let ct = next_bytes c in
    let ok = next_bool c in
    mk (OWrite (n, ct)) ("W:" ^ string_of_bool ok)
  | "r" ->
    let n = next_bytes c in
    let tag = next c in
    let data = next_bytes c in
    { (mk (ORead n) ("R:" ^ (if tag = "ok" then "ok:" ^ hex data else tag))) with
      impl_rres = (if tag = "ok" then Some (ROk data) else None) }
  | "l" ->
    let p = next_bytes c in
    let lctx = next c in
    let lerr = next_bool c in
    let names = next_list c next_bytes in
    { (mk (OList p) ("L:" ^ String.concat "," (List.map hex names) ^ (if lerr then "!error" else ""))) with
      lctx; lerr; lnames = names }
  | "c" ->
    let d = next_bytes c in
    let sr = next_bytes c in
    let ok = next_bool c in
    mk (OCopy (d, sr)) ("C:" ^ string_of_bool ok)
  | "wo" ->
    let n = next_bytes c in
    let ok = next_bool c in
    mkw (WOpen n) ("O:" ^ string_of_bool ok)
  | "ww" ->
    let k = next_int c in
    let d = next_bytes c in
    let ok = next_bool c in
    mkw (WWrite (nat_of_int k, d)) ("O:" ^ string_of_bool ok)
  | "wc" ->
    let k = next_int c in
    let ok = next_bool c in
    mkw (WClose (nat_of_int k)) ("O:" ^ string_of_bool ok)
  | t -> failwith ("bad op tag " ^ t)

let show_op = function
  | OWrite (n, ct) -> Printf.sprintf "write(%S,%d bytes)" (string_of_bytes n) (List.length ct)
  | ORead n -> Printf.sprintf "read(%S)" (string_of_bytes n)
  | OList p -> Printf.sprintf "list(%S)" (string_of_bytes p)
  | OCopy (d, sr) -> Printf.sprintf "copy(dst=%S,src=%S)" (string_of_bytes d) (string_of_bytes sr)

let show_tree l =
  String.concat ";" (List.map (fun (p, k, ct) -> Printf.sprintf "%s:%s:%s" (hex p) k (hex ct)) l)

(* per bucket: the strict specification map and the name last copied onto itself *)
type bstate = { mutable sp : (n list list * n list) list; mutable self_copied : n list option;
                mutable hs : handle list (* the writers opened so far, as the specification sees them *) }
let new_bstate () = { sp = []; self_copied = None; hs = [] }

(* PROP: the property's specification (strict map) on the REAL answer of one operation *)
let rec judge label st (o : obs) =
  match o.w with
  | Some w ->
    (* a writer operation: the strict specification appends to the writer's object *)
    let (rs, (sp', hs')) = step_w_spec true (st.sp, st.hs) w in
    if show_wres rs <> o.impl then
      prop "stream-write" (Printf.sprintf "%s %s: property expects %s, bucket answered %s" label (show_wop w) (show_wres rs) o.impl);
    st.sp <- sp'; st.hs <- hs'; st.self_copied <- None
  | None -> judge_plain label st o
and judge_plain label st (o : obs) =
  let op = o.op in
  let (rs, sp') = step_spec true st.sp op in
  let sp' = ref sp' in
  (match op with
   | OList _ ->
     let complete = (match rs with RL l -> l | _ -> []) in
     if not (listing_ok complete (o.lerr, o.lnames)) then begin
       let cls =
         if deviating st.sp op then "list-below-non-utf8-dir"
         else if o.lctx <> "live" then "list-truncated-without-error"
         else "list-exact" in
       prop cls (Printf.sprintf "%s %s with a %s context: no error surfaced, the complete listing is %s, bucket answered %s"
                   label (show_op op) o.lctx (show_res rs) o.impl)
     end
   | _ ->
     if show_res rs <> o.impl then begin
       let cls = match op with
         | OWrite _ -> "write-outcome"
         | ORead n ->
           (match rs with
            | RR (ROk _) ->
              if st.self_copied = Some n then begin
                (* judge later operations against what the bucket really holds now *)
                (match o.impl_rres with Some (ROk ct) -> sp' := sput (components n) ct !sp' | _ -> ());
                "copy-onto-itself"
              end else "write-read"
            | _ -> if collides (components n) st.sp then "read-absent-colliding" else "read-absent")
         | OList _ -> "list-exact"
         | OCopy (d, sr) -> if d = sr then "copy-onto-itself" else "copy-outcome" in
       prop cls (Printf.sprintf "%s %s: property expects %s, bucket answered %s" label (show_op op) (show_res rs) o.impl)
     end);
  st.self_copied <- (match op with OCopy (d, sr) when d = sr -> Some d | _ -> None);
  st.sp <- !sp'

let parse_tree c =
  next_list c (fun c -> let p = next_bytes c in let k = next c in let ct = next_bytes c in (p, k, ct))
let model_tree m =
  List.filter_map (fun (p, e) ->
      if p = [] then None else
        Some (match e with F ct -> (join_path p, "f", ct) | D -> (join_path p, "d", []))) m
let check_tree label m st tree =
  (* the directory tree on disk vs the model tree *)
  let mtree = model_tree m in
  if mtree <> tree then diff (label ^ "tree") ~model:(show_tree mtree) ~impl:(show_tree tree);
  (* the regular files on disk are exactly the map of the specification *)
  let files = List.filter_map (fun (p, k, ct) -> if k = "f" then Some (p, ct) else None) tree in
  let smap = List.map (fun (p, ct) -> (join_path p, ct)) st.sp in
  if files <> smap then
    prop "stored-set" (Printf.sprintf "%sfiles on disk %s, specification map %s" label
                         (show_tree (List.map (fun (p, ct) -> (p, "f", ct)) files))
                         (show_tree (List.map (fun (p, ct) -> (p, "f", ct)) smap)))

(* the model's answer to one observation, rendered like the implementation's *)
let model_answer m (o : obs) =
  match o.op with
  | OList p ->
    let (err, names) = list_ctx (o.lctx <> "live") m p in
    ("L:" ^ String.concat "," (List.map hex names) ^ (if err then "!error" else ""), m)
  | op -> let (rm, m') = step_fs m op in (show_res rm, m')

let handle kind c =
  match kind with
  | "ops" ->
    (* how the storage root was spelled (absolute / relative to the working directory): no input of the model,
       a bucket is the directory it denotes *)
    let spelling = next_bytes c in
    let ops = next_list c parse_op in
    let confined = next_bool c in
    let tree = parse_tree c in
    let fs = ref fs_init in
    let mhs = ref [] in
    let st = new_bstate () in
    let i = ref 0 in
    List.iter (fun o ->
        incr i;
        (match o.w with
         | Some w ->
           let (rm, (fs', hs')) = step_w (!fs, !mhs) w in
           if show_wres rm <> o.impl then diff (Printf.sprintf "op%d-%s" !i (show_wop w)) ~model:(show_wres rm) ~impl:o.impl;
           fs := fs'; mhs := hs'
         | None ->
           let (ma, fs') = model_answer !fs o in
           if ma <> o.impl then diff (Printf.sprintf "op%d-%s" !i (show_op o.op)) ~model:ma ~impl:o.impl;
           fs := fs');
        judge (Printf.sprintf "%sop %d" (if spelling = [] then "" else Printf.sprintf "storage root spelled %S: " (string_of_bytes spelling)) !i) st o) ops;
    if not confined then prop "confined" "a path outside the bucket directory was created or changed";
    check_tree "" !fs st tree
  | "multi" ->
    (* two storage roots x three bucket names in one process; a bucket is (root, name) *)
    (* an operation addressed to bucket (r, j); "x" = storage.Copy from (r, j) to another bucket *)
    let ops = next_list c (fun c ->
        let r = next_n c in
        let j = next_n c in
        if next c = "x" then begin
          let r2 = next_n c in let j2 = next_n c in
          let d = next_bytes c in let sr = next_bytes c in let ok = next_bool c in
          ((r, j), { (mk (OCopy (d, sr)) ("C:" ^ string_of_bool ok)) with lctx = "cross" }, Some (r2, j2))
        end else begin
          c.pos <- c.pos - 1;
          ((r, j), parse_op c, None)
        end) in
    let confined = next_bool c in
    let w = ref world_init in
    let states = Hashtbl.create 8 in
    let state_of b = match Hashtbl.find_opt states b with
      | Some st -> st
      | None -> let st = new_bstate () in Hashtbl.add states b st; st in
    let i = ref 0 in
    List.iter (fun (b, o, cross) ->
        incr i;
        let label = Printf.sprintf "op %d on bucket (root %d, name %d)" !i (int_of_n (fst b)) (int_of_n (snd b)) in
        match cross, o.op with
        | Some b2, OCopy (d, sr) ->
          (* Copy(dst in b2, src in b) = write(dst, read(src)), composed of the proved operations *)
          let expect read_src write_dst = match read_src with
            | RR (ROk ct) -> (match write_dst ct with RW ok -> ok | _ -> false)
            | _ -> false in
          let label = Printf.sprintf "%s copy to bucket (root %d, name %d) dst=%S src=%S" label
              (int_of_n (fst b2)) (int_of_n (snd b2)) (string_of_bytes d) (string_of_bytes sr) in
          (* model *)
          let ((_, rsrc), _) = step_world !w (b, ORead sr) in
          let mok = expect rsrc (fun ct -> let ((_, r), w') = step_world !w (b2, OWrite (d, ct)) in w := w'; r) in
          if ("C:" ^ string_of_bool mok) <> o.impl then diff (Printf.sprintf "op%d-cross-copy" !i) ~model:(string_of_bool mok) ~impl:o.impl;
          (* property: the strict maps of the two buckets *)
          let ss = state_of b and sd = state_of b2 in
          let (rs, _) = step_spec true ss.sp (ORead sr) in
          let sok = expect rs (fun ct -> let (r, sp') = step_spec true sd.sp (OWrite (d, ct)) in sd.sp <- sp'; r) in
          if ("C:" ^ string_of_bool sok) <> o.impl then
            prop "copy-outcome" (Printf.sprintf "%s: property expects %b, storage.Copy answered %s" label sok o.impl)
        | _ ->
        (* model: the world of independent buckets *)
        (match o.op with
         | OList _ ->
           let (ma, _) = model_answer (!w b) o in
           if ma <> o.impl then diff (Printf.sprintf "op%d-%s" !i (show_op o.op)) ~model:ma ~impl:o.impl
         | op ->
           let ((_, rm), w') = step_world !w (b, op) in
           if show_res rm <> o.impl then diff (Printf.sprintf "op%d-%s" !i (show_op op)) ~model:(show_res rm) ~impl:o.impl;
           w := w');
        (* property: every bucket is its own map *)
        judge label (state_of b) o) ops;
    if not confined then prop "confined" "a path outside the bucket directories was created or changed";
    List.iter (fun r ->
        List.iter (fun j ->
            let b = (n_of_int r, n_of_int j) in
            let tree = parse_tree c in
            check_tree (Printf.sprintf "bucket (root %d, name %d): " r j) (!w b) (state_of b) tree) [0; 1; 2]) [0; 1]
  | "resolve" ->
    let name = next_bytes c in
    let tag = next c in
    let rel = next_bytes c in
    let (mtag, mrel) = match resolve name with
      | Inside p -> ("in", join_path p)
      | Escapes -> ("out", []) in
    if mtag <> tag || mrel <> rel then
      diff "resolve" ~model:(mtag ^ ":" ^ string_of_bytes mrel) ~impl:(tag ^ ":" ^ string_of_bytes rel);
    if name_ok name && (tag <> "in" || rel <> name) then
      prop "name-inside" (Printf.sprintf "ordinary name %S resolves to %s:%S" (string_of_bytes name) tag (string_of_bytes rel))
  | "svc" ->
    let inside what name tag rel =
      if not (name_ok name) then
        prop "service-name-inside" (Printf.sprintf "%s name %S has an empty, '.' or '..' component" what (string_of_bytes name))
      else if tag <> "in" || rel <> name then
        prop "service-name-inside" (Printf.sprintf "%s name %S resolves to %s:%S" what (string_of_bytes name) tag (string_of_bytes rel)) in
    (match next c with
     | "upload" ->
       let week = next_bytes c in
       let accepted = next_bool c in
       let xs = next_bytes c in
       let name = next_bytes c in
       let tag = next c in
       let rel = next_bytes c in
       let macc = (parse_date week <> None) in
       if macc <> accepted then diff "week-parse" ~model:(string_of_bool macc) ~impl:(string_of_bool accepted);
       check_eq "upload-name" string_of_bytes (upload_name week xs) name;
       if accepted then begin
         if not (g_string xs) then prop "g-alphabet" (Printf.sprintf "%%g rendering %S" (string_of_bytes xs));
         inside "upload" name tag rel
       end
     | "merge" ->
       let date = next_bytes c in
       let accepted = next_bool c in
       let name = next_bytes c in
       let tag = next c in
       let rel = next_bytes c in
       let macc = (parse_date date <> None) in
       if macc <> accepted then diff "date-parse" ~model:(string_of_bool macc) ~impl:(string_of_bool accepted);
       check_eq "merge-name" string_of_bytes (merge_name date) name;
       if accepted then inside "merge" name tag rel
     | "chart" ->
       let s = next_z c in
       let e = next_z c in
       let name = next_bytes c in
       let tag = next c in
       let rel = next_bytes c in
       check_eq "chart-name" string_of_bytes (chart_name s e) name;
       inside "chart" name tag rel
     | t -> failwith ("bad svc tag " ^ t))
  | "resolve-touched-disk" -> prop "confined" "constructing object handles touched the disk"
  | k -> diff "unknown-case-kind" ~model:k ~impl:"-"

let () = run_file Sys.argv.(1) handle
