(* bucket_main.ml: evaluates the extracted Model/Bucket on the observations of
   harness vh_bucket (C18).
   DIFF = model of the directory tree (step_fs) vs the real FSBucket;
   PROP = the property's specification (the strict map: step_spec true)
          evaluated on the REAL results. *)

let hex b = tok_of_bytes b
let show_rres = function
  | ROk c -> "ok:" ^ hex c
  | RNotExist -> "notexist"
  | RIsDir -> "isdir"
  | RNotDir -> "notdir"
let show_res = function
  | RW ok -> "W:" ^ string_of_bool ok
  | RR r -> "R:" ^ show_rres r
  | RL l -> "L:" ^ String.concat "," (List.map hex l)
  | RC ok -> "C:" ^ string_of_bool ok

let parse_op c =
  match next c with
  | "w" ->
    let n = next_bytes c in
    let ct = next_bytes c in
    let ok = next_bool c in
    (OWrite (n, ct), "W:" ^ string_of_bool ok, None)
  | "r" ->
    let n = next_bytes c in
    let tag = next c in
    let data = next_bytes c in
    (ORead n, "R:" ^ (if tag = "ok" then "ok:" ^ hex data else tag), (if tag = "ok" then Some (ROk data) else None))
  | "l" ->
    let p = next_bytes c in
    let names = next_list c next_bytes in
    (OList p, "L:" ^ String.concat "," (List.map hex names), None)
  | "c" ->
    let d = next_bytes c in
    let sr = next_bytes c in
    let ok = next_bool c in
    (OCopy (d, sr), "C:" ^ string_of_bool ok, None)
  | t -> failwith ("bad op tag " ^ t)

let show_op = function
  | OWrite (n, ct) -> Printf.sprintf "write(%S,%d bytes)" (string_of_bytes n) (List.length ct)
  | ORead n -> Printf.sprintf "read(%S)" (string_of_bytes n)
  | OList p -> Printf.sprintf "list(%S)" (string_of_bytes p)
  | OCopy (d, sr) -> Printf.sprintf "copy(dst=%S,src=%S)" (string_of_bytes d) (string_of_bytes sr)

let show_tree l =
  String.concat ";" (List.map (fun (p, k, ct) -> Printf.sprintf "%s:%s:%s" (hex p) k (hex ct)) l)

let handle kind c =
  match kind with
  | "ops" ->
    let ops = next_list c parse_op in
    let confined = next_bool c in
    let tree = next_list c (fun c ->
        let p = next_bytes c in let k = next c in let ct = next_bytes c in (p, k, ct)) in
    let fs = ref fs_init in
    let sp = ref [] in
    let i = ref 0 in
    let self_copied = ref None in
    List.iter (fun (op, impl, impl_rres) ->
        incr i;
        let (rm, fs') = step_fs !fs op in
        if show_res rm <> impl then
          diff (Printf.sprintf "op%d-%s" !i (show_op op)) ~model:(show_res rm) ~impl;
        fs := fs';
        let (rs, sp') = step_spec true !sp op in
        let sp' = ref sp' in
        if show_res rs <> impl then begin
          let cls = match op with
            | OWrite _ -> "write-outcome"
            | ORead n ->
              (match rs with
               | RR (ROk _) ->
                 if !self_copied = Some n then begin
                   (* judge later operations against what the bucket really holds now *)
                   (match impl_rres with Some (ROk ct) -> sp' := sput (components n) ct !sp' | _ -> ());
                   "copy-onto-itself"
                 end else "write-read"
               | _ -> if collides (components n) !sp then "read-absent-colliding" else "read-absent")
            | OList _ -> if deviating !sp op then "list-below-non-utf8-dir" else "list-exact"
            | OCopy (d, sr) -> if d = sr then "copy-onto-itself" else "copy-outcome" in
          prop cls (Printf.sprintf "op %d %s: property expects %s, bucket answered %s" !i (show_op op) (show_res rs) impl)
        end;
        self_copied := (match op with OCopy (d, sr) when d = sr -> Some d | _ -> None);
        sp := !sp') ops;
    if not confined then prop "confined" "a path outside the bucket directory was created or changed";
    (* the directory tree on disk vs the model tree *)
    let mtree = List.filter_map (fun (p, e) ->
        if p = [] then None else
          Some (match e with F ct -> (join_path p, "f", ct) | D -> (join_path p, "d", []))) !fs in
    if mtree <> tree then diff "tree" ~model:(show_tree mtree) ~impl:(show_tree tree);
    (* the regular files on disk are exactly the map of the specification *)
    let files = List.filter_map (fun (p, k, ct) -> if k = "f" then Some (p, ct) else None) tree in
    let smap = List.map (fun (p, ct) -> (join_path p, ct)) !sp in
    if files <> smap then
      prop "stored-set" (Printf.sprintf "files on disk %s, specification map %s"
                           (show_tree (List.map (fun (p, ct) -> (p, "f", ct)) files))
                           (show_tree (List.map (fun (p, ct) -> (p, "f", ct)) smap)))
  | "resolve" ->
    let name = next_bytes c in
    let tag = next c in
    let rel = next_bytes c in
    let (mtag, mrel) = match resolve name with
      | Inside p -> ("in", join_path p)
      | Escapes -> ("out", []) in
    if mtag <> tag || mrel <> rel then
      diff "resolve" ~model:(mtag ^ ":" ^ string_of_bytes mrel) ~impl:(tag ^ ":" ^ string_of_bytes rel);
    if name_ok name && (tag <> "in" || rel <> name) then
      prop "name-inside" (Printf.sprintf "ordinary name %S resolves to %s:%S" (string_of_bytes name) tag (string_of_bytes rel))
  | "svc" ->
    let inside what name tag rel =
      if not (name_ok name) then
        prop "service-name-inside" (Printf.sprintf "%s name %S has an empty, '.' or '..' component" what (string_of_bytes name))
      else if tag <> "in" || rel <> name then
        prop "service-name-inside" (Printf.sprintf "%s name %S resolves to %s:%S" what (string_of_bytes name) tag (string_of_bytes rel)) in
    (match next c with
     | "upload" ->
       let week = next_bytes c in
       let accepted = next_bool c in
       let xs = next_bytes c in
       let name = next_bytes c in
       let tag = next c in
       let rel = next_bytes c in
       let macc = (parse_date week <> None) in
       if macc <> accepted then diff "week-parse" ~model:(string_of_bool macc) ~impl:(string_of_bool accepted);
       check_eq "upload-name" string_of_bytes (upload_name week xs) name;
       if accepted then begin
         if not (g_string xs) then prop "g-alphabet" (Printf.sprintf "%%g rendering %S" (string_of_bytes xs));
         inside "upload" name tag rel
       end
     | "merge" ->
       let date = next_bytes c in
       let accepted = next_bool c in
       let name = next_bytes c in
       let tag = next c in
       let rel = next_bytes c in
       let macc = (parse_date date <> None) in
       if macc <> accepted then diff "date-parse" ~model:(string_of_bool macc) ~impl:(string_of_bool accepted);
       check_eq "merge-name" string_of_bytes (merge_name date) name;
       if accepted then inside "merge" name tag rel
     | "chart" ->
       let s = next_z c in
       let e = next_z c in
       let name = next_bytes c in
       let tag = next c in
       let rel = next_bytes c in
       check_eq "chart-name" string_of_bytes (chart_name s e) name;
       inside "chart" name tag rel
     | t -> failwith ("bad svc tag " ^ t))
  | "resolve-touched-disk" -> prop "confined" "constructing object handles touched the disk"
  | k -> diff "unknown-case-kind" ~model:k ~impl:"-"

let () = run_file Sys.argv.(1) handle
