(* c02_main.ml: evaluates the extracted Model/Mode + Model/Gating on the
   observations of the harnesses vh_mode and vh_gating, and the property's
   executable oracle on the implementation's observations. *)

let bs = bytes_of_string
let show = string_of_bytes
let esc b = String.escaped (string_of_bytes b)
let billion = z_of_int 1000000000
let ns_of sec nsec = Z.add (Z.mul sec billion) nsec
let d86400 = z_of_int 86400

let file_of tag content = if tag = "file" then Some content else None
let show_file = function None -> "(none)" | Some b -> "\"" ^ esc b ^ "\""
let sort_names l = List.sort compare (List.map string_of_bytes l)
let show_names l = "[" ^ String.concat "," (List.map String.escaped l) ^ "]"

let handle kind c =
  match kind with
  | "mode" ->
    let tag = next c in
    let content = next_bytes c in
    let m = next_bytes c in
    let day = next_z c in
    let iszero = next_bool c in
    let pub = next_bytes c in
    let same = next_bool c in
    let file = file_of tag content in
    let r = parse_mode file in
    check_eq "Mode-mode" esc (fst r) m;
    check_eq "Mode-date" tok_of_z (mode_time r) day;
    if iszero <> (Z.eqb (mode_time r) zero_day) then
      diff "Mode-IsZero" ~model:(string_of_bool (Z.eqb (mode_time r) zero_day)) ~impl:(string_of_bool iszero);
    check_eq "public-Mode" esc (fst r) pub;
    if not same then prop "mode_read_inert" "reading the mode changed the mode file";
    (* the mode is on (off) only if the file records exactly on (off): the bare word, or the word up
       to the first ASCII space, after trimming -- the format SetMode writes *)
    if (show m = "on" || show m = "off") && fst r <> m then
      prop "mode_exact" (Printf.sprintf "mode file %s read as \"%s\" (public Mode: \"%s\"); it records \"%s\""
                           (show_file file) (esc m) (esc pub) (esc (fst r)));
    if tag <> "file" && show m <> "local" then
      prop "unreadable_is_local" (Printf.sprintf "state=%s Mode()=%s" tag (esc m))
  | "nopath" ->
    let m = next_bytes c in
    let iszero = next_bool c in
    let err = next_bool c in
    let r = dir_mode false None in
    check_eq "nopath-mode" esc (fst r) m;
    if not iszero then diff "nopath-date" ~model:"zero" ~impl:"non-zero";
    if not err then diff "nopath-set" ~model:"error" ~impl:"nil"
  | "set" ->
    let tag = next c in
    let content = next_bytes c in
    let arg = next_bytes c in
    let asof = next_z c in
    let ok = next_bool c in
    let tag2 = next c in
    let content2 = next_bytes c in
    let m = next_bytes c in
    let day = next_z c in
    let _iszero = next_bool c in
    let file = file_of tag content in
    let file2 = file_of tag2 content2 in
    let (mfile, mok) = set_mode_file arg asof file in
    if mok <> ok then diff "SetModeAsOf-error" ~model:(string_of_bool mok) ~impl:(string_of_bool ok);
    check_eq "SetModeAsOf-file" show_file mfile file2;
    (* oracle on the implementation's own output *)
    let want = trim_space arg in
    if ok then begin
      if not (valid_mode want) then
        prop "set_mode_invalid" (Printf.sprintf "mode \"%s\" accepted" (esc arg));
      if m <> want || day <> Z.div asof d86400 then
        prop "set_get_roundtrip"
          (Printf.sprintf "set (\"%s\", day %s) read back (\"%s\", day %s)" (esc arg)
             (tok_of_z (Z.div asof d86400)) (esc m) (tok_of_z day))
    end else begin
      if file2 <> file then
        prop "set_mode_invalid" (Printf.sprintf "rejected \"%s\" but the file changed: %s -> %s" (esc arg) (show_file file) (show_file file2))
    end
  | "pubset" ->
    let tag = next c in
    let content = next_bytes c in
    let arg = next_bytes c in
    let ok = next_bool c in
    let same = next_bool c in
    let mafter = next_bytes c in
    let iszero = next_bool c in
    let file = file_of tag content in
    let want = trim_space arg in
    let mok = valid_mode want in
    if mok <> ok then diff "SetMode-error" ~model:(string_of_bool mok) ~impl:(string_of_bool ok);
    if ok then begin
      if mafter <> want || iszero then
        prop "set_get_roundtrip" (Printf.sprintf "SetMode(\"%s\") read back \"%s\" zero-date=%b" (esc arg) (esc mafter) iszero)
    end else begin
      if not same then prop "set_mode_invalid" (Printf.sprintf "SetMode(\"%s\") rejected but the file changed" (esc arg));
      check_eq "SetMode-rejected-mode" esc (mode_of file) mafter
    end
  | "run" ->
    let how = next c in
    let mtag = next c in
    let mbytes = next_bytes c in
    let ss = next_z c in
    let sn = next_z c in
    let xkey = next_z c in
    let ratekey = next_z c in
    let status = next_z c in
    let lp = next_bool c in
    let damaged = ref [] in
    let entries = next_list c (fun c ->
        let name = next_bytes c in
        match next c with
        | "span" ->
          let b1 = next_z c in let b2 = next_z c in
          let e1 = next_z c in let e2 = next_z c in
          let cn = next_bool c in
          { lf_name = name; lf_span = Some (ns_of b1 b2, ns_of e1 e2); lf_counts = cn }
        | "endonly" ->
          let e1 = next_z c in let e2 = next_z c in
          let cn = next_bool c in
          damaged := (name, ns_of e1 e2) :: !damaged;
          { lf_name = name; lf_span = None; lf_counts = cn }
        | _ ->
          let cn = next_bool c in
          { lf_name = name; lf_span = None; lf_counts = cn }) in
    let up = next_bool c in
    let unames = next_list c next_bytes in
    let panicked = next_bool c in
    let reqs = next_list c next_bytes in
    let lp2 = next_bool c in
    let lafter = next_list c next_bytes in
    let up2 = next_bool c in
    let uafter = next_list c next_bytes in
    let modesame = next_bool c in
    let pre_unchanged = next_bool c in
    let newpaths = next_list c next_bytes in
    let _newdebug = next_int c in
    let baddebug = next_int c in
    let fs = { fs_mode = file_of mtag mbytes;
               fs_local = (if lp then Some entries else None);
               fs_upload = (if up then Some unames else None) } in
    let cfg = { rc_start = ns_of ss sn; rc_x = (fun _ -> xkey); rc_rate = ratekey; rc_resp = (fun _ -> status) } in
    (* the real entry point upload.Run: the rate is the published one (downloaded in mode on) *)
    let (effs, fs') =
      if how = "Run" then run_entry Z.ltb Z0 ratekey cfg fs else run Z.ltb Z0 cfg fs in
    (* model = implementation *)
    let mposts = List.sort compare (List.filter_map (function EPost (fd, _) -> Some ("POST /" ^ show fd) | _ -> None) effs) in
    let ireqs = sort_names reqs in
    check_eq "requests" show_names mposts ireqs;
    (* the model has no panic (uploader.Run is called directly, without upload.Run's recover) *)
    if how = "uploader" && panicked then diff "panic" ~model:"false" ~impl:"true";
    let ml = match fs'.fs_local with Some l -> Some (sort_names (List.map (fun f -> f.lf_name) l)) | None -> None in
    let il = if lp2 then Some (sort_names lafter) else None in
    let show_opt = function None -> "(absent)" | Some l -> show_names l in
    check_eq "local-after" show_opt ml il;
    let mu = match fs'.fs_upload with Some l -> Some (sort_names l) | None -> None in
    let iu = if up2 then Some (sort_names uafter) else None in
    check_eq "upload-after" show_opt mu iu;
    (* the property's oracle on the implementation's observations *)
    let mode = mode_of fs.fs_mode in
    let cls = if sentinel_involved fs then "zero-time-sentinel" else "gating_ok" in
    List.iter (fun r ->
        let r = show r in
        let pre = "POST /" in
        if String.length r < 6 || String.sub r 0 6 <> pre then prop "gating_ok" ("unexpected request " ^ String.escaped r)
        else begin
          let fd = bs (String.sub r 6 (String.length r - 6)) in
          if not (spec_post_allowed Z.ltb Z0 cfg fs fd) then
            prop cls (Printf.sprintf "request %s not allowed: mode file %s start=%s.%s x=%s rate=%s"
                        (String.escaped r) (show_file fs.fs_mode) (tok_of_z ss) (tok_of_z sn) (tok_of_z xkey) (tok_of_z ratekey))
        end) reqs;
    let before_names = List.map (fun f -> f.lf_name) entries in
    let is_upload_report n = has_suffix n json_suffix && not (has_prefix n local_prefix) in
    List.iter (fun n ->
        if not (List.mem n before_names) && is_upload_report n then begin
          let fd = trim_suffix n json_suffix in
          if not (spec_post_allowed Z.ltb Z0 cfg fs fd) then
            prop (if cls = "gating_ok" then "uploadable_ok" else cls)
              (Printf.sprintf "local/%s made uploadable but not allowed: mode file %s start=%s.%s x=%s rate=%s"
                 (esc n) (show_file fs.fs_mode) (tok_of_z ss) (tok_of_z sn) (tok_of_z xkey) (tok_of_z ratekey))
        end) lafter;
    List.iter (fun n ->
        if not (List.mem n unames) && has_suffix n json_suffix then begin
          let fd = trim_suffix n json_suffix in
          if not (List.mem (bs ("POST /" ^ show fd)) reqs) || status <> z_of_int 200 then
            prop "gating_ok" (Printf.sprintf "upload/%s recorded without an acknowledged request" (esc n))
        end) uafter;
    (* a count file whose collection time is unknown must not end up in anything uploadable *)
    let removed = List.filter (fun n -> not (List.mem n lafter)) before_names in
    let upl_weeks =
      List.filter_map (fun r -> let r = show r in
                        if String.length r >= 6 && String.sub r 0 6 = "POST /" then Some (bs (String.sub r 6 (String.length r - 6))) else None) reqs
      @ List.filter_map (fun n -> if not (List.mem n before_names) && is_upload_report n then Some (trim_suffix n json_suffix) else None) lafter in
    if not (spec_unknown_begin_ok (snd (parse_mode fs.fs_mode)) !damaged removed upl_weeks) then
      prop "unknown_begin_uploaded"
        (Printf.sprintf "count file(s) without a usable TimeBegin (%s) were consumed and their week made uploadable (%s): mode file %s"
           (String.concat "," (List.map (fun (n, _) -> esc n) !damaged))
           (String.concat "," (List.map esc upl_weeks)) (show_file fs.fs_mode));
    if not modesame then prop "modefile_unchanged" "the uploader changed the mode file";
    if baddebug > 0 then prop "snapshot_unchanged" "unexpected new file under debug/";
    if beq mode m_off then begin
      let extra = List.filter (fun p -> show p <> "upload") newpaths in
      if not pre_unchanged || extra <> [] || reqs <> [] then
        prop "snapshot_unchanged"
          (Printf.sprintf "mode off: existing-files-unchanged=%b new=%s requests=%d" pre_unchanged
             (show_names (List.map show newpaths)) (List.length reqs))
    end;
    if not (beq mode m_on) && not (beq mode m_off) then begin
      (* any other value / unreadable behaves as local *)
      let fsl = { fs with fs_mode = Some (bs "local") } in
      let (effl, fsl') = run Z.ltb Z0 cfg fsl in
      let ll = match fsl'.fs_local with Some l -> Some (sort_names (List.map (fun f -> f.lf_name) l)) | None -> None in
      let lu = match fsl'.fs_upload with Some l -> Some (sort_names l) | None -> None in
      if il <> ll || iu <> lu || reqs <> [] || List.exists (function EPost _ -> true | _ -> false) effl then
        prop "other_is_local"
          (Printf.sprintf "mode file %s: local/ after=%s, mode local gives %s; requests=%d" (show_file fs.fs_mode)
             (show_opt il) (show_opt ll) (List.length reqs))
    end
  | "rot" ->
    let m1tag = next c in let m1 = next_bytes c in
    let m2tag = next c in let m2 = next_bytes c in
    let preadd = next_bool c in
    let expired = next_bool c in
    let ch1 = next_bool c in let cr1 = next_int c in
    let ch2 = next_bool c in let cr2 = next_int c in
    let ch3 = next_bool c in let cr3 = next_int c in
    let ch4 = next_bool c in let cr4 = next_int c in
    let fs0 = { fs_mode = file_of m1tag m1; fs_local = Some []; fs_upload = None } in
    let stage name ops st (ch, cr) =
      let (effs, st') = exec Z.ltb Z0 ops st in
      let madd = List.exists (function ECounterAdd -> true | _ -> false) effs in
      let mfile = List.exists (function ECounterFile -> true | _ -> false) effs in
      (* a first file both creates and is then written: "changed" is about files that existed before the stage *)
      if mfile <> (cr > 0) then diff (name ^ "-created") ~model:(string_of_bool mfile) ~impl:(string_of_int cr);
      let mch = madd && not mfile in
      if mch <> ch then diff (name ^ "-changed") ~model:(string_of_bool mch) ~impl:(string_of_bool ch);
      st' in
    let st1 = stage "open" [OpRotate true; OpAdd] (fs0, PUnopened) (ch1, cr1) in
    let st2 = stage "modechange" (OpSetMode (file_of m2tag m2) :: (if preadd then [OpAdd] else [])) st1 (ch2, cr2) in
    let off2 = beq (mode_of (fst st2).fs_mode) m_off in
    let st3 = stage "rotation" [OpRotate expired] st2 (ch3, cr3) in
    let _ = stage "after" [OpAdd; OpAdd] st3 (ch4, cr4) in
    (* the property on the implementation's observations: while the mode file records off no
       count file is created or changed *)
    if off2 then begin
      if ch2 || cr2 > 0 then
        prop "recording-until-rotation"
          (Printf.sprintf "mode file %s -> %s: the running process changed its count file after the mode was set to off (changed=%b created=%d)"
             (show_file (file_of m1tag m1)) (show_file (file_of m2tag m2)) ch2 cr2);
      if ch3 || cr3 > 0 || ch4 || cr4 > 0 then
        prop "rotation_off"
          (Printf.sprintf "mode file %s -> %s, then rotate1 (clock past the end: %b): rotation changed=%b created=%d, increments after it changed=%b created=%d"
             (show_file (file_of m1tag m1)) (show_file (file_of m2tag m2)) expired ch3 cr3 ch4 cr4)
    end;
    if beq (mode_of fs0.fs_mode) m_off && (ch1 || cr1 > 0) then
      prop "snapshot_unchanged" "mode off from the start: the first rotate1 created or changed a count file"
  | "hang" ->
    let what = next_bytes c in
    let i = next_int c in
    prop "hang" (Printf.sprintf "the implementation did not return within the watchdog time: %s case %d" (show what) i)
  | "cproc" ->
    let mtag = next c in
    let mbytes = next_bytes c in
    let pre_unchanged = next_bool c in
    let newcount = next_int c in
    let newother = next_int c in
    let samelen = next_bool c in
    let fs = { fs_mode = file_of mtag mbytes; fs_local = None; fs_upload = None } in
    let (effs, _) = exec Z.ltb Z0 [OpAdd; OpOpen; OpAdd; OpAdd; OpAdd; OpAdd; OpOpen] (fs, PUnopened) in
    let mfile = List.exists (function ECounterFile -> true | _ -> false) effs in
    if mfile <> (newcount > 0) then
      diff "counter-file-created" ~model:(string_of_bool mfile) ~impl:(string_of_int newcount);
    if beq (mode_of fs.fs_mode) m_off && not (pre_unchanged && newcount = 0 && newother = 0 && samelen) then
      prop "snapshot_unchanged"
        (Printf.sprintf "mode off, counter.Open/Inc: existing-files-unchanged=%b new-count-files=%d other-new=%d" pre_unchanged newcount newother)
  | k -> diff "unknown-case-kind" ~model:k ~impl:"-"

let () = run_file Sys.argv.(1) handle
