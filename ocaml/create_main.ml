(* create_main.ml: Model/FileCreate in lock step with racing / killed openers of
   one counter file (harness vh_create), and the oracle "every surviving
   opener's counter ends up in a well-formed file". *)
let pc_label = function
  | COpen -> "fs-open" | CStat -> "fs-stat" | CWriteHdr -> "fs-writeat" | CWriteZero -> "fs-writeat"
  | CStat2 -> "fs-stat" | CMap -> "fs-stat" | CDone _ -> "-"
let pc_name = function
  | COpen -> "COpen" | CStat -> "CStat" | CWriteHdr -> "CWriteHdr" | CWriteZero -> "CWriteZero"
  | CStat2 -> "CStat2" | CMap -> "CMap" | CDone true -> "CDone-ok" | CDone false -> "CDone-fail"

let handle kind c =
  match kind with
  | "cr" ->
    let init = next c in
    let status = next c in
    let faulted = next_bool c in
    let hl = next_n c in
    let s0 = next_n c in let h0 = next_bool c in
    let nth = next_int c in
    let nev = next_int c in
    let st = ref ({ c_size = s0; c_hdr = h0 }, List.init nth (fun _ -> fresh_opener)) in
    (* FileCreate has no failing calls: scenarios with an injected failure are judged by the oracles only *)
    let diverged = ref faulted in
    let lim_reported = ref false in
    for ev = 1 to nev do
      match next c with
      | "k" -> ignore (next_int c)
      | "s" ->
        let tid = next_int c in let phase = next c in let lab = next c in
        let sz = next_n c in let hd = next_bool c in let opened = next_bool c in
        let lim = next_n c in
        (* well formed at every instant, in particular at every kill point and after a failed write:
           the allocation limit never lies beyond the end of the file *)
        if int_of_n lim > int_of_n sz && not !lim_reported then begin
          lim_reported := true;
          prop "limit-beyond-file" (Printf.sprintf "event %d (opener %d, after its %s): allocation limit %s beyond the file length %s (initial state %s): an opener that re-maps now finds limit > length and reports a corrupt file"
                                      ev tid lab (hex_of_n lim) (hex_of_n sz) init)
        end;
        if phase = "open" && not !diverged then begin
          let o = List.nth (Stdlib.snd !st) tid in
          let where = Printf.sprintf "event-%d-opener-%d-%s" ev tid init in
          if pc_label o.o_pc <> lab then begin
            diverged := true; diff (where ^ "-pending-call") ~model:(pc_name o.o_pc ^ " " ^ pc_label o.o_pc) ~impl:lab end
          else begin
            st := cstep true hl !st (nat_of_int tid);
            let f = Stdlib.fst !st in
            let o' = List.nth (Stdlib.snd !st) tid in
            if f.c_size <> sz || f.c_hdr <> hd then begin
              diverged := true;
              diff (where ^ "-file") ~model:(Printf.sprintf "size=%s hdr=%b" (hex_of_n f.c_size) f.c_hdr) ~impl:(Printf.sprintf "size=%s hdr=%b" (hex_of_n sz) hd) end
            else if opened <> (match o'.o_pc with CDone _ -> true | _ -> false) then begin
              diverged := true; diff (where ^ "-returned") ~model:(pc_name o'.o_pc) ~impl:(string_of_bool opened) end
          end
        end
        else if phase = "use" && not !diverged then begin
          (* after its open a process changes the file only by growing it by whole pages *)
          let f = Stdlib.fst !st in
          let a = int_of_n f.c_size and b = int_of_n sz in
          if hd <> f.c_hdr || b < a || (b > a && b mod 16384 <> 0) then begin
            diverged := true;
            diff (Printf.sprintf "event-%d-opener-%d-%s-use-file" ev tid init)
              ~model:(Printf.sprintf "size>=%s (whole pages) hdr=%b" (hex_of_n f.c_size) f.c_hdr)
              ~impl:(Printf.sprintf "size=%s hdr=%b" (hex_of_n sz) hd) end
          else st := ({ c_size = sz; c_hdr = hd }, Stdlib.snd !st)
        end
      | t -> failwith ("event " ^ t)
    done;
    let threads = List.init nth (fun _ ->
        let killed = next_bool c in let dn = next_bool c in let op = next c in let rs = next c in
        let nm = next_bytes c in let begun = next_n c in let completed = next_n c in
        (killed, dn, op, rs, nm, begun, completed)) in
    let fsize = next_n c in let fhdr = next_bool c in let walk = next_bool c in
    let recs = next_list c (fun c -> let nm = next_bytes c in let v = next_n c in (nm, v)) in
    (match status with
     | "hang" -> prop "hang" "an opener did not return within the step budget"
     | "panic" -> prop "panic" "an opener panicked"
     | _ -> ());
    let survivors = List.filter (fun (k, _, _, _, _, _, _) -> not k) threads in
    List.iteri (fun i (killed, dn, op, rs, nm, _, _) ->
        if not killed && status = "ok" && not faulted then begin
          if op <> "ok" then
            prop "survivor-open-failed" (Printf.sprintf "opener %d (not killed) could not open the counter file found in state %s (result %s; done=%b): its counters never reach a file" i init op dn)
          else if rs <> "cell" then
            prop "survivor-failed" (Printf.sprintf "opener %d (not killed): newCounter(%s) failed after a successful open" i (tok_of_bytes nm))
        end;
        if not !diverged && status = "ok" && not killed && not faulted then begin
          let o = List.nth (Stdlib.snd !st) i in
          if (o.o_pc = CDone true) <> (op = "ok") then
            diff (Printf.sprintf "open-result-%d-%s" i init) ~model:(pc_name o.o_pc) ~impl:op
        end) threads;
    if survivors <> [] && status = "ok" then begin
      let fs = int_of_n fsize in
      if not (fhdr && walk && fs >= 16384 && fs mod 16384 = 0) then
        prop "create-not-wellformed" (Printf.sprintf "the file the survivors are left with is not a well-formed counter file: size=%s header=%b chains=%b (initial state %s)" (hex_of_n fsize) fhdr walk init);
      let names = List.sort_uniq compare (List.map (fun (_, _, _, _, nm, _, _) -> nm) threads) in
      List.iter (fun nm ->
          let sum f = List.fold_left (fun acc ((_, _, _, _, n2, b, cm) as _t) -> if n2 = nm then acc + int_of_n (f b cm) else acc) 0 threads in
          let begun = sum (fun b _ -> b) and completed = sum (fun _ cm -> cm) in
          let vals = List.filter_map (fun (n2, v) -> if n2 = nm then Some v else None) recs in
          match vals with
          | [] -> if completed <> 0 then prop "create-count-wrong" (Printf.sprintf "counter %s: %d added, no record in the file" (tok_of_bytes nm) completed)
          | [v] -> let v = int_of_n v in if v < completed || begun < v then
              prop "create-count-wrong" (Printf.sprintf "counter %s: value %d, completed %d, begun %d" (tok_of_bytes nm) v completed begun)
          | _ -> prop "one-record-per-name" (Printf.sprintf "counter %s has %d records" (tok_of_bytes nm) (List.length vals))) names
    end
  | "hm" ->
    (* two programs, one file name, different metadata: oracle only *)
    let la = next_int c in let lb = next_int c in let same = next_bool c in
    let status = next c in let admitted = next_bool c in
    let hdr = next_bool c in let walk = next_bool c in let n = next_int c in let kept = next_int c in
    let where = Printf.sprintf "a second program opens the first one's counter file with %s (%d vs %d bytes; it was %s)"
        (if same then "metadata of the same length but other content" else "metadata of another length") la lb
        (if admitted then "ADMITTED and recorded its counters" else "refused") in
    if status <> "ok" then prop "panic" (where ^ ": panic")
    else begin
      if not (hdr && walk) then
        prop "create-not-wellformed" (Printf.sprintf "%s: the first program's file is no longer well formed (header=%b chains=%b)" where hdr walk);
      if kept < n then
        prop "create-count-wrong" (Printf.sprintf "%s: only %d of the first program's %d counters are still in the file with their values" where kept n)
    end
  | k -> diff "unknown-case-kind" ~model:k ~impl:"-"

let () = run_file Sys.argv.(1) handle
