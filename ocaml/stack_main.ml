(* stack_main.ml: evaluates the extracted Model/Stack on the observations of
   harness vh_stack and the executable oracles of property C15. *)
let limit = 4096                                   (* the property's bound, literally *)
let marker = bytes_of_string "\ntruncated\n"       (* the visible truncation mark *)
let nl = n_of_int 10

let next_frame c =
  let fn = next_bytes c in
  let hf = next_bool c in
  let line = next_z c in
  let off = next_n c in
  { fr_func = fn; fr_hasfunc = hf; fr_line = line; fr_off = off }

let show_frames fs =
  String.concat ";" (List.map (fun f -> Printf.sprintf "%S/%b/%s/%s" (string_of_bytes f.fr_func) f.fr_hasfunc
                                  (tok_of_z f.fr_line) (tok_of_n f.fr_off)) fs)
let show_b b = Printf.sprintf "%S" (string_of_bytes b)
let blen b = List.length b
let ends_with (s : n list) (suf : n list) =
  let ls = List.length s and lf = List.length suf in
  ls >= lf && List.filteri (fun i _ -> i >= ls - lf) s = suf
let has_nl b = List.exists (fun x -> x = nl) b

(* names seen so far (untruncated): name -> (prefix, frames) *)
let seen : (string, (n list * frame list)) Hashtbl.t = Hashtbl.create 1024

let handle kind c =
  match kind with
  | "enc" ->
    let prefix = next_bytes c in
    let frames = next_list c next_frame in
    let name = next_bytes c in
    let dec = next_bytes c in
    let is = next_bool c in
    check_eq "enc-name" show_b (encode_frames prefix frames) name;
    check_eq "dec-of-name" show_b (decode_stack name) dec;
    check_eq "is-stack" string_of_bool (is_stack name) is;
    (* property oracles on the implementation's output *)
    if blen name > limit then prop "length-bound" (Printf.sprintf "len=%d" (blen name));
    (* expansion keeps every line (theorem C15_decode_total): same number of newlines *)
    let nls b = List.length (List.filter (fun x -> x = nl) b) in
    if nls dec <> nls name then
      prop "decode-keeps-lines" (Printf.sprintf "the name has %d lines, its expansion %d; expansion ends %s" (nls name + 1) (nls dec + 1)
                                   (show_b (List.filteri (fun i _ -> i >= blen dec - 14) dec)));
    let truncated = blen (encode_raw prefix frames) > limit in
    if truncated then begin
      if not (blen name = limit && ends_with name marker) then
        prop "truncation-marked" (Printf.sprintf "untruncated-length=%d len=%d tail=%s"
                                    (blen (encode_raw prefix frames)) (blen name)
                                    (show_b (List.filteri (fun i _ -> i >= blen name - 12) name)));
      (* a truncated name stays visibly marked when expanded (theorem C15_decode_truncated_keeps_marker) *)
      if not (ends_with dec marker) then
        prop "truncation-marked-after-expansion"
          ("the expansion of a truncated name does not end with the marker: " ^ show_b (List.filteri (fun i _ -> i >= blen dec - 14) dec));
      (* complete lines that survived the cut expand to the lines of the uncompressed rendering *)
      let raw = string_of_bytes (encode_raw prefix frames) in
      let kept = String.sub raw 0 (limit - List.length marker) in
      let k = List.length (String.split_on_char '\n' kept) - 1 in
      let first k l = List.filteri (fun i _ -> i < k) l in
      let dl = first k (String.split_on_char '\n' (string_of_bytes dec)) in
      let pl = first k (String.split_on_char '\n' (string_of_bytes (render_plain prefix frames))) in
      if dl <> pl then
        prop "decode-encode-truncated"
          (Printf.sprintf "complete-lines=%d decoded=%S uncompressed=%S" k (String.concat "\n" dl) (String.concat "\n" pl))
    end else begin
      let plain = render_plain prefix frames in
      if dec <> plain then
        prop "decode-encode"
          (Printf.sprintf "EncodeStack=%s DecodeStack=%s uncompressed=%s" (show_b name) (show_b dec) (show_b plain));
      (match Hashtbl.find_opt seen (string_of_bytes name) with
       | Some (p0, f0) -> if p0 <> prefix || f0 <> frames then
           prop "injective-untruncated" (Printf.sprintf "name=%s frames1=%s frames2=%s" (show_b name) (show_frames f0) (show_frames frames))
       | None -> Hashtbl.replace seen (string_of_bytes name) (prefix, frames))
    end;
    if not is then prop "is-stack-iff-newline" ("encoded name not recognised as a stack counter: " ^ show_b name)
  | "dec" ->
    let s = next_bytes c in
    let status = next c in
    let dec = next_bytes c in
    let is = next_bool c in
    if status <> "ok" then prop "decode-total" ("DecodeStack panicked on " ^ show_b s)
    else begin
      check_eq "decode" show_b (decode_stack s) dec;
      check_eq "is-stack" string_of_bool (is_stack s) is;
      if (not (has_nl s)) && dec <> s then prop "decode-identity-on-plain" (show_b s ^ " -> " ^ show_b dec);
      let nls b = List.length (List.filter (fun x -> x = nl) b) in
      if nls dec <> nls s then
        prop "decode-keeps-lines" (Printf.sprintf "%s has %d lines, its expansion %s has %d" (show_b s) (nls s + 1) (show_b dec) (nls dec + 1));
      if is <> has_nl s then prop "is-stack-iff-newline" (show_b s)
    end
  | "cache" ->
    let name = next_bytes c in
    let _depth = next_int c in
    let nincs = next_int c in
    let incs = List.init nincs (fun _ ->
        let key = next_list c next_n in
        let hit = next_int c in
        let nctr = next_int c in
        (key, hit, nctr)) in
    let stacks = next_list c (fun c ->
        let pcs = next_list c next_n in
        let frames = next_list c next_frame in
        let nm = next_bytes c in
        (pcs, frames, nm)) in
    let values = next_list c next_n in
    let state = next c in
    let npre = next_int c in
    let readstack = next_list c (fun c -> let k = next_bytes c in let v = next_n c in (k, v)) in
    let parse_status = next c in
    let parsed = next_list c (fun c -> let k = next_bytes c in let v = next_n c in (k, v)) in
    let bad = next c in
    if state = "mapped" && (bad = "read-error-" || bad = "readstack-error-") then
      prop "file-decoder-total" ("reading a stack counter back from its mapped file failed: " ^ bad)
    else if bad <> "-" then diff "cache-harness" ~model:"-" ~impl:bad;
    (* the file decoder (Parse) on the mapped file: total; the ordinary counter of the same file
       is there; every stack counter is there under its expanded name - however long that is *)
    if parse_status = "parse-err" then
      prop "file-decoder-total" "Parse rejects the counter file the library itself wrote (stack counters + one ordinary counter)"
    else if parse_status = "parse-ok" && List.length values = List.length stacks then begin
      (match List.assoc_opt (bytes_of_string "plain/ordinary") parsed with
       | Some v when int_of_n v = 1 -> ()
       | _ -> prop "file-decoder-other-counters" "the ordinary counter of the same file is not reported with value 1");
      List.iter2 (fun (_, fr, nm) v ->
          let key = if blen (encode_raw name fr) <= limit then render_plain name fr else decode_stack nm in
          let dup = List.length (List.filter (fun (_, _, nm') -> nm' = nm) stacks) > 1 in
          match List.assoc_opt key parsed with
          | None ->
            prop "file-decoder-expands-names"
              (Printf.sprintf "Parse has no entry for the expanded stack (%d bytes; encoded %d bytes) %s" (blen key) (blen nm)
                 (let s = string_of_bytes key in if String.length s > 200 then String.sub s 0 200 ^ "..." else s))
          | Some pv -> if (not dup) && pv <> v then
              prop "file-decoder-values" (Printf.sprintf "Parse reports %d, the counter holds %d" (int_of_n pv) (int_of_n v)))
        stacks values
    end;
    if npre <> 0 then diff "cache-fresh" ~model:"0" ~impl:(string_of_int npre ^ " counters in a new StackCounter");
    (* ReadStack (countertest.ReadStackCounter), mapped or not: keyed by the EXPANDED names,
       i.e. the uncompressed rendering of each stack's frames, with the counter's value *)
    if List.length values = List.length stacks then begin
      let entries = List.map2 (fun (_, fr, nm) v ->
          let key = if blen (encode_raw name fr) <= limit then render_plain name fr else decode_stack nm in
          (key, int_of_n v)) stacks values in
      check_eq "readstack-keys" (fun l -> String.concat "|" (List.map show_b l))
        (List.sort_uniq compare (List.map (fun (_, _, nm) -> decode_stack nm) stacks))
        (List.sort_uniq compare (List.map fst readstack));
      List.iter (fun (key, _) ->
          let want = List.fold_left (fun acc (k, v) -> if k = key then acc + v else acc) 0 entries in
          let dup = List.length (List.filter (fun (k, _) -> k = key) entries) > 1 in
          match List.assoc_opt key readstack with
          | None ->
            prop "readstack-names-expanded"
              (Printf.sprintf "ReadStack (%s file) has no entry for the expanded stack %s; its keys: %s" state (show_b key)
                 (String.concat " | " (List.map (fun (k, _) -> show_b k) readstack)))
          | Some v -> if (not dup) && int_of_n v <> want then
              prop "readstack-values" (Printf.sprintf "ReadStack (%s file) reports %d for %s, the counter holds %d" state (int_of_n v) (show_b key) want))
        entries
    end else diff "cache-values" ~model:(string_of_int (List.length stacks)) ~impl:(string_of_int (List.length values));
    let symb pcs = match List.find_opt (fun (p, _, _) -> p = pcs) stacks with
      | Some (_, f, _) -> f
      | None -> [] in
    let (st, hits) = run symb name [] (List.map (fun (k, _, _) -> k) incs) in
    let show_hits l = String.concat "," (List.map string_of_int l) in
    check_eq "cache-hits" show_hits (List.map int_of_nat hits) (List.map (fun (_, h, _) -> h) incs);
    check_eq "cache-keys" (fun l -> string_of_int (List.length l)) (List.map fst st) (List.map (fun (p, _, _) -> p) stacks);
    check_eq "cache-names" (fun l -> String.concat "|" (List.map show_b l)) (List.map snd st) (List.map (fun (_, _, nm) -> nm) stacks);
    (* oracle: same stack <-> same counter; different untruncated stacks -> different names *)
    let arr = Array.of_list incs in
    let sarr = Array.of_list stacks in
    Array.iteri (fun i (ki, hi, _) ->
        Array.iteri (fun j (kj, hj, _) ->
            if i < j then begin
              if ki = kj && hi <> hj then
                prop "same-stack-same-counter" (Printf.sprintf "incs %d and %d from one call stack hit counters %d and %d" i j hi hj);
              if ki <> kj && hi = hj then
                prop "different-stack-different-counter" (Printf.sprintf "incs %d and %d from different call stacks hit counter %d" i j hi);
              if ki <> kj && hi <> hj && hi >= 0 && hj >= 0 && hi < Array.length sarr && hj < Array.length sarr then begin
                let (_, fi, ni) = sarr.(hi) and (_, fj, nj) = sarr.(hj) in
                if blen (encode_raw name fi) <= limit && blen (encode_raw name fj) <= limit && ni = nj then begin
                  (* equal frames for different pcs: the runtime symboliser is not injective (known
                     finding: instantiations of a generic function are all named F[...]);
                     different frames with one name would be a collision of the rendering itself *)
                  if fi = fj then
                    prop "symboliser-not-injective"
                      (Printf.sprintf "different call stacks (different pcs, identical runtime frames), one counter name %s" (show_b ni))
                  else
                    prop "injective-untruncated" (Printf.sprintf "different call stacks, one name %s" (show_b ni))
                end
              end
            end) arr) arr
  | "panic" ->
    let msg = next_bytes c in
    let what = next c in
    let rest = String.concat " " (Array.to_list (Array.sub c.toks c.pos (min 12 (Array.length c.toks - c.pos)))) in
    let input = if what = "DecodeStack" && Array.length c.toks > c.pos then show_b (bytes_of_tok c.toks.(c.pos)) else rest in
    prop (if what = "DecodeStack" then "decode-total" else "no-panic")
      (Printf.sprintf "%s panicked (%s) on %s" what (string_of_bytes msg)
         (if String.length input > 700 then String.sub input (max 0 (String.length input - 700)) 700 else input))
  | "hang" ->
    let what = next c in
    let rest = String.concat " " (Array.to_list (Array.sub c.toks c.pos (min 12 (Array.length c.toks - c.pos)))) in
    prop "terminates" (Printf.sprintf "%s did not return within the watchdog limit; input (wire format): %s" what
                         (if String.length rest > 600 then String.sub rest 0 600 ^ "..." else rest))
  | k -> diff "unknown-case-kind" ~model:k ~impl:"-"

let () = run_file Sys.argv.(1) handle
