(* start_main.ml: evaluates the extracted Model/Start on the observations of
   harness vh_start (real telemetry.Start in re-executed instrumented mains). *)

let esc b = String.escaped (string_of_bytes b)
let show_proc p =
  Printf.sprintf "%s(marker=\"%s\",upload=%b)"
    (match p.p_kind with KSidecar -> "sidecar" | KDelegated -> "delegated")
    (esc p.p_marker) p.p_upload
let show_procs ps = "[" ^ String.concat "; " (List.map show_proc ps) ^ "]"

(* observed record: kind, depth, marker set, marker, upload var *)
let read_procs c =
  next_list c (fun c ->
      let kind = next c in
      let depth = next_int c in
      let mset = next_bool c in
      let marker = next_bytes c in
      let uv = next_bool c in
      ignore depth; ignore mset;
      { p_kind = (if kind = "G" then KDelegated else KSidecar); p_marker = marker; p_upload = uv })

let read_token c =
  (* the model's clock is 0, so a token of age a has modification time -a *)
  match next c with
  | "A" -> None
  | "P" -> Some (Z.opp (next_z c))
  | t -> failwith ("bad token tag " ^ t)

let read_asof c =
  match next c with
  | "Z" -> None
  | "O" -> Some (next_z c)
  | t -> failwith ("bad upload start tag " ^ t)
let show_asof = function None -> "zero" | Some a -> "now" ^ (match a with Zneg _ -> "" | _ -> "+") ^ string_of_int (int_of_z a) ^ "s"

let period = c_tokenPeriod_ns
let now0 = z_of_int 0
let fuel = nat_of_int 4
let sort_procs ps = List.sort Stdlib.compare ps
let delegated p = p.p_kind = KDelegated

let handle kind c =
  match kind with
  | "start" ->
    let (cfg_dir, env_dir, src) = (match next c with
        | "cfg" -> (true, false, "Config.TelemetryDir") | "env" -> (false, true, "user config dir")
        | "none" -> (false, false, "none (os.UserConfigDir fails, no TelemetryDir)")
        | t -> failwith ("bad dir source " ^ t)) in
    let entry = (match next c with
        | "start" -> EntryStart | "maybechild" -> EntryMaybeChild
        | t -> failwith ("bad entry " ^ t)) in
    let mset = next_bool c in
    let marker = next_bytes c in
    let uv = next_bool c in
    let crash = next_bool c in
    let upload = next_bool c in
    let asof = read_asof c in
    let file = (match next c with
        | "N" -> None | "F" -> Some (next_bytes c)
        | t -> failwith ("bad mode file tag " ^ t)) in
    let mode = mode_of_file file in
    let ld = next_bool c in
    let tok = read_token c in
    let exit = next_int c in
    let returned = next_bool c in
    let procs = read_procs c in
    let tok_exists = next_bool c in
    let tok_created = next_bool c in
    let changed = next_bool c in
    ignore mset;
    let cfg = { c_crash = crash; c_upload = upload } in
    (* model vs implementation *)
    let r = program_run_cfg entry cfg_dir env_dir marker uv cfg asof file ld period now0 tok in
    let emode = effective_mode (dir_known cfg_dir env_dir) mode in
    let want_outcome = match r.r_outcome with
      | OReturned -> "returned" | OChildExit -> "exit0-in-start" | OFatal -> "fatal" in
    let got_outcome =
      if returned && exit = 0 then "returned"
      else if exit = 0 then "exit0-in-start"
      else if exit = 1 then "fatal" else Printf.sprintf "exit%d" exit in
    check_eq "outcome" (fun s -> s) want_outcome got_outcome;
    let want = spawned_cfg fuel entry cfg_dir env_dir marker uv cfg asof file ld period now0 tok in
    (* the crash monitor of a sidecar exits the process as soon as its parent
       is gone, possibly before the uploader ran the go command: with crash
       reporting on, the delegated process is optional *)
    let side l = sort_procs (List.filter (fun p -> not (delegated p)) l) in
    let dele l = sort_procs (List.filter delegated l) in
    check_eq "sidecars" show_procs (side want) (side procs);
    if crash then begin
      if not (List.for_all (fun p -> List.mem p (dele want)) (dele procs))
         || List.length (dele procs) > List.length (dele want) then
        diff "delegated" ~model:(show_procs (dele want)) ~impl:(show_procs (dele procs))
    end else check_eq "delegated" show_procs (dele want) (dele procs);
    let m_created = (match r.r_token, tok with
        | Some a, Some b -> a <> b
        | Some _, None -> true
        | None, _ -> false) in
    check_eq "token-created" string_of_bool m_created tok_created;
    check_eq "token-exists" string_of_bool (r.r_token <> None) tok_exists;
    let m_writes = List.exists (fun e -> match e with
        | EOpenCounters | ETokenRemove | ETokenCreate _ | EExec (_, _) | ECrashChild | EUploadRun -> true
        | _ -> false) r.r_effects in
    if (not m_writes) && changed then diff "dir-unchanged" ~model:"unchanged" ~impl:"changed";
    (* the property on the observations *)
    let detail () =
      Printf.sprintf "dir=%s entry=%s marker=\"%s\" upload_var=%b crash=%b upload=%b upload-start-time=%s mode-file=%s token=%s procs=%s token_created=%b dir_changed=%b"
        src (match entry with EntryStart -> "Start" | EntryMaybeChild -> "MaybeChild-then-Start") (esc marker) uv crash upload (show_asof asof) (match file with None -> "(none)" | Some d -> "\"" ^ esc d ^ "\" (reads as \"" ^ esc mode ^ "\")")
        (match tok with None -> "absent" | Some m -> "age " ^ tok_of_z (Z.opp m) ^ "ns")
        (show_procs procs) tok_created changed in
    if not (start_ok marker uv cfg emode period now0 tok tok_created changed procs) then begin
      let bad_side = List.exists (fun p -> not (delegated p)
                                           && not (launch_ok marker uv cfg emode period now0 tok tok_created p)) procs in
      let n_side = List.length (List.filter (fun p -> not (delegated p)) procs) in
      let bad_dele = List.exists (fun p -> delegated p && not (beq p.p_marker lit_2)) procs in
      let recursion = bad_dele || n_side > (if marker = [] then 1 else 0) in
      if beq emode lit_off && (procs <> [] || changed) then prop "off-inert" (detail ())
      else if recursion then prop "no-recursion" (detail ())
      else if bad_side then prop "launch-only-if" (detail ())
      else prop "start-ok" (detail ())
    end
  | "race" ->
    let n = next_int c in
    let tok = read_token c in
    let asof = read_asof c in
    let procs = read_procs c in
    let won = List.length (List.filter (fun p -> p.p_kind = KSidecar && p.p_upload) procs) in
    (* model: the starters one after the other *)
    let sched = List.concat (List.init n (fun i -> let t = nat_of_int i in [Step t; Step t; Step t])) in
    let mw = int_of_nat (winners (trun period sched (tinit (nat_of_int n) now0 tok))) in
    let tok_stale = (match tok with None -> false | Some _ -> token_state_allows period now0 tok) in
    if tok_stale then begin
      if won < 1 then diff "race-winners" ~model:">=1" ~impl:(string_of_int won)
    end else begin
      check_eq "race-winners" string_of_int mw won;
      if won > 1 then
        prop "token-once" (Printf.sprintf "%d of %d concurrent starters (UploadStartTime %s) acquired the token (%s): %s" won n
                             (show_asof asof) (match tok with None -> "absent" | Some _ -> "fresh") (show_procs procs))
    end;
    List.iter (fun p ->
        if p.p_kind = KSidecar && not (beq p.p_marker lit_1) then
          prop "no-recursion" ("sidecar with marker " ^ esc p.p_marker)) procs
  | "tokrace" ->
    let n = next_int c in
    let tok = read_token c in
    let asof = read_asof c in
    let won = next_int c in
    let sched = List.concat (List.init n (fun i -> let t = nat_of_int i in [Step t; Step t; Step t])) in
    let mw = int_of_nat (winners (trun period sched (tinit (nat_of_int n) now0 tok))) in
    if token_state_allows period now0 tok && tok <> None then begin
      (* stale token: the conceded race may give several winners; at least one *)
      if won < 1 then diff "tokrace-winners" ~model:">=1" ~impl:(string_of_int won)
    end else begin
      check_eq "tokrace-winners" string_of_int mw won;
      if won > 1 then
        prop "token-once" (Printf.sprintf "%d of %d concurrent telemetry.Start calls (UploadStartTime %s) launched an uploading sidecar (token %s)" won n
                             (show_asof asof) (match tok with None -> "absent" | Some _ -> "fresh"))
    end
  | "history" ->
    let tok = read_token c in
    let k = next_int c in
    let t = ref now0 in
    let secs = ref 0 in
    let n_setmode = ref 0 in
    let evs = List.init k (fun _ ->
        let delta = next_z c in
        let asof = read_asof c in
        let setmode = next_bool c in
        let launched = next_bool c in
        let created = next_bool c in
        if setmode then incr n_setmode;
        t := Z.add !t delta;
        secs := !secs + int_of_z delta / 1000000000;
        (!t, asof, launched, created, !secs)) in
    let starts = List.map (fun (t, a, _, _, _) -> (t, a)) evs in
    let (want, _) = history_run period starts tok in
    let got = List.map (fun (_, _, l, _, _) -> l) evs in
    let show l = String.concat "," (List.map string_of_bool l) in
    let describe () =
      Printf.sprintf "token=%s mode-file-rewritten-between-starts=%d starts=[%s]"
        (match tok with None -> "absent" | Some m -> "age " ^ tok_of_z (Z.opp m) ^ "ns") !n_setmode
        (String.concat "; " (List.map (fun (_, a, l, cr, sec) ->
             Printf.sprintf "at +%ss UploadStartTime=%s uploading-sidecar=%b token-recreated=%b"
               (string_of_int sec) (show_asof a) l cr) evs)) in
    check_eq "history-acquired" show want got;
    List.iter (fun (_, _, l, cr, _) -> if l <> cr then diff "history-token-stamp" ~model:(string_of_bool l) ~impl:(string_of_bool cr)) evs;
    (* the rate limit on what was observed: two acquisitions less than 24 h of real time apart *)
    if not (history_spaced period tok (List.map (fun (t, _, l, _, _) -> (t, l)) evs)) then
      prop "token-once-per-period" (describe ())
  | k -> diff "unknown-case-kind" ~model:k ~impl:"-"

let () = run_file Sys.argv.(1) handle
