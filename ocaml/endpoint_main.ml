(* endpoint_main.ml: evaluates the extracted Model/Endpoint on the
   observations of harness vh_endpoint (C12).
   DIFF = model (handle) vs the real handler chain: status class and the
          complete tree of the upload bucket after the request;
   PROP = the property (expected) evaluated on the REAL status and tree. *)

let parse_cfg c =
  let goos = next_list c next_bytes in
  let goarch = next_list c next_bytes in
  let gov = next_list c next_bytes in
  let progs = next_list c (fun c ->
      let name = next_bytes c in
      let vs = next_list c next_bytes in
      let cs = next_list c next_bytes in
      let ss = next_list c next_bytes in
      (* cs = the configured (collapsed) counter names; the model expands them itself *)
      mk_pconfig name vs cs ss) in
  { cf_goos = goos; cf_goarch = goarch; cf_goversion = gov; cf_programs = progs }

let parse_tree c =
  let entries = next_list c (fun c ->
      let p = next_bytes c in
      let k = next c in
      let ct = next_bytes c in
      (components p, (if k = "d" then D else F ct))) in
  List.fold_left (fun m (p, e) -> fput p e m) fs_init entries

let parse_kv c = let k = next_bytes c in let v = next_z c in (k, v)

(* decoded body: (report option, semver oracle answer, marshal oracle answer) *)
let parse_dec c =
  match next c with
  | "err" -> (None, false, [])
  | "ok" ->
    let week = next_bytes c in
    let lastweek = next_bytes c in
    let xzero = next_bool c in
    let xs = next_bytes c in
    let config = next_bytes c in
    let semver = next_bool c in
    let progs = next_list c (fun c ->
        match next c with
        | "nil" -> None
        | "p" ->
          let name = next_bytes c in
          let version = next_bytes c in
          let gov = next_bytes c in
          let goos = next_bytes c in
          let goarch = next_bytes c in
          let counters = next_list c parse_kv in
          let stacks = next_list c parse_kv in
          Some { pg_name = name; pg_version = version; pg_goversion = gov; pg_goos = goos; pg_goarch = goarch;
                 pg_counters = counters; pg_stacks = stacks }
        | t -> failwith ("bad program tag " ^ t)) in
    let marshalled = next_bytes c in
    (Some { r_week = week; r_lastweek = lastweek; r_xzero = xzero; r_xs = xs; r_config = config; r_programs = progs },
     semver, marshalled)
  | t -> failwith ("bad dec tag " ^ t)

(* decimal rendering of a (possibly > 2^62) integer token, for messages only *)
let dec_of_z (x : z) : string =
  let rec pos_bits p acc = match p with XH -> 1 :: acc | XO q -> pos_bits q (0 :: acc) | XI q -> pos_bits q (1 :: acc) in
  let of_pos p =
    (* most significant bit first; schoolbook doubling on a decimal digit list (least significant first) *)
    let dbl_add digits bit =
      let rec go ds carry = match ds with
        | [] -> if carry = 0 then [] else [carry]
        | d :: rest -> let v = 2 * d + carry in (v mod 10) :: go rest (v / 10) in
      go digits bit in
    let digits = List.fold_left dbl_add [] (pos_bits p []) in
    String.concat "" (List.rev_map string_of_int digits) in
  match x with Z0 -> "0" | Zpos p -> of_pos p | Zneg p -> "-" ^ of_pos p
let show_status = function S2xx -> "2xx" | S4xx -> "4xx" | S5xx -> "5xx"
let show_fs (m : (n list list * entry) list) =
  String.concat ";" (List.filter_map (fun (p, e) ->
      if p = [] then None else
        Some (match e with
            | D -> Printf.sprintf "%S/" (string_of_bytes (join_path p))
            | F ct -> Printf.sprintf "%S(%d bytes)" (string_of_bytes (join_path p)) (List.length ct))) m)
let clip s = if String.length s > 160 then String.sub s 0 160 ^ "..." else s

let handle_case kind c =
  match kind with
  | "sess" ->
    let foreign = next_bool c in
    let cfg = parse_cfg c in
    let before = ref (parse_tree c) in
    let k = next_int c in
    for i = 1 to k do
      let meth = next_bytes c in
      let url = next_bytes c in
      let transport = next c in
      let declared = next_z c in
      let framing_ok = next_bool c in
      let wire = next_bytes c in
      let bprefix = next c in
      let bpad = next_int c in
      let bpadn = next_int c in
      let bsuffix = next c in
      let size_ok = next_bool c in
      let (decoded, semver_ans, marshalled) = parse_dec c in
      let status = next c in
      let outside_ok = next_bool c in
      let redecode = next c in
      let after = parse_tree c in
      let semver = (fun _ -> semver_ans) in
      let marshal = (fun _ -> marshalled) in
      let describe () =
        Printf.sprintf "request %d (%s%s, declared Content-Length %s): %s %s body=%S + %d x byte %d + %d bytes (size_ok=%b, decodes=%b) -> %s; bucket before {%s} after {%s}"
          i transport (if framing_ok then "" else if wire = [] then ", body reader fails with a transport error" else Printf.sprintf ", ill-framed chunked message %S" (string_of_bytes wire)) (dec_of_z declared) (string_of_bytes meth) (string_of_bytes url)
          (clip (string_of_bytes (bytes_of_tok bprefix))) bpadn bpad ((String.length bsuffix - 1) / 2)
          size_ok (decoded <> None) status (clip (show_fs !before)) (clip (show_fs after)) in
      (* why the model calls a decoded report's contents unapproved (for the replay text) *)
      let why () =
        match decoded with
        | None -> ""
        | Some r ->
          let items = List.concat_map (function
              | None -> ["a null program"]
              | Some p when program_ok cfg p -> []
              | Some p ->
                let bad_c = List.filter_map (fun (c, _) ->
                    if has_counter cfg p.pg_name c then None
                    else Some (Printf.sprintf "counter %S of %S is not a configured counter of that program" (string_of_bytes c) (string_of_bytes p.pg_name)))
                    p.pg_counters in
                let bad_s = List.filter_map (fun (st, _) ->
                    if has_stack cfg p.pg_name (stack_prefix st) then None
                    else Some (Printf.sprintf "stack %S of %S is not a configured stack of that program" (string_of_bytes st) (string_of_bytes p.pg_name)))
                    p.pg_stacks in
                if bad_c = [] && bad_s = [] then [Printf.sprintf "program build of %S not approved" (string_of_bytes p.pg_name)]
                else bad_c @ bad_s) r.r_programs in
          if items = [] then "" else " [not approved: " ^ String.concat "; " items ^ "]" in
      (* model vs implementation *)
      let (mst, mfs) = handle_wire semver marshal cfg meth declared framing_ok size_ok decoded !before in
      if show_status mst <> status then
        diff (Printf.sprintf "req%d-status" i) ~model:(show_status mst) ~impl:(status ^ " | " ^ describe ());
      if mfs <> after then
        diff (Printf.sprintf "req%d-bucket" i) ~model:(clip (show_fs mfs)) ~impl:(clip (show_fs after) ^ " | " ^ describe ());
      (* the property on the real observations *)
      (* what the property expects (expected_wire): an ill-framed body is no report *)
      let valid = framing_ok && valid_request semver cfg meth size_ok decoded in
      let (est, _) = expected_wire semver marshal cfg meth framing_ok size_ok decoded !before in
      if not framing_ok && status <> show_status est then
        prop (if status = "5xx" then "framing-error-5xx" else "framing-error-4xx")
          (Printf.sprintf "a body whose framing cannot be decoded must be refused with 4xx: %s" (describe ()));
      let changed = (after <> !before) in
      if not outside_ok then prop "outside-bucket" (describe ());
      if valid then begin
        let r = match decoded with Some r -> r | None -> failwith "valid without report" in
        let p = components (object_name r) in
        let (wok, wfs) = write !before p (object_content marshal r) in
        if not (g_string r.r_xs) then prop "g-alphabet" (describe ());
        if not wok then begin
          (* the bucket holds foreign content that is in the way: nothing can be stored, so no success may be reported *)
          if status = "2xx" || changed then prop "acknowledged-unstored" (describe ())
        end else begin
          if status = "5xx" then begin
            let body_len = (String.length bprefix - 1) / 2 + bpadn + (String.length bsuffix - 1) / 2 in
            prop (if declared <> z_of_int body_len then "declared-length-5xx" else "never-5xx") (describe ())
          end
          else if status <> "2xx" then prop "stores-iff-valid" ("valid report refused: " ^ describe ());
          if after <> wfs then
            prop "stored-object" (Printf.sprintf "expected exactly object %S with the marshalled report; %s"
                                    (string_of_bytes (object_name r)) (describe ()));
          if redecode = "differs" then prop "stored-decodes-same" (describe ())
        end
      end else begin
        if status = "5xx" then begin
          let has_null = match decoded with
            | Some r -> List.exists (fun o -> o = None) r.r_programs
            | None -> false in
          let body_len = (String.length bprefix - 1) / 2 + bpadn + (String.length bsuffix - 1) / 2 in
          if has_null then prop "null-program-5xx" (describe ())
          else if declared <> z_of_int body_len then prop "declared-length-5xx" (describe ())
          else prop "never-5xx" (describe ())
        end;
        if not size_ok && (status <> "4xx" || changed) then prop "oversize-refused" (describe ())
        else if status = "2xx" || changed then prop "stores-iff-valid" ("invalid request stored or acknowledged:" ^ why () ^ " " ^ describe ())
        else if status <> "4xx" && status <> "5xx" then prop "reject-4xx" (describe ())
      end;
      ignore foreign;
      before := after
    done
  | "batch" ->
    (* uploads in flight together: they take effect in some order; every order of a batch of valid
       uploads of different objects gives all-2xx and the same stored objects (C12_batch_any_order) *)
    let cfg = parse_cfg c in
    let shots = next_list c (fun c -> let d = parse_dec c in let st = next c in (d, st)) in
    let outside_ok = next_bool c in
    let after = parse_tree c in
    let reqs = List.filter_map (fun ((decoded, _, _), _) ->
        match decoded with Some _ -> Some { q_method = post; q_size_ok = true; q_decoded = decoded } | None -> None) shots in
    (* oracles keyed by the decoded report *)
    let semver cfgstr = List.exists (fun ((d, sv, _), _) -> match d with Some r -> r.r_config = cfgstr && sv | None -> false) shots in
    let marshal r = match List.find_opt (fun ((d, _, _), _) -> d = Some r) shots with
      | Some ((_, _, m), _) -> m | None -> [] in
    let paths = List.map q_path reqs in
    let distinct = List.length (List.sort_uniq compare paths) = List.length paths in
    if not distinct then diff "batch-objects-distinct" ~model:"pairwise different objects" ~impl:"the generator produced a duplicate";
    let (msts, mfs) = serve semver marshal cfg fs_init reqs in
    List.iteri (fun i ((decoded, sv, _), st) ->
        let valid = valid_request (fun _ -> sv) cfg post true decoded in
        if not valid then diff (Printf.sprintf "batch-req%d-valid" (i + 1)) ~model:"valid" ~impl:"the generator produced an invalid report"
        else if st <> "2xx" then
          prop (if st = "5xx" then "concurrent-upload-5xx" else "concurrent-upload-refused")
            (Printf.sprintf "request %d of %d valid uploads posted at the same moment (object %S) was answered %s"
               (i + 1) (List.length shots)
               (match decoded with Some r -> string_of_bytes (object_name r) | None -> "?") st)) shots;
    if List.exists (fun st -> st <> S2xx) msts then diff "batch-model-status" ~model:"not all 2xx" ~impl:"-";
    if not outside_ok then prop "outside-bucket" "a batch of uploads changed something outside the upload bucket";
    if mfs <> after then
      prop "stored-object" (Printf.sprintf "after %d concurrent valid uploads the bucket should hold {%s} but holds {%s}"
                              (List.length shots) (clip (show_fs mfs)) (clip (show_fs after)))
  | "render" ->
    let l = next_list c next_bytes in
    List.iter (fun xs -> if not (g_string xs) then prop "g-alphabet" (Printf.sprintf "%%g rendering %S" (string_of_bytes xs))) l
  | k -> diff "unknown-case-kind" ~model:k ~impl:"-"

let () = run_file Sys.argv.(1) handle_case
