(* c09_main.ml: evaluates the extracted Model/Span on the observations of
   harness vh_c09. *)
let dash_b = bytes_of_string "-"
let suffix_b = bytes_of_string ".v1.count"

let handle kind c =
  match kind with
  | "span" ->
    let now = next_z c in
    let wk = next_bytes c in
    let errs = next c in
    let b = next_z c in
    let e = next_z c in
    (match weekend_of_bytes wk with
     | None -> if errs <> "err" then diff "span-error" ~model:"err" ~impl:errs
     | Some w ->
       if errs <> "ok" then diff "span-error" ~model:"ok" ~impl:errs
       else begin
         let (mb, me) = counter_span now w in
         check_eq "span-begin" tok_of_z mb b;
         check_eq "span-end" tok_of_z me e;
         if not (span_ok now w (b, e)) then
           prop "span-shape" (Printf.sprintf "now=%s weekend=%s begin=%s end=%s"
                                (tok_of_z now) (tok_of_z w) (tok_of_z b) (tok_of_z e))
       end)
  | "timer" ->
    (* the rotation chain: stage k has the span of the clock reading at which the
       (k-1)-th timer fired; exactly one timer is armed after every rotate; the
       increments of stage k are in the file of span k *)
    let now0 = next_z c in
    let now0_ns = next_z c in
    let w = next_z c in
    let stages = next_int c in
    let cur_now = ref now0 in
    let cur_ns = ref now0_ns in
    let giga = z_of_int 1000000000 in
    let expect = ref [] in
    let chain_ok = ref true in
    let seen = ref [] in
    let fires = ref [] in
    for k = 0 to stages do
      let npend = next_int c in
      let delay = next_z c in
      let b = next_z c in let e = next_z c in
      let n = next_z c in
      let s = counter_span !cur_now w in
      seen := (b, e) :: !seen;
      (* the delay the timer is armed with, in ns: until the recorded end, at least one minute *)
      if npend >= 1 then begin
        let now_ns = Z.add (Z.mul !cur_now giga) !cur_ns in
        let want = timer_delay (Z.mul (z_of_int 60) giga) now_ns (Z.mul (Stdlib.snd s) giga) in
        check_eq (Printf.sprintf "timer-delay-%d" k) tok_of_z want delay;
        if delay <> want then
          prop "rotation-chain" (Printf.sprintf "stage %d: at %s.%s the timer for the recorded end %s is armed with %s ns (due %s the end)" k
                                   (tok_of_z !cur_now) (tok_of_z !cur_ns) (tok_of_z (Stdlib.snd s)) (tok_of_z delay)
                                   (if Z.leb delay want then "BEFORE" else "AFTER"))
      end;
      check_eq (Printf.sprintf "timer-span-%d" k) (fun (a, b) -> tok_of_z a ^ "," ^ tok_of_z b) s (b, e);
      if not (span_ok !cur_now w (b, e)) then
        prop "span-shape" (Printf.sprintf "stage %d of a rotating process: at now=%s (weekend %s) the new file has begin=%s end=%s" k
                             (tok_of_z !cur_now) (tok_of_z w) (tok_of_z b) (tok_of_z e));
      if npend <> 1 then begin
        chain_ok := false;
        prop "rotation-chain" (Printf.sprintf "stage %d: %d timers armed after rotate (the next rotation must be scheduled exactly once)" k npend)
      end;
      expect := (meta_time_begin s, meta_time_end s, n) :: !expect;
      if k < stages then begin cur_now := next_z c; cur_ns := next_z c; fires := !cur_now :: !fires end
    done;
    (* the model function the theorem C09_rotation_chain_tiles is about *)
    check_eq "timer-chain" (fun l -> String.concat ";" (List.map (fun (a, b) -> tok_of_z a ^ "," ^ tok_of_z b) l))
      (timer_chain now0 w (List.rev !fires)) (List.rev !seen);
    let files = next_list c (fun c -> let tb = next_bytes c in let te = next_bytes c in let v = next_z c in (tb, te, v)) in
    (* spans of consecutive stages may coincide only if a timer fired before the end: never here *)
    let show l = String.concat ";" (List.map (fun (a, b, v) -> string_of_bytes a ^ "|" ^ string_of_bytes b ^ "=" ^ tok_of_z v) l) in
    let want = List.sort compare !expect in
    if List.sort compare files <> want then begin
      diff "timer-files" ~model:(show want) ~impl:(show (List.sort compare files));
      if !chain_ok then prop "rotation" (Printf.sprintf "increments after a recorded end are not in the next span's file: %s" (show files))
    end
  | "rotfail" ->
    (* a rotation that fails once: no file may hold more increments than were
       made while its own span was current (an increment is never counted in
       another week's file) *)
    let w = next_z c in
    let incs = next_list c (fun c -> let t = next_z c in let n = next_z c in (t, n)) in
    let files = next_list c (fun c -> let tb = next_bytes c in let te = next_bytes c in let v = next_z c in (tb, te, v)) in
    List.iter (fun (tb, te, v) ->
        let made = List.fold_left (fun acc (t, n) ->
            let s = counter_span t w in
            if meta_time_begin s = tb && meta_time_end s = te then Z.add acc n else acc) Z0 incs in
        if not (Z.leb v made) then
          prop "rotation" (Printf.sprintf "after a rotation that failed once: the file of span %s .. %s holds %s increments, only %s were made in that span (increments made in another week are counted here)"
                             (string_of_bytes tb) (string_of_bytes te) (tok_of_z v) (tok_of_z made))) files
  | "uploadmulti" ->
    (* several programs and weeks, one run: a file is consumed iff its recorded
       end is before the start, and then its count is in the report named by
       the date of that end, under its program *)
    let ss = next_z c in
    let sn = next_z c in
    let files = next_list c (fun c ->
        let p = next_int c in let e = next_z c in let n = next_z c in let consumed = next_bool c in (p, e, n, consumed)) in
    let reps = next_list c (fun c -> let wk = next_bytes c in let p = next_int c in let v = next_z c in (wk, p, v)) in
    List.iter (fun (p, e, n, consumed) ->
        let m = uploader_consumes e (ss, sn) in
        if m <> consumed then
          prop "finished-iff-end-before-start"
            (Printf.sprintf "program %d end=%s start=%s.%s consumed=%b" p (tok_of_z e) (tok_of_z ss) (tok_of_z sn) consumed);
        if m then begin
          let wk = uploader_week e in
          match List.filter (fun (w, q, _) -> w = wk && q = p) reps with
          | [(_, _, v)] ->
            if v <> n then
              prop "week-named-by-end-date" (Printf.sprintf "program %d, recorded end %s: the report of week %s has c=%s for it, the file had %s"
                                               p (tok_of_z e) (string_of_bytes wk) (tok_of_z v) (tok_of_z n))
          | l ->
            prop "week-named-by-end-date" (Printf.sprintf "program %d, finished file with recorded end %s (%s increments): %d entries for it in the report of week %s (reports: %s)"
                                             p (tok_of_z e) (tok_of_z n) (List.length l) (string_of_bytes wk)
                                             (String.concat ";" (List.map (fun (w, q, v) -> string_of_bytes w ^ "/" ^ string_of_int q ^ "=" ^ tok_of_z v) reps)))
        end) files;
    (* the model of the run (theorem C09_run_reports_each_file_under_its_week): same entries, same files left *)
    let mfiles = List.map (fun (p, e, n, _) -> ((nat_of_int p, e), n)) files in
    let want = List.sort compare (List.map (fun ((wk, p), n) -> (wk, int_of_nat p, n)) (run_entries mfiles (ss, sn))) in
    let show l = String.concat ";" (List.map (fun (w, q, v) -> string_of_bytes w ^ "/" ^ string_of_int q ^ "=" ^ tok_of_z v) l) in
    check_eq "run-entries" show want (List.sort compare reps);
    let left = List.sort compare (List.map (fun ((p, e), n) -> (int_of_nat p, e, n)) (run_leaves mfiles (ss, sn))) in
    let left_impl = List.sort compare (List.filter_map (fun (p, e, n, consumed) -> if consumed then None else Some (p, e, n)) files) in
    check_eq "run-leaves" (fun l -> String.concat ";" (List.map (fun (p, e, n) -> string_of_int p ^ "/" ^ tok_of_z e ^ "=" ^ tok_of_z n) l)) left left_impl;
    (* nothing is reported that no finished file accounts for *)
    List.iter (fun (wk, p, v) ->
        if not (List.exists (fun (q, e, n, _) -> q = p && uploader_consumes e (ss, sn) && uploader_week e = wk && n = v) files) then
          prop "week-named-by-end-date" (Printf.sprintf "the report of week %s has program %d with c=%s, which no finished file of that week accounts for"
                                           (string_of_bytes wk) p (tok_of_z v))) reps
  | "realclock" ->
    let t0 = next_z c in
    let t1 = next_z c in
    let wk = next_bytes c in
    let errs = next c in
    let b = next_z c in
    let e = next_z c in
    let off = next_z c in
    (match weekend_of_bytes wk with
     | None -> if errs <> "err" then diff "span-error" ~model:"err" ~impl:errs
     | Some w ->
       if errs <> "ok" then diff "span-error" ~model:"ok" ~impl:errs
       else if counter_span t0 w <> (b, e) && counter_span t1 w <> (b, e) then begin
         diff "realclock-span" ~model:(tok_of_z (Stdlib.fst (counter_span t0 w))) ~impl:(tok_of_z b);
         prop "span-shape" (Printf.sprintf "package clock, local zone offset %s s: now=%s begin=%s end=%s (the span is on the UTC calendar)"
                              (tok_of_z off) (tok_of_z t0) (tok_of_z b) (tok_of_z e))
       end)
  | "file" ->
    let now = next_z c in
    let w = next_z c in
    let tb = next_bytes c in
    let te = next_bytes c in
    let name = next_bytes c in
    let s = counter_span now w in
    check_eq "meta-TimeBegin" tok_of_bytes (meta_time_begin s) tb;
    check_eq "meta-TimeEnd" tok_of_bytes (meta_time_end s) te;
    let want = app dash_b (app (name_date s) suffix_b) in
    if not (has_suffix name want) then
      diff "file-name-date" ~model:(string_of_bytes want) ~impl:(string_of_bytes name);
    (match uploader_reads tb te with
     | None -> prop "meta-unreadable" (string_of_bytes tb ^ " " ^ string_of_bytes te)
     | Some obs -> if not (span_ok now w obs) then prop "span-shape" "recorded metadata")
  | "file-fail" -> diff "file-open" ~model:"ok" ~impl:"rotate1 failed"
  | "rotate" ->
    let now0 = next_z c in
    let now1 = next_z c in
    let w = next_z c in
    let after1 = next_bytes c in
    let failed = next_bool c in
    let n1 = next_z c in
    let n2 = next_z c in
    let b0 = next_z c in let e0 = next_z c in
    let b1 = next_z c in let e1 = next_z c in
    let blank = (weekend_of_bytes after1 = None) in
    let w1 = (match weekend_of_bytes after1 with Some x -> x | None -> w) in
    let files = next_list c (fun c -> let tb = next_bytes c in let te = next_bytes c in let v = next_z c in (tb, te, v)) in
    let s0 = counter_span now0 w in
    (* a blank setting: counterSpan fails, rotate1 records the error, drops the mapping
       and keeps the old span; nothing is counted any more *)
    let s1 = if blank then s0 else counter_span now1 w1 in
    if failed <> (blank || ((not (rotate_keeps s0 now1 w1)) && second_opener s0 (counter_span now1 w1) = None)) then
      diff "rot-failed" ~model:(string_of_bool (not failed)) ~impl:(string_of_bool failed);
    check_eq "rot-span0" (fun (a, b) -> tok_of_z a ^ "," ^ tok_of_z b) s0 (b0, e0);
    check_eq "rot-span1" (fun (a, b) -> tok_of_z a ^ "," ^ tok_of_z b) s1 (b1, e1);
    let keeps = (not blank) && rotate_keeps s0 now1 w1 in
    if (not blank) && not (span_ok now1 w1 (b1, e1)) then
      prop "span-shape" (Printf.sprintf "second rotation: now=%s weekend=%s begin=%s end=%s"
                           (tok_of_z now1) (tok_of_z w1) (tok_of_z b1) (tok_of_z e1));
    (* same begin date (same file name) but another end - possible only when the
       setting changed and rotate1 runs again the same day: openMapped refuses the
       first file's header (second_opener) and the process stops counting *)
    let refused = blank || ((not keeps) && second_opener s0 s1 = None) in
    let expect =
      if keeps then [ (meta_time_begin s0, meta_time_end s0, Z.add n1 n2) ]
      else if refused then [ (meta_time_begin s0, meta_time_end s0, n1) ]
      else List.sort compare [ (meta_time_begin s0, meta_time_end s0, n1); (meta_time_begin s1, meta_time_end s1, n2) ] in
    let show l = String.concat ";" (List.map (fun (a, b, v) -> string_of_bytes a ^ "|" ^ string_of_bytes b ^ "=" ^ tok_of_z v) l) in
    check_eq "rot-files" show expect (List.sort compare files);
    (* property oracle: once the recorded end is reached a new file is used
       and the old file holds exactly the earlier increments *)
    if Z.leb e0 now1 then begin
      let old_ok = List.exists (fun (tb, te, v) -> uploader_reads tb te = Some (b0, e0) && v = n1) files in
      let new_ok = List.exists (fun (tb, te, v) ->
          match uploader_reads tb te with
          | Some (b, _) -> Z.leb e0 b && v = n2
          | None -> false) files in
      if not (old_ok && (new_ok || failed)) then prop "rotation" (show files)
    end
  | "share" ->
    let now0 = next_z c in
    let w0 = next_z c in
    let now1 = next_z c in
    let w1 = next_z c in
    let opened = next_bool c in
    let same = next_bool c in
    let b2 = next_z c in let e2 = next_z c in
    let tb = next_bytes c in let te = next_bytes c in
    let first = counter_span now0 w0 in
    let mine = counter_span now1 w1 in
    check_eq "share-span" (fun (a, b) -> tok_of_z a ^ "," ^ tok_of_z b) mine (b2, e2);
    (match second_opener first mine with
     | None -> if opened then diff "share-opened" ~model:"refused" ~impl:"opened"
     | Some s ->
       if not opened then diff "share-opened" ~model:"opened" ~impl:"refused"
       else begin
         check_eq "share-same-file" string_of_bool (beq (name_date first) (name_date mine)) same;
         check_eq "share-TimeBegin" string_of_bytes (meta_time_begin s) tb;
         check_eq "share-TimeEnd" string_of_bytes (meta_time_end s) te
       end);
    (* property oracle: the file a process counts into records the span the
       process keeps in memory (its rotation instant is the recorded end) *)
    if opened then
      (match uploader_reads tb te with
       | Some (rb, re) when rb = b2 && re = e2 -> ()
       | _ -> prop "counts-into-file-of-another-span"
                (Printf.sprintf "in-memory span=%s,%s file records %s .. %s"
                   (tok_of_z b2) (tok_of_z e2) (string_of_bytes tb) (string_of_bytes te)))
  | "upload" ->
    let _now = next_z c in
    let w = next_z c in
    let e = next_z c in
    let ss = next_z c in
    let sn = next_z c in
    let consumed = next_bool c in
    let nrep = next_int c in
    let week = next_bytes c in
    let m = uploader_consumes e (ss, sn) in
    if m <> consumed then
      prop "finished-iff-end-before-start"
        (Printf.sprintf "end=%s start=%s.%s consumed=%b" (tok_of_z e) (tok_of_z ss) (tok_of_z sn) consumed);
    if consumed then begin
      if nrep <> 1 then diff "upload-nreports" ~model:"1" ~impl:(string_of_int nrep);
      check_eq "upload-week" string_of_bytes (uploader_week e) week;
      (* property oracle: the week is named by the (UTC) date of the recorded end *)
      if week <> uploader_week e then
        prop "week-named-by-end-date" (Printf.sprintf "recorded end=%s reported under week %s" (tok_of_z e) (string_of_bytes week));
      ignore w
    end else if nrep <> 0 then diff "upload-nreports" ~model:"0" ~impl:(string_of_int nrep)
  | k -> diff "unknown-case-kind" ~model:k ~impl:"-"

let () = run_file Sys.argv.(1) handle
